/* detsched.h — deterministic scheduler shim for pthread programs (see README.md).
 *
 * The shim replaces pthread_mutex_*, pthread_cond_*, pthread_create/join.  Threads are real
 * threads, but only the holder of one baton runs; every interposed call is a scheduling point
 * at which the next thread is taken from a schedule (explicit tokens, seeded PRNG, or the DFS
 * explorer).  Same schedule string => same execution.
 */
#ifndef VERIF_DETSCHED_H
#define VERIF_DETSCHED_H

#include <stdio.h>
#include <stddef.h>

#ifdef __cplusplus
extern "C" {
#endif

/* what to do when the explicit schedule is exhausted */
enum { SCHED_FB_FIRST = 0,   /* lowest-numbered thread that can make progress (timeouts last) */
       SCHED_FB_RANDOM = 1,  /* seeded PRNG over all enabled choices (weights below)          */
       SCHED_FB_RR = 2,      /* round robin over threads that can make progress               */
       SCHED_FB_STOP = 3 };  /* report verdict `schedule-end` and stop                         */

/* verdicts */
enum { SCHED_OK = 0, SCHED_DEADLOCK = 1, SCHED_MISMATCH = 2, SCHED_STEP_LIMIT = 3,
       SCHED_MISUSE = 4, SCHED_SLEEP_BLOCKED = 5, SCHED_SCHEDULE_END = 6, SCHED_CRASH = 7 };
const char *sched_verdict_name(int verdict);

typedef struct sched_config {
    const char *schedule;        /* tokens separated by blanks or commas; may be NULL/""        */
    int strict;                  /* 1: a token that is not enabled => verdict `mismatch`;
                                    0: such tokens are skipped                                   */
    int fallback;                /* SCHED_FB_*                                                   */
    unsigned long long seed;     /* for SCHED_FB_RANDOM                                          */
    int spurious_weight;         /* RANDOM: weight of each spurious wake-up choice (run = 100)   */
    int timeout_weight;          /* RANDOM: weight of each timeout choice (run = 100)            */
    int max_steps;               /* > 0: abort with `step-limit` after that many choices         */
    FILE *trace;                 /* human-readable trace, one line per choice; may be NULL       */
    void (*on_abort)(int verdict, const char *msg);   /* called (in the aborting thread) before
                                    the process _exit()s on deadlock/mismatch/step-limit/misuse  */
} sched_config;

/* Activate the shim.  The calling thread becomes thread 0 and holds the baton.  Threads
 * created afterwards through pthread_create get ids 1, 2, ... in creation order. */
void sched_begin(const sched_config *cfg);
/* Deactivate.  All other threads must have been joined.  Returns the verdict (SCHED_OK). */
int sched_end(void);
int sched_active(void);
int sched_self(void);                         /* id of the calling thread                       */
int sched_steps(void);                        /* number of choices made so far                  */
/* The executed schedule so far: every choice actually taken, as a token string that reproduces
 * this execution when passed back as `schedule` with strict = 1. */
const char *sched_choices(void);
/* Harness-level scheduling point (e.g. between two runtime operations, before a plain store).
 * `obj` identifies the datum touched (used only for the independence relation of the explorer). */
void sched_point(const char *name, const void *obj);
/* Append to the result text of this execution (returned to the explorer / sched_run_forked). */
void sched_result(const char *fmt, ...) __attribute__((format(printf, 1, 2)));
const char *sched_result_text(void);

/* ---- forked runs and DFS exploration (sched_explore.c) ---------------------------------- */

typedef int (*sched_run_fn)(void *arg);       /* one execution: create threads, join them, call
                                                 sched_result(...).  Runs in a forked child,
                                                 bracketed by sched_begin/sched_end.            */
typedef struct sched_outcome {
    int verdict;                 /* SCHED_*; SCHED_CRASH if the child died (signal, sanitizer)  */
    int exit_status;             /* raw wait status of the child                                */
    char *schedule;              /* choices executed (complete, replayable)                     */
    char *result;                /* text accumulated by sched_result()                          */
    char *detail;                /* verdict detail (blocked threads, mismatching token)         */
    char *stderr_text;           /* first 4 KiB of the child's stderr (sanitizer report)        */
    int steps;
} sched_outcome;
void sched_outcome_free(sched_outcome *o);

/* Run `run(arg)` once in a forked child under `cfg` (cfg->trace is ignored; cfg->on_abort runs in
 * the child and may call sched_result()). */
int sched_run_forked(sched_run_fn run, void *arg, const sched_config *cfg, sched_outcome *out);

typedef struct sched_explore_opts {
    int depth;                   /* choices beyond this depth are not branched on (FIRST policy) */
    int max_spurious;            /* max spurious wake-ups per execution (default 1)              */
    int max_timeouts;            /* max timeout choices per execution, -1 = unbounded            */
    int independence;            /* sleep-set pruning: 0 none; 1 only wake-up choices commute;
                                    2 steps on distinct objects commute (assumes the code under
                                    test is data-race free outside declared sched_points)       */
    long max_runs;               /* stop after that many executions (0 = unbounded)              */
    int max_steps;               /* per execution                                                */
    int watchdog_s;              /* kill a child after that many seconds (default 20)            */
    void (*on_abort)(int verdict, const char *msg);   /* as in sched_config (runs in the child)  */
} sched_explore_opts;

/* visit() is called once per complete execution; a non-zero return stops the search. */
typedef int (*sched_visit_fn)(void *user, const sched_outcome *o);
/* Depth-first enumeration of all schedules (by re-execution).  Returns number of executions;
 * *exhausted is set to 1 iff the whole tree (within the bounds) was covered. */
long sched_explore(sched_run_fn run, void *arg, const sched_explore_opts *opts,
                   sched_visit_fn visit, void *user, int *exhausted);

#ifdef __cplusplus
}
#endif
#endif
