/* detsched_internal.h — shared between sched.c and sched_explore.c (not part of the public API) */
#ifndef VERIF_SCHED_INTERNAL_H
#define VERIF_SCHED_INTERNAL_H
typedef struct sched_explore_cfg {
    int report_fd;        /* >= 0: stream `S`/`R`/`V` records of the execution to this fd   */
    int exploring;        /* after the explicit prefix pick the first choice outside `sleep` */
    const char *sleep;    /* sleep set (tokens) valid at the end of the explicit prefix      */
    int depth;
    int max_spurious;
    int max_timeouts;
    int independence;
} sched_explore_cfg;
void sched__set_explore(const sched_explore_cfg *x);
#endif
