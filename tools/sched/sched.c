/* sched.c — deterministic scheduler shim (see detsched.h, README.md).
 *
 * Build modes
 *   default (link-time):  the entry points are named __wrap_pthread_*; link the program with
 *                         the flags of `wrap.flags` (-Wl,--wrap=pthread_mutex_lock,...).
 *   -DSCHED_PRELOAD:      the entry points are named pthread_*; build as a shared object and
 *                         LD_PRELOAD it; configured from SCHED_* environment variables.
 *
 * State of a mutex / condition variable lives INSIDE the user's pthread_mutex_t / pthread_cond_t
 * (so a sanitizer sees every use of a freed or out-of-scope object as the memory error it is).
 */
#define _GNU_SOURCE
#include <pthread.h>
#include <semaphore.h>
#include <errno.h>
#include <stdarg.h>
#include <stdint.h>
#include <stdio.h>
#include <stdlib.h>
#include <string.h>
#include <unistd.h>
#include "detsched.h"
#include "detsched_internal.h"

#ifdef SCHED_PRELOAD
#include <dlfcn.h>
#define FN(name) name
static int (*real_create)(pthread_t *, const pthread_attr_t *, void *(*)(void *), void *);
static int (*real_join)(pthread_t, void **);
static int (*real_mutex_lock)(pthread_mutex_t *);
static int (*real_mutex_trylock)(pthread_mutex_t *);
static int (*real_mutex_unlock)(pthread_mutex_t *);
static int (*real_mutex_init)(pthread_mutex_t *, const pthread_mutexattr_t *);
static int (*real_mutex_destroy)(pthread_mutex_t *);
static int (*real_cond_init)(pthread_cond_t *, const pthread_condattr_t *);
static int (*real_cond_destroy)(pthread_cond_t *);
static int (*real_cond_wait)(pthread_cond_t *, pthread_mutex_t *);
static int (*real_cond_timedwait)(pthread_cond_t *, pthread_mutex_t *, const struct timespec *);
static int (*real_cond_signal)(pthread_cond_t *);
static int (*real_cond_broadcast)(pthread_cond_t *);
static void resolve_real(void) {
    if (real_create) return;
    real_create = dlsym(RTLD_NEXT, "pthread_create");
    real_join = dlsym(RTLD_NEXT, "pthread_join");
    real_mutex_lock = dlsym(RTLD_NEXT, "pthread_mutex_lock");
    real_mutex_trylock = dlsym(RTLD_NEXT, "pthread_mutex_trylock");
    real_mutex_unlock = dlsym(RTLD_NEXT, "pthread_mutex_unlock");
    real_mutex_init = dlsym(RTLD_NEXT, "pthread_mutex_init");
    real_mutex_destroy = dlsym(RTLD_NEXT, "pthread_mutex_destroy");
    real_cond_init = dlsym(RTLD_NEXT, "pthread_cond_init");
    real_cond_destroy = dlsym(RTLD_NEXT, "pthread_cond_destroy");
    real_cond_wait = dlsym(RTLD_NEXT, "pthread_cond_wait");
    real_cond_timedwait = dlsym(RTLD_NEXT, "pthread_cond_timedwait");
    real_cond_signal = dlsym(RTLD_NEXT, "pthread_cond_signal");
    real_cond_broadcast = dlsym(RTLD_NEXT, "pthread_cond_broadcast");
}
#define REAL(name) real_##name
#else
#define FN(name) __wrap_##name
int __real_pthread_create(pthread_t *, const pthread_attr_t *, void *(*)(void *), void *);
int __real_pthread_join(pthread_t, void **);
int __real_pthread_mutex_lock(pthread_mutex_t *);
int __real_pthread_mutex_trylock(pthread_mutex_t *);
int __real_pthread_mutex_unlock(pthread_mutex_t *);
int __real_pthread_mutex_init(pthread_mutex_t *, const pthread_mutexattr_t *);
int __real_pthread_mutex_destroy(pthread_mutex_t *);
int __real_pthread_cond_init(pthread_cond_t *, const pthread_condattr_t *);
int __real_pthread_cond_destroy(pthread_cond_t *);
int __real_pthread_cond_wait(pthread_cond_t *, pthread_mutex_t *);
int __real_pthread_cond_timedwait(pthread_cond_t *, pthread_mutex_t *, const struct timespec *);
int __real_pthread_cond_signal(pthread_cond_t *);
int __real_pthread_cond_broadcast(pthread_cond_t *);
#define real_create __real_pthread_create
#define real_join __real_pthread_join
#define real_mutex_lock __real_pthread_mutex_lock
#define real_mutex_trylock __real_pthread_mutex_trylock
#define real_mutex_unlock __real_pthread_mutex_unlock
#define real_mutex_init __real_pthread_mutex_init
#define real_mutex_destroy __real_pthread_mutex_destroy
#define real_cond_init __real_pthread_cond_init
#define real_cond_destroy __real_pthread_cond_destroy
#define real_cond_wait __real_pthread_cond_wait
#define real_cond_timedwait __real_pthread_cond_timedwait
#define real_cond_signal __real_pthread_cond_signal
#define real_cond_broadcast __real_pthread_cond_broadcast
static void resolve_real(void) {}
#endif

/* ------------------------------------------------------------------------------------------
 * in-object state
 * ---------------------------------------------------------------------------------------- */

#define MAGIC_MUTEX 0x5ced0a01u
#define MAGIC_COND 0x5ced0c02u
#define MAGIC_DEAD 0x5cedDEADu

typedef struct { unsigned magic; int id; int owner; } smutex;   /* overlays pthread_mutex_t */
typedef struct { unsigned magic; int id; } scond;               /* overlays pthread_cond_t  */

typedef char assert_mutex_fits[sizeof(smutex) <= sizeof(pthread_mutex_t) ? 1 : -1];
typedef char assert_cond_fits[sizeof(scond) <= sizeof(pthread_cond_t) ? 1 : -1];

enum { OP_NONE, OP_START, OP_LOCK, OP_TRYLOCK, OP_UNLOCK, OP_CWAIT, OP_SIGNAL, OP_BROADCAST,
       OP_CREATE, OP_JOIN, OP_POINT };
static const char *op_names[] = { "none", "start", "lock", "trylock", "unlock", "cond_wait",
                                  "signal", "broadcast", "create", "join", "point" };

enum { T_UNUSED, T_RUNNING, T_READY, T_PARKED, T_WOKEN, T_FINISHED };

typedef struct sthread {
    int id;
    int state;
    int op;                  /* pending operation when T_READY                                 */
    smutex *m;               /* mutex of the pending op / the one to re-acquire                */
    scond *c;                /* condvar of the pending op / parked on                          */
    int timed;               /* parked in timedwait                                            */
    int wake_timeout;        /* woken by timeout => ETIMEDOUT                                  */
    int join_target;
    const char *pname;       /* name of sched_point                                            */
    const void *pobj;
    int rc;                  /* return code handed to the resumed call                         */
    sem_t go;
    pthread_t handle;
    void *(*start)(void *);
    void *arg;
    void *retval;
    int joined;
} sthread;

#define MAX_THREADS 64
static sthread threads[MAX_THREADS];
static int nthreads;
static int active;
static __thread sthread *self;

static sched_config cfg;
static sched_explore_cfg xcfg = { -1, 0, NULL, 0, 0, -1, 0 };   /* explorer settings (report_fd < 0 when unused) */
static int last_from_schedule;       /* the choice being applied came from the explicit schedule */
static char *sched_tokens;           /* copy of cfg.schedule, tokenised in place     */
static char **tok_list;
static int tok_count, tok_pos;
static char *sleep_copy;
static char **sleep_list;            /* explorer: current sleep set (tokens)          */
static int sleep_count;
static unsigned long long prng;
static int next_mutex_id, next_cond_id;
static int steps, rr_last;
static int n_spurious, n_timeouts;

static char *choice_buf;             /* executed choices as a token string            */
static size_t choice_len, choice_cap;
static char *result_buf;
static size_t result_len, result_cap;

static void buf_append(char **buf, size_t *len, size_t *cap, const char *s) {
    size_t n = strlen(s);
    if (*len + n + 1 > *cap) {
        *cap = (*len + n + 1) * 2 + 64;
        *buf = realloc(*buf, *cap);
    }
    memcpy(*buf + *len, s, n + 1);
    *len += n;
}

const char *sched_verdict_name(int v) {
    switch (v) {
    case SCHED_OK: return "ok";
    case SCHED_DEADLOCK: return "deadlock";
    case SCHED_MISMATCH: return "mismatch";
    case SCHED_STEP_LIMIT: return "step-limit";
    case SCHED_MISUSE: return "misuse";
    case SCHED_SLEEP_BLOCKED: return "sleep-blocked";
    case SCHED_SCHEDULE_END: return "schedule-end";
    case SCHED_CRASH: return "crash";
    }
    return "?";
}

int sched_active(void) { return active; }
int sched_self(void) { return self ? self->id : -1; }
int sched_steps(void) { return steps; }
const char *sched_choices(void) { return choice_buf ? choice_buf : ""; }
const char *sched_result_text(void) { return result_buf ? result_buf : ""; }

void sched_result(const char *fmt, ...) {
    char tmp[1024];
    va_list ap;
    va_start(ap, fmt);
    vsnprintf(tmp, sizeof tmp, fmt, ap);
    va_end(ap);
    buf_append(&result_buf, &result_len, &result_cap, tmp);
}

static void report(const char *fmt, ...) {
    char tmp[2048];
    va_list ap;
    int n;
    if (xcfg.report_fd < 0) return;
    va_start(ap, fmt);
    n = vsnprintf(tmp, sizeof tmp, fmt, ap);
    va_end(ap);
    if (n > (int)sizeof tmp - 1) n = sizeof tmp - 1;
    if (write(xcfg.report_fd, tmp, n) < 0) { /* parent gone */ }
}

static void flush_result_report(void) {
    /* result text goes up as one `R` line; newlines are kept out of the protocol */
    if (xcfg.report_fd >= 0) {
        const char *r = sched_result_text();
        size_t n = strlen(r), i;
        char *copy = malloc(n + 4);
        copy[0] = 'R'; copy[1] = ' ';
        for (i = 0; i < n; i++) copy[2 + i] = (r[i] == '\n') ? ';' : r[i];
        copy[2 + n] = '\n';
        if (write(xcfg.report_fd, copy, n + 3) < 0) {}
        free(copy);
    }
}

#ifdef SCHED_GCOV                       /* --coverage builds: _exit skips the atexit flush of the counters */
extern void __gcov_dump(void);
#define SCHED_GCOV_DUMP() __gcov_dump()
#else
#define SCHED_GCOV_DUMP() ((void)0)
#endif

static void die(int verdict, const char *fmt, ...) __attribute__((noreturn, format(printf, 2, 3)));
static void die(int verdict, const char *fmt, ...) {
    char msg[1024];
    va_list ap;
    va_start(ap, fmt);
    vsnprintf(msg, sizeof msg, fmt, ap);
    va_end(ap);
    if (cfg.trace) {
        fprintf(cfg.trace, "sched: %s: %s\nsched: schedule so far: %s\n", sched_verdict_name(verdict), msg, sched_choices());
        fflush(cfg.trace);
    }
    if (cfg.on_abort) cfg.on_abort(verdict, msg);
    flush_result_report();
    report("V %s %s\n", sched_verdict_name(verdict), msg);
    fflush(NULL);
    SCHED_GCOV_DUMP();
    _exit(xcfg.report_fd >= 0 ? 0 : 40 + verdict);
}

/* ------------------------------------------------------------------------------------------
 * objects
 * ---------------------------------------------------------------------------------------- */

static smutex *get_mutex(pthread_mutex_t *pm) {
    smutex *m = (smutex *)pm;
    if (m->magic == MAGIC_MUTEX) return m;
    if (m->magic == 0) {       /* PTHREAD_MUTEX_INITIALIZER / zeroed storage: first use */
        m->magic = MAGIC_MUTEX;
        m->id = next_mutex_id++;
        m->owner = -1;
        return m;
    }
    die(SCHED_MISUSE, "T%d uses an %s mutex", sched_self(), m->magic == MAGIC_DEAD ? "destroyed" : "uninitialised");
}

static scond *get_cond(pthread_cond_t *pc) {
    scond *c = (scond *)pc;
    if (c->magic == MAGIC_COND) return c;
    if (c->magic == 0) {
        c->magic = MAGIC_COND;
        c->id = next_cond_id++;
        return c;
    }
    die(SCHED_MISUSE, "T%d uses an %s condition variable", sched_self(), c->magic == MAGIC_DEAD ? "destroyed" : "uninitialised");
}

/* ------------------------------------------------------------------------------------------
 * choices
 * ---------------------------------------------------------------------------------------- */

typedef struct choice {
    int tid;
    char kind;             /* 'r' run, 's' spurious wake-up, 't' timeout               */
    int sub;               /* signal: index of the parked thread to wake (in id order) */
    int nsub;              /* signal: number of alternatives                           */
} choice;

#define MAX_CHOICES (3 * MAX_THREADS + 16)

static int parked_on(scond *c, int *out) {
    int i, n = 0;
    for (i = 0; i < nthreads; i++)
        if (threads[i].state == T_PARKED && threads[i].c == c) { if (out) out[n] = i; n++; }
    return n;
}

static int run_enabled(sthread *t) {
    if (t->state == T_WOKEN) return t->m->owner < 0;
    if (t->state != T_READY) return 0;
    switch (t->op) {
    case OP_LOCK: return t->m->owner < 0;
    case OP_JOIN: return threads[t->join_target].state == T_FINISHED;
    default: return 1;
    }
}

static int enabled_choices(choice *out) {
    int i, n = 0;
    for (i = 0; i < nthreads; i++) {
        sthread *t = &threads[i];
        if (run_enabled(t)) {
            int k = 1, j;
            if (t->state == T_READY && t->op == OP_SIGNAL) {
                k = parked_on(t->c, NULL);
                if (k < 1) k = 1;
            }
            for (j = 0; j < k; j++) { out[n].tid = i; out[n].kind = 'r'; out[n].sub = j; out[n].nsub = k; n++; }
        }
    }
    for (i = 0; i < nthreads; i++)
        if (threads[i].state == T_PARKED && threads[i].timed) { out[n].tid = i; out[n].kind = 't'; out[n].sub = 0; out[n].nsub = 1; n++; }
    for (i = 0; i < nthreads; i++)
        if (threads[i].state == T_PARKED) { out[n].tid = i; out[n].kind = 's'; out[n].sub = 0; out[n].nsub = 1; n++; }
    return n;
}

static void choice_token(const choice *c, char *buf, size_t n) {
    if (c->kind == 'r') {
        if (c->nsub > 1) snprintf(buf, n, "%d/%d", c->tid, c->sub);
        else snprintf(buf, n, "%d", c->tid);
    } else snprintf(buf, n, "%d%c", c->tid, c->kind);
}

static int token_matches(const char *tok, const choice *c) {
    char buf[32];
    choice_token(c, buf, sizeof buf);
    if (!strcmp(tok, buf)) return 1;
    if (c->kind == 'r' && c->sub == 0 && c->nsub > 1) {      /* "3" abbreviates "3/0" */
        snprintf(buf, sizeof buf, "%d", c->tid);
        return !strcmp(tok, buf);
    }
    return 0;
}

/* objects a choice touches, as small strings, for the independence relation */
static void choice_objs(const choice *c, char a[24], char b[24]) {
    sthread *t = &threads[c->tid];
    a[0] = b[0] = 0;
    if (c->kind != 'r') { snprintf(a, 24, "c%d", t->c->id); return; }
    if (t->state == T_WOKEN) { snprintf(a, 24, "m%d", t->m->id); return; }
    switch (t->op) {
    case OP_LOCK: case OP_TRYLOCK: case OP_UNLOCK: snprintf(a, 24, "m%d", t->m->id); break;
    case OP_CWAIT: snprintf(a, 24, "m%d", t->m->id); snprintf(b, 24, "c%d", t->c->id); break;
    case OP_SIGNAL: case OP_BROADCAST: snprintf(a, 24, "c%d", t->c->id); break;
    case OP_CREATE: snprintf(a, 24, "T"); break;
    case OP_JOIN: snprintf(a, 24, "t%d", t->join_target); break;
    case OP_POINT: snprintf(a, 24, "u%lx", (unsigned long)(uintptr_t)t->pobj); break;
    default: break;
    }
}

static int independent(const choice *x, const choice *y) {
    char xa[24], xb[24], ya[24], yb[24];
    int xw = x->kind != 'r', yw = y->kind != 'r';
    if (xcfg.independence <= 0) return 0;
    if (x->tid == y->tid) return 0;
    if (xw && yw) return 1;
    choice_objs(x, xa, xb);
    choice_objs(y, ya, yb);
    if (xcfg.independence == 1 && !xw && !yw) return 0;
    if (xa[0] && (!strcmp(xa, ya) || !strcmp(xa, yb))) return 0;
    if (xb[0] && (!strcmp(xb, ya) || !strcmp(xb, yb))) return 0;
    return 1;
}

static int in_sleep(const choice *c) {
    int i;
    for (i = 0; i < sleep_count; i++)
        if (sleep_list[i] && token_matches(sleep_list[i], c)) return 1;
    return 0;
}

static void describe(const choice *c, char *buf, size_t n) {
    sthread *t = &threads[c->tid];
    if (c->kind == 's') { snprintf(buf, n, "spurious-wake:c%d", t->c->id); return; }
    if (c->kind == 't') { snprintf(buf, n, "timeout:c%d", t->c->id); return; }
    if (t->state == T_WOKEN) { snprintf(buf, n, "reacquire:m%d%s", t->m->id, t->wake_timeout ? ":timedout" : ""); return; }
    switch (t->op) {
    case OP_LOCK: case OP_TRYLOCK: case OP_UNLOCK: snprintf(buf, n, "%s:m%d", op_names[t->op], t->m->id); break;
    case OP_CWAIT: snprintf(buf, n, "%s:c%d:m%d", t->timed ? "cond_timedwait" : "cond_wait", t->c->id, t->m->id); break;
    case OP_SIGNAL: case OP_BROADCAST: snprintf(buf, n, "%s:c%d", op_names[t->op], t->c->id); break;
    case OP_JOIN: snprintf(buf, n, "join:t%d", t->join_target); break;
    case OP_POINT: snprintf(buf, n, "point:%s", t->pname ? t->pname : ""); break;
    default: snprintf(buf, n, "%s", op_names[t->op]); break;
    }
}

static unsigned long long next_random(void) {       /* splitmix64 */
    unsigned long long z = (prng += 0x9e3779b97f4a7c15ull);
    z = (z ^ (z >> 30)) * 0xbf58476d1ce4e5b9ull;
    z = (z ^ (z >> 27)) * 0x94d049bb133111ebull;
    return z ^ (z >> 31);
}

static void blocked_summary(char *buf, size_t n) {
    int i;
    size_t len = 0;
    buf[0] = 0;
    for (i = 0; i < nthreads && len + 40 < n; i++) {
        sthread *t = &threads[i];
        if (t->state == T_FINISHED || t->state == T_UNUSED) continue;
        if (t->state == T_PARKED) len += snprintf(buf + len, n - len, "%sT%d:parked:c%d", len ? "," : "", i, t->c->id);
        else if (t->state == T_WOKEN) len += snprintf(buf + len, n - len, "%sT%d:reacquire:m%d", len ? "," : "", i, t->m->id);
        else if (t->state == T_READY && t->op == OP_LOCK) len += snprintf(buf + len, n - len, "%sT%d:lock:m%d(owner T%d)", len ? "," : "", i, t->m->id, t->m->owner);
        else if (t->state == T_READY && t->op == OP_JOIN) len += snprintf(buf + len, n - len, "%sT%d:join:T%d", len ? "," : "", i, t->join_target);
        else len += snprintf(buf + len, n - len, "%sT%d:%s", len ? "," : "", i, op_names[t->op]);
    }
}

/* Decide the next choice.  Returns index into `en`, or -1 if nothing can or should run. */
static int decide(choice *en, int n) {
    int i, progress = 0;
    for (i = 0; i < n; i++) if (en[i].kind != 's') progress++;

    /* 1. explicit schedule */
    last_from_schedule = 0;
    while (tok_pos < tok_count) {
        const char *tok = tok_list[tok_pos++];
        for (i = 0; i < n; i++) if (token_matches(tok, &en[i])) { last_from_schedule = 1; return i; }
        if (cfg.strict) {
            char bs[512];
            blocked_summary(bs, sizeof bs);
            die(SCHED_MISMATCH, "token %d `%s` is not enabled; threads: %s", tok_pos - 1, tok, bs);
        }
    }
    if (progress == 0) return -1;         /* only spurious wake-ups (or nothing) left */

    /* 2. explorer: first enabled choice outside the sleep set, within the bounds */
    if (xcfg.report_fd >= 0 && xcfg.exploring && steps < xcfg.depth) {
        for (i = 0; i < n; i++) {
            if (en[i].kind == 's' && n_spurious >= xcfg.max_spurious) continue;
            if (en[i].kind == 't' && xcfg.max_timeouts >= 0 && n_timeouts >= xcfg.max_timeouts) continue;
            if (in_sleep(&en[i])) continue;
            return i;
        }
        die(SCHED_SLEEP_BLOCKED, "every enabled choice is in the sleep set");
    }

    /* 3. fallback policy */
    switch (xcfg.report_fd >= 0 && xcfg.exploring ? SCHED_FB_FIRST : cfg.fallback) {
    case SCHED_FB_STOP:
        die(SCHED_SCHEDULE_END, "explicit schedule exhausted after %d choices", steps);
    case SCHED_FB_RANDOM: {
        unsigned long long total = 0, r;
        for (i = 0; i < n; i++)
            total += en[i].kind == 'r' ? 100 : en[i].kind == 's' ? (unsigned)cfg.spurious_weight : (unsigned)cfg.timeout_weight;
        if (total == 0) break;
        r = next_random() % total;
        for (i = 0; i < n; i++) {
            unsigned long long w = en[i].kind == 'r' ? 100 : en[i].kind == 's' ? (unsigned)cfg.spurious_weight : (unsigned)cfg.timeout_weight;
            if (r < w) return i;
            r -= w;
        }
        break;
    }
    case SCHED_FB_RR: {
        int k;
        for (k = 1; k <= nthreads; k++) {
            int tid = (rr_last + k) % nthreads;
            for (i = 0; i < n; i++) if (en[i].kind == 'r' && en[i].tid == tid) return i;
        }
        break;
    }
    default: break;
    }
    for (i = 0; i < n; i++) if (en[i].kind == 'r') return i;
    for (i = 0; i < n; i++) if (en[i].kind == 't') return i;
    return -1;
}

/* Apply a choice to the shim state.  Returns the thread to resume, or NULL if no thread
 * resumes as a result (a thread parked / was woken but still has to re-acquire). */
static sthread *apply(const choice *c) {
    sthread *t = &threads[c->tid];
    if (c->kind == 's' || c->kind == 't') {
        t->state = T_WOKEN;
        t->wake_timeout = (c->kind == 't');
        if (c->kind == 's') n_spurious++; else n_timeouts++;
        return NULL;
    }
    rr_last = t->id;
    if (t->state == T_WOKEN) {
        t->m->owner = t->id;
        t->rc = t->wake_timeout ? ETIMEDOUT : 0;
        t->state = T_RUNNING;
        return t;
    }
    t->rc = 0;
    switch (t->op) {
    case OP_LOCK:
        t->m->owner = t->id;
        break;
    case OP_TRYLOCK:
        if (t->m->owner < 0) t->m->owner = t->id; else t->rc = EBUSY;
        break;
    case OP_UNLOCK:
        if (t->m->owner != t->id) die(SCHED_MISUSE, "T%d unlocks mutex m%d owned by T%d", t->id, t->m->id, t->m->owner);
        t->m->owner = -1;
        break;
    case OP_CWAIT:
        if (t->m->owner != t->id) die(SCHED_MISUSE, "T%d waits on c%d without holding m%d", t->id, t->c->id, t->m->id);
        t->m->owner = -1;
        t->state = T_PARKED;
        t->wake_timeout = 0;
        return NULL;
    case OP_SIGNAL: {
        int who[MAX_THREADS], k = parked_on(t->c, who);
        if (k > 0) {
            sthread *w = &threads[who[c->sub < k ? c->sub : 0]];
            w->state = T_WOKEN;
            w->wake_timeout = 0;
        }
        break;
    }
    case OP_BROADCAST: {
        int who[MAX_THREADS], k = parked_on(t->c, who), j;
        for (j = 0; j < k; j++) { threads[who[j]].state = T_WOKEN; threads[who[j]].wake_timeout = 0; }
        break;
    }
    default: break;
    }
    t->state = T_RUNNING;
    return t;
}

/* The scheduler proper; runs in the thread that just yielded (or is exiting).  Returns the
 * thread to resume, NULL if none (all finished). */
static sthread *pick(void) {
    for (;;) {
        choice en[MAX_CHOICES];
        char tok[32], desc[96];
        int n = enabled_choices(en), k, i;
        sthread *next;
        if (cfg.max_steps > 0 && steps >= cfg.max_steps) die(SCHED_STEP_LIMIT, "more than %d choices", cfg.max_steps);
        k = decide(en, n);
        if (k < 0) {
            int unfinished = 0;
            char bs[768];
            for (i = 0; i < nthreads; i++) if (threads[i].state != T_FINISHED && threads[i].state != T_UNUSED) unfinished++;
            if (!unfinished) return NULL;
            blocked_summary(bs, sizeof bs);
            die(SCHED_DEADLOCK, "%s", bs);
        }
        choice_token(&en[k], tok, sizeof tok);
        describe(&en[k], desc, sizeof desc);
        if (cfg.trace) { fprintf(cfg.trace, "sched: %4d  T%-2d %-6s %s\n", steps, en[k].tid, tok, desc); fflush(cfg.trace); }
        if (xcfg.report_fd >= 0) {
            /* S <token> <desc> | enabled tokens with objects | sleep set */
            char line[4096];
            size_t len = snprintf(line, sizeof line, "S %s %s |", tok, desc);
            for (i = 0; i < n && len + 80 < sizeof line; i++) {
                char t2[32], a[24], b[24];
                choice_token(&en[i], t2, sizeof t2);
                choice_objs(&en[i], a, b);
                len += snprintf(line + len, sizeof line - len, " %s:%s:%s", t2, a[0] ? a : "-", b[0] ? b : "-");
            }
            len += snprintf(line + len, sizeof line - len, " |");
            for (i = 0; i < sleep_count && len + 40 < sizeof line && !last_from_schedule; i++)
                if (sleep_list[i]) len += snprintf(line + len, sizeof line - len, " %s", sleep_list[i]);
            report("%s\n", line);
        }
        /* sleep set after this choice: keep what is independent of it */
        if (sleep_count && !last_from_schedule) {
            for (i = 0; i < sleep_count; i++) {
                int j, keep = 0;
                if (!sleep_list[i]) continue;
                for (j = 0; j < n; j++)
                    if (token_matches(sleep_list[i], &en[j])) { keep = independent(&en[j], &en[k]); break; }
                if (!keep) sleep_list[i] = NULL;
            }
        }
        buf_append(&choice_buf, &choice_len, &choice_cap, choice_len ? " " : "");
        buf_append(&choice_buf, &choice_len, &choice_cap, tok);
        steps++;
        next = apply(&en[k]);
        if (next) return next;
    }
}

static void sem_wait_eintr(sem_t *s) { while (sem_wait(s) != 0 && errno == EINTR) {} }

/* current thread has set its pending op; hand the baton on and wait until resumed */
static int yield_op(void) {
    sthread *me = self, *next;
    me->state = T_READY;
    next = pick();
    if (next != me) {
        if (!next) die(SCHED_MISUSE, "scheduler found no thread to run while T%d is ready", me->id);
        sem_post(&next->go);
        sem_wait_eintr(&me->go);
    }
    return me->rc;
}

/* ------------------------------------------------------------------------------------------
 * activation
 * ---------------------------------------------------------------------------------------- */

static void tokenize(const char *s, char **copy, char ***list, int *count) {
    char *p;
    int cap = 16;
    *count = 0;
    *copy = strdup(s ? s : "");
    *list = malloc(cap * sizeof(char *));
    for (p = strtok(*copy, " ,\t\n"); p; p = strtok(NULL, " ,\t\n")) {
        if (*count == cap) { cap *= 2; *list = realloc(*list, cap * sizeof(char *)); }
        (*list)[(*count)++] = p;
    }
}

void sched__set_explore(const sched_explore_cfg *x) { xcfg = *x; }

void sched_begin(const sched_config *c) {
    resolve_real();
    memset(threads, 0, sizeof threads);
    cfg = *c;
    if (cfg.spurious_weight == 0 && cfg.timeout_weight == 0 && cfg.fallback == SCHED_FB_RANDOM) {
        cfg.spurious_weight = 10;
        cfg.timeout_weight = 30;
    }
    tokenize(cfg.schedule, &sched_tokens, &tok_list, &tok_count);
    tok_pos = 0;
    tokenize(xcfg.sleep ? xcfg.sleep : "", &sleep_copy, &sleep_list, &sleep_count);
    prng = cfg.seed * 0x2545F4914F6CDD1Dull + 0x1234567ull;
    next_mutex_id = next_cond_id = 0;
    steps = 0; rr_last = 0; n_spurious = n_timeouts = 0;
    choice_len = 0; if (choice_buf) choice_buf[0] = 0;
    result_len = 0; if (result_buf) result_buf[0] = 0;
    nthreads = 1;
    threads[0].id = 0;
    threads[0].state = T_RUNNING;
    sem_init(&threads[0].go, 0, 0);
    self = &threads[0];
    active = 1;
}

int sched_end(void) {
    int i;
    if (!active) return SCHED_OK;
    for (i = 1; i < nthreads; i++)
        if (threads[i].state != T_FINISHED) die(SCHED_MISUSE, "sched_end while T%d has not finished", i);
    active = 0;
    if (xcfg.report_fd >= 0) {
        flush_result_report();
        report("V ok\n");
    }
    return SCHED_OK;
}

void sched_point(const char *name, const void *obj) {
    if (!active || !self) return;
    self->op = OP_POINT;
    self->pname = name;
    self->pobj = obj;
    yield_op();
}

/* ------------------------------------------------------------------------------------------
 * interposed pthread API
 * ---------------------------------------------------------------------------------------- */

static void *trampoline(void *p) {
    sthread *me = p, *next;
    self = me;
    sem_wait_eintr(&me->go);           /* first scheduled: pending op START has been applied */
    me->retval = me->start(me->arg);
    me->state = T_FINISHED;
    next = pick();
    if (next) sem_post(&next->go);
    return me->retval;
}

int FN(pthread_create)(pthread_t *th, const pthread_attr_t *attr, void *(*start)(void *), void *arg) {
    sthread *t;
    int rc;
    resolve_real();
    if (!active || !self) return real_create(th, attr, start, arg);
    self->op = OP_CREATE;
    yield_op();
    if (nthreads >= MAX_THREADS) die(SCHED_MISUSE, "more than %d threads", MAX_THREADS);
    t = &threads[nthreads];
    memset(t, 0, sizeof *t);
    t->id = nthreads;
    t->state = T_READY;
    t->op = OP_START;
    t->start = start;
    t->arg = arg;
    sem_init(&t->go, 0, 0);
    nthreads++;
    rc = real_create(&t->handle, attr, trampoline, t);
    if (rc != 0) { nthreads--; return rc; }
    *th = t->handle;
    return 0;
}

int FN(pthread_join)(pthread_t th, void **ret) {
    int i;
    resolve_real();
    if (!active || !self) return real_join(th, ret);
    for (i = 0; i < nthreads; i++)
        if (threads[i].state != T_UNUSED && i != 0 && !threads[i].joined && pthread_equal(threads[i].handle, th)) break;
    if (i == nthreads) return real_join(th, ret);
    self->op = OP_JOIN;
    self->join_target = i;
    yield_op();
    threads[i].joined = 1;
    return real_join(th, ret);
}

int FN(pthread_mutex_init)(pthread_mutex_t *pm, const pthread_mutexattr_t *attr) {
    smutex *m = (smutex *)pm;
    resolve_real();
    if (!active) return real_mutex_init(pm, attr);
    memset(pm, 0, sizeof *pm);
    m->magic = MAGIC_MUTEX;
    m->id = next_mutex_id++;
    m->owner = -1;
    return 0;
}

int FN(pthread_mutex_destroy)(pthread_mutex_t *pm) {
    resolve_real();
    if (!active) return real_mutex_destroy(pm);
    {
        smutex *m = get_mutex(pm);
        if (m->owner >= 0) die(SCHED_MISUSE, "T%d destroys locked mutex m%d", sched_self(), m->id);
        m->magic = MAGIC_DEAD;
    }
    return 0;
}

int FN(pthread_mutex_lock)(pthread_mutex_t *pm) {
    resolve_real();
    if (!active || !self) return real_mutex_lock(pm);
    self->m = get_mutex(pm);
    self->op = OP_LOCK;
    return yield_op();
}

int FN(pthread_mutex_trylock)(pthread_mutex_t *pm) {
    resolve_real();
    if (!active || !self) return real_mutex_trylock(pm);
    self->m = get_mutex(pm);
    self->op = OP_TRYLOCK;
    return yield_op();
}

int FN(pthread_mutex_unlock)(pthread_mutex_t *pm) {
    resolve_real();
    if (!active || !self) return real_mutex_unlock(pm);
    self->m = get_mutex(pm);
    self->op = OP_UNLOCK;
    return yield_op();
}

int FN(pthread_cond_init)(pthread_cond_t *pc, const pthread_condattr_t *attr) {
    scond *c = (scond *)pc;
    resolve_real();
    if (!active) return real_cond_init(pc, attr);
    memset(pc, 0, sizeof *pc);
    c->magic = MAGIC_COND;
    c->id = next_cond_id++;
    return 0;
}

int FN(pthread_cond_destroy)(pthread_cond_t *pc) {
    resolve_real();
    if (!active) return real_cond_destroy(pc);
    {
        scond *c = get_cond(pc);
        if (parked_on(c, NULL) > 0) die(SCHED_MISUSE, "T%d destroys condition variable c%d with parked waiters", sched_self(), c->id);
        c->magic = MAGIC_DEAD;
    }
    return 0;
}

static int cond_wait_common(pthread_cond_t *pc, pthread_mutex_t *pm, int timed) {
    self->c = get_cond(pc);
    self->m = get_mutex(pm);
    self->timed = timed;
    self->op = OP_CWAIT;
    return yield_op();
}

int FN(pthread_cond_wait)(pthread_cond_t *pc, pthread_mutex_t *pm) {
    resolve_real();
    if (!active || !self) return real_cond_wait(pc, pm);
    return cond_wait_common(pc, pm, 0);
}

int FN(pthread_cond_timedwait)(pthread_cond_t *pc, pthread_mutex_t *pm, const struct timespec *ts) {
    resolve_real();
    if (!active || !self) return real_cond_timedwait(pc, pm, ts);
    return cond_wait_common(pc, pm, 1);
}

int FN(pthread_cond_signal)(pthread_cond_t *pc) {
    resolve_real();
    if (!active || !self) return real_cond_signal(pc);
    self->c = get_cond(pc);
    self->op = OP_SIGNAL;
    return yield_op();
}

int FN(pthread_cond_broadcast)(pthread_cond_t *pc) {
    resolve_real();
    if (!active || !self) return real_cond_broadcast(pc);
    self->c = get_cond(pc);
    self->op = OP_BROADCAST;
    return yield_op();
}

/* ------------------------------------------------------------------------------------------
 * LD_PRELOAD mode: configuration from the environment
 * ---------------------------------------------------------------------------------------- */
#ifdef SCHED_PRELOAD
static FILE *preload_trace;
static void preload_report(void) {
    const char *out = getenv("SCHED_OUT");
    FILE *f = out ? fopen(out, "w") : NULL;
    if (f) {
        fprintf(f, "verdict ok\nschedule %s\nsteps %d\n", sched_choices(), steps);
        fclose(f);
    }
}
static void preload_abort(int verdict, const char *msg) {
    const char *out = getenv("SCHED_OUT");
    FILE *f = out ? fopen(out, "w") : NULL;
    if (f) {
        fprintf(f, "verdict %s %s\nschedule %s\nsteps %d\n", sched_verdict_name(verdict), msg, sched_choices(), steps);
        fclose(f);
    }
}
__attribute__((constructor)) static void preload_init(void) {
    static sched_config c;
    const char *s;
    if (!getenv("SCHED_ENABLE")) return;
    c.schedule = getenv("SCHED_SCHEDULE");
    c.strict = (s = getenv("SCHED_STRICT")) ? atoi(s) : 0;
    s = getenv("SCHED_FALLBACK");
    c.fallback = !s ? SCHED_FB_FIRST : !strcmp(s, "random") ? SCHED_FB_RANDOM : !strcmp(s, "rr") ? SCHED_FB_RR : !strcmp(s, "stop") ? SCHED_FB_STOP : SCHED_FB_FIRST;
    c.seed = (s = getenv("SCHED_SEED")) ? strtoull(s, NULL, 0) : 1;
    c.spurious_weight = (s = getenv("SCHED_SPURIOUS_WEIGHT")) ? atoi(s) : 10;
    c.timeout_weight = (s = getenv("SCHED_TIMEOUT_WEIGHT")) ? atoi(s) : 30;
    c.max_steps = (s = getenv("SCHED_MAX_STEPS")) ? atoi(s) : 1000000;
    if ((s = getenv("SCHED_TRACE"))) c.trace = preload_trace = !strcmp(s, "-") ? stderr : fopen(s, "w");
    c.on_abort = preload_abort;
    sched_begin(&c);
    atexit(preload_report);
}
#endif
