/* demo.c — a producer/consumer with a classic lost wake-up (flag tested OUTSIDE the mutex).
 *   ./demo run "<schedule>"     one execution, verbose trace
 *   ./demo random <seed>        one execution with the seeded PRNG
 *   ./demo dfs [depth]          enumerate all schedules; prints the first deadlock
 */
#include <pthread.h>
#include <stdio.h>
#include <stdlib.h>
#include <string.h>
#include "detsched.h"

static pthread_mutex_t mu;
static pthread_cond_t cv;
static volatile int flag;
static int buggy = 1;

static void *consumer(void *p) {
    (void)p;
    if (buggy) {
        if (!flag) {                       /* BUG: test and wait are not atomic */
            pthread_mutex_lock(&mu);
            pthread_cond_wait(&cv, &mu);
            pthread_mutex_unlock(&mu);
        }
    } else {
        pthread_mutex_lock(&mu);
        while (!flag) pthread_cond_wait(&cv, &mu);
        pthread_mutex_unlock(&mu);
    }
    return (void *)1;
}

static void *producer(void *p) {
    (void)p;
    pthread_mutex_lock(&mu);
    flag = 1;
    pthread_cond_signal(&cv);
    pthread_mutex_unlock(&mu);
    return (void *)2;
}

static int scenario(void *arg) {
    pthread_t a, b;
    void *ra, *rb;
    (void)arg;
    flag = 0;
    pthread_mutex_init(&mu, NULL);
    pthread_cond_init(&cv, NULL);
    pthread_create(&a, NULL, consumer, NULL);
    pthread_create(&b, NULL, producer, NULL);
    pthread_join(a, &ra);
    pthread_join(b, &rb);
    sched_result("consumer=%ld producer=%ld", (long)ra, (long)rb);
    return 0;
}

struct stats { long ok, deadlock, other; int shown; };
static int visit(void *user, const sched_outcome *o) {
    struct stats *s = user;
    if (o->verdict == SCHED_OK) s->ok++;
    else if (o->verdict == SCHED_DEADLOCK) {
        s->deadlock++;
        if (!s->shown++) printf("first deadlock: schedule `%s` (%s)\n", o->schedule, o->detail);
    } else { s->other++; printf("%s: `%s` %s\n", sched_verdict_name(o->verdict), o->schedule, o->detail); }
    return 0;
}

int main(int argc, char **argv) {
    sched_config c;
    memset(&c, 0, sizeof c);
    c.trace = stdout;
    c.max_steps = 1000;
    if (argc >= 2 && !strcmp(argv[argc - 1], "fixed")) { buggy = 0; argc--; }
    if (argc >= 2 && !strcmp(argv[1], "dfs")) {
        sched_explore_opts o;
        struct stats s = {0, 0, 0, 0};
        int exhausted;
        long runs;
        memset(&o, 0, sizeof o);
        o.depth = argc >= 3 ? atoi(argv[2]) : 30;
        o.max_spurious = 1; o.max_timeouts = -1; o.independence = 1;
        runs = sched_explore(scenario, NULL, &o, visit, &s, &exhausted);
        printf("runs=%ld ok=%ld deadlock=%ld other=%ld exhausted=%d\n", runs, s.ok, s.deadlock, s.other, exhausted);
        return 0;
    }
    if (argc >= 3 && !strcmp(argv[1], "run")) { c.schedule = argv[2]; c.strict = 0; c.fallback = SCHED_FB_FIRST; }
    else if (argc >= 3 && !strcmp(argv[1], "random")) { c.fallback = SCHED_FB_RANDOM; c.seed = strtoull(argv[2], NULL, 0); }
    else { fprintf(stderr, "usage: demo run <schedule> | random <seed> | dfs [depth] [fixed]\n"); return 2; }
    sched_begin(&c);
    scenario(NULL);
    sched_end();
    printf("result: %s\nschedule: %s\n", sched_result_text(), sched_choices());
    return 0;
}
