/* sched_explore.c — forked single runs and stateless DFS over schedules with sleep sets.
 * See detsched.h / README.md.  The parent process never runs application threads itself. */
#define _GNU_SOURCE
#include <errno.h>
#include <poll.h>
#include <signal.h>
#include <stdio.h>
#include <stdlib.h>
#include <string.h>
#include <sys/wait.h>
#include <unistd.h>
#include "detsched.h"
#include "detsched_internal.h"

#ifdef SCHED_GCOV                       /* --coverage builds: _exit skips the atexit flush of the counters */
extern void __gcov_dump(void);
#define SCHED_GCOV_DUMP() __gcov_dump()
#else
#define SCHED_GCOV_DUMP() ((void)0)
#endif

typedef struct xchoice { char tok[16]; char a[24]; char b[24]; } xchoice;

typedef struct xstep {
    char tok[16];
    xchoice *en; int nen;
    char (*sleep)[16]; int nsleep;
} xstep;

typedef struct xrun {
    xstep *steps; int nsteps;
    sched_outcome out;
} xrun;

static char *xstrdup(const char *s) { return strdup(s ? s : ""); }

void sched_outcome_free(sched_outcome *o) {
    free(o->schedule); free(o->result); free(o->detail); free(o->stderr_text);
    memset(o, 0, sizeof *o);
}

static void xrun_free(xrun *r) {
    int i;
    for (i = 0; i < r->nsteps; i++) { free(r->steps[i].en); free(r->steps[i].sleep); }
    free(r->steps);
    sched_outcome_free(&r->out);
}

static void parse_step(xrun *r, char *line) {
    /* "S tok desc | e:a:b ... | z ..." */
    xstep st;
    char *bar1 = strchr(line, '|'), *bar2 = bar1 ? strchr(bar1 + 1, '|') : NULL, *p, *save;
    memset(&st, 0, sizeof st);
    if (!bar1 || !bar2) return;
    *bar1 = 0; *bar2 = 0;
    p = strtok_r(line + 2, " ", &save);
    if (!p) return;
    snprintf(st.tok, sizeof st.tok, "%s", p);
    for (p = strtok_r(bar1 + 1, " \n", &save); p; p = strtok_r(NULL, " \n", &save)) {
        xchoice c;
        char *c1 = strchr(p, ':'), *c2 = c1 ? strchr(c1 + 1, ':') : NULL;
        if (!c1 || !c2) continue;
        *c1 = 0; *c2 = 0;
        snprintf(c.tok, sizeof c.tok, "%s", p);
        snprintf(c.a, sizeof c.a, "%s", strcmp(c1 + 1, "-") ? c1 + 1 : "");
        snprintf(c.b, sizeof c.b, "%s", strcmp(c2 + 1, "-") ? c2 + 1 : "");
        st.en = realloc(st.en, (st.nen + 1) * sizeof(xchoice));
        st.en[st.nen++] = c;
    }
    for (p = strtok_r(bar2 + 1, " \n", &save); p; p = strtok_r(NULL, " \n", &save)) {
        st.sleep = realloc(st.sleep, (st.nsleep + 1) * 16);
        snprintf(st.sleep[st.nsleep++], 16, "%s", p);
    }
    r->steps = realloc(r->steps, (r->nsteps + 1) * sizeof(xstep));
    r->steps[r->nsteps++] = st;
}

static void run_child(sched_run_fn run, void *arg, const sched_config *cfg, sched_explore_cfg xc,
                      int watchdog_s, xrun *r) {
    int rp[2], ep[2], status = 0;
    pid_t pid;
    char *rbuf = NULL, ebuf[4096];
    size_t rlen = 0, rcap = 0, elen = 0;
    int saw_verdict = 0;
    memset(r, 0, sizeof *r);
    fflush(NULL);
    if (pipe(rp) || pipe(ep)) { perror("pipe"); exit(2); }
    pid = fork();
    if (pid < 0) { perror("fork"); exit(2); }
    if (pid == 0) {
        sched_config c = *cfg;
        close(rp[0]); close(ep[0]);
        dup2(ep[1], 2);
        close(ep[1]);
        c.trace = NULL;
        xc.report_fd = rp[1];
        sched__set_explore(&xc);
        alarm(watchdog_s > 0 ? watchdog_s : 20);
        sched_begin(&c);
        run(arg);
        sched_end();
        fflush(NULL);
        SCHED_GCOV_DUMP();
        _exit(0);
    }
    close(rp[1]); close(ep[1]);
    {
        struct pollfd fds[2];
        int open_fds = 2;
        fds[0].fd = rp[0]; fds[0].events = POLLIN;
        fds[1].fd = ep[0]; fds[1].events = POLLIN;
        while (open_fds > 0) {
            int k;
            if (poll(fds, 2, -1) < 0) { if (errno == EINTR) continue; break; }
            for (k = 0; k < 2; k++) {
                char tmp[4096];
                ssize_t n;
                if (fds[k].fd < 0 || !(fds[k].revents & (POLLIN | POLLHUP | POLLERR))) continue;
                n = read(fds[k].fd, tmp, sizeof tmp);
                if (n <= 0) { close(fds[k].fd); fds[k].fd = -1; open_fds--; continue; }
                if (k == 0) {
                    if (rlen + n + 1 > rcap) { rcap = (rlen + n + 1) * 2; rbuf = realloc(rbuf, rcap); }
                    memcpy(rbuf + rlen, tmp, n); rlen += n; rbuf[rlen] = 0;
                } else if (elen < sizeof ebuf - 1) {
                    size_t m = (size_t)n < sizeof ebuf - 1 - elen ? (size_t)n : sizeof ebuf - 1 - elen;
                    memcpy(ebuf + elen, tmp, m); elen += m;
                }
            }
        }
    }
    ebuf[elen] = 0;
    while (waitpid(pid, &status, 0) < 0 && errno == EINTR) {}
    r->out.exit_status = status;
    r->out.stderr_text = xstrdup(ebuf);
    {
        /* parse the report */
        char *line = rbuf, *nl;
        size_t slen = 0, scap = 0;
        char *sched = NULL;
        while (line && *line) {
            nl = strchr(line, '\n');
            if (nl) *nl = 0;
            if (line[0] == 'S' && line[1] == ' ') {
                parse_step(r, line);
                if (r->nsteps) {
                    const char *tok = r->steps[r->nsteps - 1].tok;
                    size_t n = strlen(tok);
                    if (slen + n + 2 > scap) { scap = (slen + n + 2) * 2; sched = realloc(sched, scap); }
                    if (slen) sched[slen++] = ' ';
                    memcpy(sched + slen, tok, n + 1); slen += n;
                }
            } else if (line[0] == 'R' && line[1] == ' ') {
                free(r->out.result);
                r->out.result = xstrdup(line + 2);
            } else if (line[0] == 'V' && line[1] == ' ') {
                char *sp = strchr(line + 2, ' ');
                int v;
                if (sp) *sp = 0;
                for (v = 0; v <= SCHED_CRASH; v++) if (!strcmp(sched_verdict_name(v), line + 2)) r->out.verdict = v;
                r->out.detail = xstrdup(sp ? sp + 1 : "");
                saw_verdict = 1;
            }
            line = nl ? nl + 1 : NULL;
        }
        r->out.schedule = sched ? sched : xstrdup("");
    }
    free(rbuf);
    r->out.steps = r->nsteps;
    if (!r->out.result) r->out.result = xstrdup("");
    if (!saw_verdict || !WIFEXITED(status) || WEXITSTATUS(status) != 0) {
        char d[128];
        r->out.verdict = SCHED_CRASH;
        free(r->out.detail);
        if (WIFSIGNALED(status)) snprintf(d, sizeof d, "signal %d", WTERMSIG(status));
        else snprintf(d, sizeof d, "exit %d", WEXITSTATUS(status));
        r->out.detail = xstrdup(d);
    }
    if (!r->out.detail) r->out.detail = xstrdup("");
}

int sched_run_forked(sched_run_fn run, void *arg, const sched_config *cfg, sched_outcome *out) {
    sched_explore_cfg xc = { -1, 0, NULL, 0, 0, -1, 0 };
    xrun r;
    run_child(run, arg, cfg, xc, 20, &r);
    *out = r.out;
    memset(&r.out, 0, sizeof r.out);
    xrun_free(&r);
    return out->verdict;
}

/* ------------------------------------------------------------------------------------------ */

typedef struct frame {
    xchoice *en; int nen;
    char (*sleep)[16]; int nsleep;
    char (*explored)[16]; int nexplored;
    char chosen[16];
} frame;

static char tok_kind(const char *tok) {
    size_t n = strlen(tok);
    return n && (tok[n - 1] == 's' || tok[n - 1] == 't') ? tok[n - 1] : 'r';
}

static const xchoice *find_choice(const frame *f, const char *tok) {
    int i;
    for (i = 0; i < f->nen; i++) if (!strcmp(f->en[i].tok, tok)) return &f->en[i];
    return NULL;
}

static int x_independent(int level, const xchoice *x, const xchoice *y) {
    int xw = tok_kind(x->tok) != 'r', yw = tok_kind(y->tok) != 'r';
    if (level <= 0) return 0;
    if (atoi(x->tok) == atoi(y->tok)) return 0;
    if (xw && yw) return 1;
    if (level == 1 && !xw && !yw) return 0;
    if (x->a[0] && (!strcmp(x->a, y->a) || !strcmp(x->a, y->b))) return 0;
    if (x->b[0] && (!strcmp(x->b, y->a) || !strcmp(x->b, y->b))) return 0;
    return 1;
}

static int in_list(char (*l)[16], int n, const char *tok) {
    int i;
    for (i = 0; i < n; i++) if (!strcmp(l[i], tok)) return 1;
    return 0;
}

static void frame_free(frame *f) { free(f->en); free(f->sleep); free(f->explored); memset(f, 0, sizeof *f); }

long sched_explore(sched_run_fn run, void *arg, const sched_explore_opts *o,
                   sched_visit_fn visit, void *user, int *exhausted) {
    frame *frames = NULL;
    int nframes = 0, capframes = 0, stop = 0, i;
    long runs = 0;
    char *prefix = xstrdup(""), *sleep = xstrdup("");
    int prefix_len = 0;
    sched_config cfg;
    sched_explore_cfg xc;
    int depth = o->depth > 0 ? o->depth : 40;
    memset(&cfg, 0, sizeof cfg);
    cfg.strict = 1;
    cfg.fallback = SCHED_FB_FIRST;
    cfg.max_steps = o->max_steps > 0 ? o->max_steps : 2000;
    cfg.on_abort = o->on_abort;
    xc.report_fd = -1;
    xc.exploring = 1;
    xc.depth = depth;
    xc.max_spurious = o->max_spurious;
    xc.max_timeouts = o->max_timeouts;
    xc.independence = o->independence;
    if (exhausted) *exhausted = 0;
    for (;;) {
        xrun r;
        cfg.schedule = prefix;
        xc.sleep = sleep;
        run_child(run, arg, &cfg, xc, o->watchdog_s, &r);
        runs++;
        /* frames for the steps beyond the prefix */
        for (i = prefix_len; i < r.nsteps && i < depth; i++) {
            frame *f;
            if (nframes == capframes) { capframes = capframes * 2 + 16; frames = realloc(frames, capframes * sizeof(frame)); }
            f = &frames[nframes++];
            memset(f, 0, sizeof *f);
            f->en = r.steps[i].en; f->nen = r.steps[i].nen; r.steps[i].en = NULL;
            f->sleep = r.steps[i].sleep; f->nsleep = r.steps[i].nsleep; r.steps[i].sleep = NULL;
            f->explored = malloc(16); f->nexplored = 1;
            snprintf(f->explored[0], 16, "%s", r.steps[i].tok);
            snprintf(f->chosen, 16, "%s", r.steps[i].tok);
        }
        if (r.out.verdict != SCHED_SLEEP_BLOCKED && visit) stop = visit(user, &r.out);
        xrun_free(&r);
        if (stop || (o->max_runs > 0 && runs >= o->max_runs)) break;
        /* backtrack */
        for (;;) {
            frame *f;
            const xchoice *cand = NULL;
            int ns = 0, nt = 0;
            if (nframes == 0) break;
            f = &frames[nframes - 1];
            for (i = 0; i < nframes - 1; i++) { char k = tok_kind(frames[i].chosen); if (k == 's') ns++; else if (k == 't') nt++; }
            for (i = 0; i < f->nen; i++) {
                char k = tok_kind(f->en[i].tok);
                if (k == 's' && ns >= o->max_spurious) continue;
                if (k == 't' && o->max_timeouts >= 0 && nt >= o->max_timeouts) continue;
                if (in_list(f->sleep, f->nsleep, f->en[i].tok)) continue;
                if (in_list(f->explored, f->nexplored, f->en[i].tok)) continue;
                cand = &f->en[i];
                break;
            }
            if (!cand) { frame_free(f); nframes--; continue; }
            {
                /* new prefix and the sleep set valid after it */
                size_t plen = 0, pcap = 16 * (size_t)(nframes + 1), zlen = 0, zcap = 16 * (size_t)(f->nsleep + f->nexplored + 1);
                free(prefix); free(sleep);
                prefix = malloc(pcap); prefix[0] = 0;
                sleep = malloc(zcap); sleep[0] = 0;
                for (i = 0; i < nframes - 1; i++) plen += snprintf(prefix + plen, pcap - plen, "%s%s", plen ? " " : "", frames[i].chosen);
                plen += snprintf(prefix + plen, pcap - plen, "%s%s", plen ? " " : "", cand->tok);
                for (i = 0; i < f->nsleep + f->nexplored; i++) {
                    const char *z = i < f->nsleep ? f->sleep[i] : f->explored[i - f->nsleep];
                    const xchoice *zc = find_choice(f, z);
                    if (zc && x_independent(o->independence, zc, cand))
                        zlen += snprintf(sleep + zlen, zcap - zlen, "%s%s", zlen ? " " : "", z);
                }
                f->explored = realloc(f->explored, (f->nexplored + 1) * 16);
                snprintf(f->explored[f->nexplored++], 16, "%s", cand->tok);
                snprintf(f->chosen, 16, "%s", cand->tok);
                prefix_len = nframes;
            }
            break;
        }
        if (nframes == 0) { if (exhausted) *exhausted = 1; break; }
    }
    for (i = 0; i < nframes; i++) frame_free(&frames[i]);
    free(frames); free(prefix); free(sleep);
    return runs;
}
