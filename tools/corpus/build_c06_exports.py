#!/usr/bin/env python3
"""Writes tools/corpus/C06/exports-mixed-kinds-*.json (committed output): modules whose export section mixes memory / global / table
exports BEFORE, BETWEEN and AFTER the function exports — `[memory, first, second, third]` is the order clang / wasm-ld emit.  The name
table `<module>FuncExports` (instance.common.funcExports, what the WASI runtime searches for `wasi_thread_start`) must list every function
export, in export order, once, followed by the {NULL, NULL} row; the harness reads the table and calls every other export through it."""
import json
import os
import sys
HERE = os.path.dirname(os.path.abspath(__file__))
sys.path[:0] = [os.path.join(HERE, ".."), os.path.join(HERE, "..", "wasmgen")]
from wasmgen import wasm_ast as A          # noqa: E402
from wasmgen.encode import encode          # noqa: E402

I = A.Instr


def build(order):
    """order: list of 'f:<name>' | 'r:<name>' (function 0 again) | 'm:<name>' | 'g:<name>' | 't:<name>'"""
    m = A.Module()
    m.types = [A.FuncType([], [A.I32]), A.FuncType([A.I32], [A.I32])]
    m.mems = [A.Limits(1, 2)]
    m.tables = [A.TableType(A.Limits(4, 4))]
    m.globals = [A.Global(A.GlobalType(A.I32, True), I("i32.const", 40)), A.Global(A.GlobalType(A.I64, False), I("i64.const", 7))]
    m.datas = [A.DataSegment("active", b"exports", I("i32.const", 32), 0)]
    calls = []
    nf = 0
    for item in order:
        kind, name = item.split(":")
        if kind == "f":
            if nf % 2 == 0:
                m.funcs.append(A.Function(0, [], [I("global.get", 0), I("i32.const", 1 + nf), I("i32.add"), I("global.set", 0), I("global.get", 0)]))
                calls.append((name.encode(), []))
            else:
                m.funcs.append(A.Function(1, [], [I("local.get", 0), I("i32.load8_u", 0, 32), I("i32.const", 100 * nf), I("i32.add")]))
                calls.append((name.encode(), [("i32", nf % 7)]))
            m.exports.append(A.Export(name.encode(), "func", nf))
            nf += 1
        elif kind == "r":                 # function 0 once more, under another name
            m.exports.append(A.Export(name.encode(), "func", 0))
            calls.append((name.encode(), []))
        elif kind == "m":
            m.exports.append(A.Export(name.encode(), "memory", 0))
        elif kind == "g":
            m.exports.append(A.Export(name.encode(), "global", len([e for e in m.exports if e.kind == "global"]) % 2))
        else:
            m.exports.append(A.Export(name.encode(), "table", 0))
    m.elems = [A.ElemSegment(0, I("i32.const", 0), list(range(min(nf, 4))))]
    return m, calls + calls


def main():
    out = os.path.join(HERE, "C06")
    for fn, note, order in (
            ("exports-mixed-kinds-memory-first.json", "exports [memory, first, second, third, wasi_thread_start] (the order clang/wasm-ld emit): all four "
             "function exports are rows of <module>FuncExports", ["m:memory", "f:first", "f:second", "f:third", "f:wasi_thread_start"]),
            ("exports-mixed-kinds-between.json", "memory / global / table exports before, between and after the function exports; a function exported "
             "twice under two names", ["g:g_before", "f:a", "m:mem", "f:b", "g:g_mid", "t:tab", "f:c", "f:d", "m:mem2", "f:e", "g:g_after", "r:a_again", "t:tab2"]),
            ("exports-mixed-kinds-functions-last.json", "every non-function export first, then the functions",
             ["m:m", "g:g0", "g:g1", "t:t", "f:x", "f:y", "f:z"])):
        m, calls = build(order)
        s = dict(note=note, hex=encode(m).hex(), imports_spec={"globals": {}}, calls=[[n.hex(), [[t, b] for t, b in a]] for n, a in calls])
        with open(os.path.join(out, fn), "w") as f:
            json.dump(s, f, indent=1)
            f.write("\n")


if __name__ == "__main__":
    main()
