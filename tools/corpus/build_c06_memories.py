#!/usr/bin/env python3
"""Writes tools/corpus/C06/memories-*.json (committed output): modules with MORE than one memory (w2c2 supports several memories in
the module structure: imported + defined, defined + defined; code addresses memory 0 only) whose memories are exported — under several
names, in an order different from the index order.  Every `<module>_<name>` memory accessor must return the instance's memory of the
EXPORT's index (pages, bytes incl. its data segments).  This V8 accepts one memory per module: the reference run uses the module
without its other memories (ec.single_memory_variant); the other memories are judged against the independent statement
ec.expected_memory_k."""
import json
import os
import sys
HERE = os.path.dirname(os.path.abspath(__file__))
sys.path[:0] = [os.path.join(HERE, ".."), os.path.join(HERE, "..", "wasmgen")]
from wasmgen import wasm_ast as A          # noqa: E402
from wasmgen.encode import encode          # noqa: E402

I = A.Instr


def base():
    m = A.Module()
    m.types = [A.FuncType([A.I32], [A.I32]), A.FuncType([], [A.I32])]
    m.funcs = [A.Function(0, [], [I("local.get", 0), I("i32.load8_u", 0, 0)]),
               A.Function(0, [], [I("local.get", 0), I("i32.const", 0xC3), I("i32.store8", 0, 0), I("local.get", 0), I("i32.load8_u", 0, 0)]),
               A.Function(1, [], [I("memory.size")])]
    m.exports = [A.Export(b"ld", "func", 0), A.Export(b"st", "func", 1), A.Export(b"size", "func", 2)]
    calls = [(b"size", []), (b"ld", [("i32", 3)]), (b"ld", [("i32", 5)]), (b"st", [("i32", 9)]), (b"ld", [("i32", 9)]), (b"ld", [("i32", 65535)])]
    return m, calls


def main():
    out = os.path.join(HERE, "C06")
    mods = []
    # 1. two defined memories, the second exported FIRST
    m, calls = base()
    m.mems = [A.Limits(1, 1), A.Limits(2, 3)]
    m.datas = [A.DataSegment("active", b"second memory", I("i32.const", 5), 1, enc_flag=2), A.DataSegment("active", b"first", I("i32.const", 3), 0)]
    m.exports = [A.Export(b"b", "memory", 1)] + m.exports + [A.Export(b"a", "memory", 0), A.Export(b"b_again", "memory", 1)]
    mods.append(("memories-two-defined.json", "(memory $a 1 1) (memory $b 2 3), data segments in both, exports b, a, b_again (b first): <module>_b returns "
                 "memory 1 (2 pages, 'second memory' at 5), <module>_a memory 0", m, {"globals": {}}, calls))
    # 2. imported memory 0 (pre-filled by the embedder) + the module's own memory 1, own exported before the import's re-export
    m, calls = base()
    m.imports = [A.Import(b"env", b"shared", "memory", A.Limits(1, 2))]
    m.mems = [A.Limits(3, 3)]
    m.datas = [A.DataSegment("active", b"own", I("i32.const", 65536 + 7), 1, enc_flag=2), A.DataSegment("active", b"imp", I("i32.const", 3), 0)]
    m.exports = [A.Export(b"own", "memory", 1), A.Export(b"shared", "memory", 0)] + m.exports + [A.Export(b"own2", "memory", 1)]
    mods.append(("memories-imported-and-own.json", "(import \"env\" \"shared\" (memory 1 2)) (memory $own 3 3): <module>_own / <module>_own2 return the "
                 "instance's own memory (3 pages, 'own' at 65543), <module>_shared the embedder's", m,
                 {"globals": {}, "mem_fill": {"0": [[20, "0102030405"]]}}, calls))
    # 3. three memories, exports in reverse index order
    m, calls = base()
    m.mems = [A.Limits(1, 2), A.Limits(0, 1), A.Limits(2, 2)]
    m.datas = [A.DataSegment("active", b"two", I("i32.const", 70000), 2, enc_flag=2), A.DataSegment("active", b"", I("i32.const", 0), 1, enc_flag=2),
               A.DataSegment("active", b"zero", I("i32.const", 3), 0)]
    m.exports = [A.Export(b"m2", "memory", 2), A.Export(b"m1", "memory", 1), A.Export(b"m0", "memory", 0)] + m.exports
    mods.append(("memories-three-reverse-exports.json", "three defined memories (the second with 0 pages), exported as m2, m1, m0", m, {"globals": {}}, calls))
    # 4.-6. NewChild families (child, grandchild) over modules with several memories of which some are SHARED: a child's shared defined
    # memory is the parent's memory of the SAME module index (`i->m1 = parent->m1`), its unshared ones are fresh, the imported memory is
    # the embedder's — and the data segments of memory k, applied again by the child, land in memory k
    m, calls = base()
    m.imports = [A.Import(b"env", b"mem", "memory", A.Limits(1, 2))]
    m.mems = [A.Limits(1, 1, shared=True)]
    m.datas = [A.DataSegment("active", b"OWN!", I("i32.const", 16), 1, enc_flag=2), A.DataSegment("active", b"imp", I("i32.const", 3), 0)]
    m.exports = [A.Export(b"own", "memory", 1), A.Export(b"mem", "memory", 0)] + m.exports
    mods.append(("memories-imported-and-own-shared.json", "(import \"env\" \"mem\" (memory 1 2)) pre-filled with 'HOST' at 16, (memory $own 1 1 shared) "
                 "with 'OWN!' at 16: a NewChild child's own memory is the parent's own memory (not the imported one), the imported memory keeps "
                 "'HOST'", m, {"globals": {}, "mem_fill": {"0": [[16, "484f5354"]]}}, calls))
    m, calls = base()
    m.mems = [A.Limits(1, 2, shared=True), A.Limits(2, 2, shared=True), A.Limits(1, 1)]
    m.datas = [A.DataSegment("active", b"second shared", I("i32.const", 65536 + 5), 1, enc_flag=2), A.DataSegment("active", b"third", I("i32.const", 9), 2, enc_flag=2),
               A.DataSegment("active", b"first", I("i32.const", 3), 0)]
    m.exports = [A.Export(b"c", "memory", 2), A.Export(b"b", "memory", 1)] + m.exports + [A.Export(b"a", "memory", 0)]
    mods.append(("memories-two-shared-one-private.json", "two defined SHARED memories and a private one: a child shares memories 0 and 1 with its "
                 "parent (each with the parent's memory of the same index) and gets a fresh memory 2", m, {"globals": {}}, calls))
    m, calls = base()
    m.imports = [A.Import(b"env", b"mem", "memory", A.Limits(1, 2, shared=True))]
    m.mems = [A.Limits(2, 3, shared=True)]
    m.datas = [A.DataSegment("active", b"OWN!", I("i32.const", 70000), 1, enc_flag=2)]
    m.exports = [A.Export(b"own", "memory", 1)] + m.exports + [A.Export(b"mem", "memory", 0)]
    mods.append(("memories-imported-shared-and-own-shared.json", "an imported SHARED memory and a defined shared memory (no data segment in memory 0: "
                 "NewChild must leave the imported memory as it is)", m, {"globals": {}, "mem_fill": {"0": [[16, "484f5354"]]}}, calls))
    for fn, note, m, imp, calls in mods:
        s = dict(note=note, hex=encode(m).hex(), imports_spec=imp, calls=[[n.hex(), [[t, b] for t, b in a]] for n, a in calls])
        with open(os.path.join(out, fn), "w") as f:
            json.dump(s, f, indent=1)
            f.write("\n")


if __name__ == "__main__":
    main()
