#!/usr/bin/env python3
"""Writes tools/corpus/C03/dead-code-polymorphic.json: the SYSTEMATIC part of tools/harness/dead_code.py (every terminator
`unreachable` / `br` / `br_table` / `return` x every dead snippet — arithmetic popping from the polymorphic stack, block /
loop / if constructs with and without results inside dead code, br_if / br_table to outer labels, calls, local.set/tee,
global.set, memory ops, select — at nesting depth 0..2, result types i32/i64/f32/f64) as ONE module whose functions are
called with 0 (the arm holding the dead region is skipped) and 1 (it is entered: trap / branch / return).  Found missing by
seeded change C10/6 (the end of a loop inside dead code switched emission on again).  e2e: real w2c2 -> gcc -> run vs V8.
Committed output; rerun when the family changes."""
import json
import os
import sys
HERE = os.path.dirname(os.path.abspath(__file__))
sys.path[:0] = [os.path.join(HERE, ".."), os.path.join(HERE, "..", "harness")]
import dead_code as dc
from wasmgen import encode


def main():
    m = dc.base_module()
    calls = []
    fam = dc.systematic()
    fam = [f for k, f in enumerate(fam) if f[0].startswith("i32_") and f[0].endswith("_d0") or k % 4 == 0]     # keeps the e2e job small
    for name, t, body in fam:
        dc.add_function(m, name, t, body)
        for a in (0, 1):
            calls.append([name.encode().hex(), [["i32", a]]])
    spec = {"note": "directed (seeded C10/6): unreachable code that is valid only on a polymorphic stack, incl. block/loop/if inside dead code followed by "
                    "instructions popping operands; functions called with 0 (skip) and 1 (enter the arm: trap / br / return)",
            "hex": encode(m).hex(), "imports_spec": {"globals": {}}, "calls": calls}
    out = os.path.join(HERE, "C03", "dead-code-polymorphic.json")
    json.dump(spec, open(out, "w"), indent=1)
    print(out, len(m.funcs) - 2, "functions", len(calls), "calls")


main()
