#!/usr/bin/env python3
"""Writes tools/corpus/C05/limits-*.json: memory.grow / memory.size histories on memories with corner-case limits — declared
maximum 0, maximum = minimum, maximum 1 above, no maximum, maximum 65536 — through real w2c2 -> gcc vs V8 (grow must return -1 and
change nothing when the declared maximum would be exceeded).  Committed output."""
import json, os, sys
HERE = os.path.dirname(os.path.abspath(__file__))
sys.path[:0] = [os.path.join(HERE, ".."), os.path.join(HERE, "..", "wasmgen")]
from wasmgen.wasm_ast import Module, FuncType, Function, Instr, Limits, Export, I32
from wasmgen.encode import encode


def build(mn, mx):
    m = Module()
    m.mems.append(Limits(mn, mx))
    m.types = [FuncType([I32], [I32]), FuncType([], [I32])]
    m.funcs = [Function(0, [], [Instr('local.get', 0), Instr('memory.grow')]),
               Function(1, [], [Instr('memory.size')]),
               Function(0, [], [Instr('local.get', 0), Instr('i32.const', 0x5A), Instr('i32.store8', 0, 0), Instr('local.get', 0), Instr('i32.load8_u', 0, 0)])]
    m.exports = [Export(b"grow", 'func', 0), Export(b"size", 'func', 1), Export(b"poke", 'func', 2)]
    calls = []
    def c(name, *args):
        calls.append([name.encode().hex(), [["i32", a & 0xFFFFFFFF] for a in args]])
    c("size"); c("grow", 0); c("grow", 1); c("size"); c("grow", 1); c("size"); c("grow", 0xFFFFFFFF); c("grow", 65536); c("size"); c("grow", 0); c("size")
    return {"note": "directed: memory limits min=%d max=%r: grow / size history" % (mn, mx), "hex": encode(m).hex(), "imports_spec": {"globals": {}}, "calls": calls}


for mn, mx in ((0, 0), (1, 1), (0, 1), (1, 2), (0, None), (2, 65536), (1, 65535)):
    out = os.path.join(HERE, "C05", "limits-min%d-max%s.json" % (mn, "none" if mx is None else mx))
    json.dump(build(mn, mx), open(out, "w"), indent=1)
    print(out)
