#!/usr/bin/env python3
"""Writes tools/corpus/C16/all-atomics.json: one module exercising EVERY atomic access instruction (7 loads, 7 stores,
42 read-modify-writes, 7 compare-exchanges) through the whole pipeline (real w2c2 -> gcc -> run, against V8).  Per
instruction two exported functions: both first put a fixed 64-bit pattern into the cell with a plain i64.store, run the
atomic instruction on it; `o<k>` returns what the instruction returned (old value), `n<k>` returns the whole 64-bit cell
afterwards (i64.load).  Operands are chosen so that add/sub/and/or/xor/xchg all give different results and so that
compare-exchange both matches and fails.  Committed output; rerun only when the format changes."""
import json, os, sys
HERE = os.path.dirname(os.path.abspath(__file__))
sys.path[:0] = [os.path.join(HERE, ".."), os.path.join(HERE, "..", "wasmgen")]
from wasmgen.wasm_ast import Module, FuncType, Function, Instr, Limits, Export, OPS, natural_align, I32, I64
from wasmgen.encode import encode

PATTERN = 0xF0E1D2C3B4A59687
CELL = 64
TN = {I32: 'i32', I64: 'i64'}


def main(imported=False):
    m = Module()
    if imported:
        from wasmgen.wasm_ast import Import
        m.imports.append(Import(b"env", b"memory", "memory", Limits(1, 2, shared=True)))
    else:
        m.mems.append(Limits(1, 2, shared=True))
    tix = {}

    def ty(params, results):
        k = (tuple(params), tuple(results))
        if k not in tix:
            tix[k] = len(m.types)
            m.types.append(FuncType(params, results))
        return tix[k]
    calls = []
    ops = [o for o in OPS if OPS[o].prefix == 0xFE and ('.atomic.load' in o or '.atomic.store' in o or '.atomic.rmw' in o)]
    assert len(ops) == 63, len(ops)
    init = [Instr('i32.const', CELL), Instr('i64.const', PATTERN), Instr('i64.store', 3, 0)]
    after = [Instr('i32.const', CELL), Instr('i64.load', 3, 0)]
    for k, op in enumerate(ops):
        info = OPS[op]
        t = info.results[0] if info.results else info.params[-1]
        ma = (natural_align(op), 0)
        vparams = list(info.params[1:])
        args = [Instr('local.get', i) for i in range(len(vparams))]
        core = [Instr('i32.const', CELL)] + args + [Instr(op, *ma)]
        # old value
        if info.results:
            m.funcs.append(Function(ty(vparams, [t]), [], init + core))
        else:
            m.funcs.append(Function(ty(vparams, [I64]), [], init + core + after))
        m.exports.append(Export(("o%d" % k).encode(), 'func', len(m.funcs) - 1))
        m.funcs.append(Function(ty(vparams, [I64]), [], init + core + ([Instr('drop')] if info.results else []) + after))
        m.exports.append(Export(("n%d" % k).encode(), 'func', len(m.funcs) - 1))
        w = info.width
        cellv = PATTERN & ((1 << (8 * w)) - 1)
        bits = 32 if t == I32 else 64
        mask = (1 << bits) - 1
        operands = [0x0FF00FF0A5A5C3C3 & mask, 0xFFFFFFFFFFFFFFFF & mask, 1]
        if 'cmpxchg' in op:
            sets = [[cellv, 0x1122334455667788 & mask], [cellv ^ 1, 0x1122334455667788 & mask],
                    [(cellv | (1 << (8 * w))) & mask if 8 * w < bits else cellv, 0xA1B2C3D4E5F60718 & mask]]
        elif vparams:
            sets = [[v] for v in operands]
        else:
            sets = [[]]
        for nm in ("o%d" % k, "n%d" % k):
            for s in sets:
                calls.append([nm.encode().hex(), [[TN[t], v] for v in s]])
    spec = {"note": "directed: every atomic load/store/rmw/cmpxchg instruction (63), old value and resulting cell, through real w2c2 -> gcc vs V8; ops in order: " + " ".join(ops),
            "hex": encode(m).hex(), "imports_spec": {'globals': {}}, "calls": calls}
    if imported:
        spec["note"] = "same as all-atomics.json, but the shared memory is IMPORTED (wasi-threads layout): " + spec["note"]
    out = os.path.join(HERE, "C16", "all-atomics-imported-memory.json" if imported else "all-atomics.json")
    json.dump(spec, open(out, "w"), indent=1)
    print(out, len(ops), "ops", len(calls), "calls")


main()
main(imported=True)
