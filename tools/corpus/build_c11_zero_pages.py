#!/usr/bin/env python3
"""Writes tools/corpus/C11/memory-zero-pages.json (+ C05 copy): a memory with 0 initial pages — zero-length memory.fill / memory.copy /
memory.init at address 0, an empty active data segment, size/grow, then the same after growing by one page.  Zero-length bulk
operations at an in-bounds address (0 <= 0 = size) do not trap; the C that implements them must not hand a null pointer to
memset / memmove / memcpy (seeded change C11/12: wasmMemoryAllocate leaves `data` NULL for 0 pages).  Committed output."""
import json, os, sys
HERE = os.path.dirname(os.path.abspath(__file__))
sys.path[:0] = [os.path.join(HERE, ".."), os.path.join(HERE, "..", "wasmgen")]
from wasmgen.wasm_ast import Module, FuncType, Function, Instr, Limits, Export, DataSegment, I32
from wasmgen.encode import encode


def build(mx):
    m = Module()
    m.mems.append(Limits(0, mx))
    m.types = [FuncType([I32, I32, I32], []), FuncType([I32], [I32]), FuncType([], [I32])]
    g = lambda i: Instr('local.get', i)
    m.funcs = [Function(0, [], [g(0), g(1), g(2), Instr('memory.fill')]),
               Function(0, [], [g(0), g(1), g(2), Instr('memory.copy')]),
               Function(0, [], [g(0), g(1), g(2), Instr('memory.init', 1)]),
               Function(1, [], [g(0), Instr('memory.grow')]),
               Function(2, [], [Instr('memory.size')]),
               Function(1, [], [g(0), Instr('i32.load8_u', 0, 0)])]
    m.datas = [DataSegment('active', b"", offset=Instr('i32.const', 0)), DataSegment('passive', b"abc")]
    m.datacount = 2
    m.exports = [Export(b"fill", 'func', 0), Export(b"cp", 'func', 1), Export(b"init", 'func', 2), Export(b"grow", 'func', 3),
                 Export(b"size", 'func', 4), Export(b"ld", 'func', 5)]
    calls = []
    def c(name, *args):
        calls.append([name.encode().hex(), [["i32", a & 0xFFFFFFFF] for a in args]])
    c("size"); c("fill", 0, 0x55, 0); c("cp", 0, 0, 0); c("init", 0, 0, 0); c("init", 0, 3, 0); c("size")
    c("grow", 0); c("fill", 0, 1, 0); c("grow", 1); c("size"); c("fill", 65536, 7, 0); c("cp", 65536, 0, 0); c("cp", 0, 65536, 0)
    c("init", 65533, 0, 3); c("ld", 65535); c("fill", 0, 0xAB, 4); c("cp", 2, 0, 4); c("ld", 5); c("ld", 1)
    return {"note": "directed: memory with 0 initial pages (max %r): zero-length bulk operations, empty active segment, grow" % mx, "hex": encode(m).hex(),
            "imports_spec": {"globals": {}}, "calls": calls}


for mx in (2, None):
    for prop in ("C11", "C05"):
        out = os.path.join(HERE, prop, "memory-zero-pages-max%s.json" % ("none" if mx is None else mx))
        json.dump(build(mx), open(out, "w"), indent=1)
        print(out)
