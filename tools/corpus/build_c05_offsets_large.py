#!/usr/bin/env python3
"""Writes tools/corpus/C05/memarg-offsets-large.json: static memarg offsets that need the FIFTH LEB128 byte (>= 2^28) on a memory
large enough to keep the accesses in bounds (4097 pages): a store with static offset o is read back through address o with
offset 0 and vice versa, next to the 4-byte maximum 2^28-1 (seeded change C05/10: the payload of the fifth byte dropped).
Committed output."""
import json, os, sys
HERE = os.path.dirname(os.path.abspath(__file__))
sys.path[:0] = [os.path.join(HERE, ".."), os.path.join(HERE, "..", "wasmgen")]
from wasmgen.wasm_ast import Module, FuncType, Function, Instr, Limits, Export, I32, I64
from wasmgen.encode import encode

OFFS = (0x0FFFFFFF, 0x10000000, 0x10000001, 0x1000FFF0)


def build():
    m = Module()
    m.mems.append(Limits(4098, 4098))
    m.types = [FuncType([I32, I32], []), FuncType([I32], [I32]), FuncType([I32, I64], []), FuncType([I32], [I64])]
    g = lambda i: Instr('local.get', i)
    exports, calls = [], []
    def c(name, *args):
        calls.append([name.encode().hex(), [[t, a & (0xFFFFFFFF if t == "i32" else 0xFFFFFFFFFFFFFFFF)] for t, a in args]])
    def add(name, ty, body):
        m.funcs.append(Function(ty, [], body))
        m.exports.append(Export(name.encode(), 'func', len(m.funcs) - 1))
    add("st0", 0, [g(0), g(1), Instr('i32.store8', 0, 0)])
    add("ld0", 1, [g(0), Instr('i32.load8_u', 0, 0)])
    add("lw0", 3, [g(0), Instr('i64.load', 0, 0)])
    for k, o in enumerate(OFFS):
        add("st%d" % k + "o", 0, [g(0), g(1), Instr('i32.store8', 0, o)])
        add("ld%d" % k + "o", 1, [g(0), Instr('i32.load8_u', 0, o)])
        add("sw%d" % k + "o", 2, [g(0), g(1), Instr('i64.store', 0, o)])
        add("lw%d" % k + "o", 3, [g(0), Instr('i64.load', 3, o)])
    for k, o in enumerate(OFFS):
        for base in (0, 16, 0xFFF):
            v = (0x5A + 7 * k + base) & 0xFF
            c("st%do" % k, ("i32", base), ("i32", v)); c("ld0", ("i32", base + o)); c("ld0", ("i32", base)); c("ld0", ("i32", base + (o & 0x0FFFFFFF)))
            c("st0", ("i32", base + o + 1), ("i32", v ^ 0xFF)); c("ld%do" % k, ("i32", base + 1)); c("ld%do" % k, ("i32", base))
            c("sw%do" % k, ("i32", base + 8), ("i64", 0x0123456789ABCDEF + k)); c("lw0", ("i32", base + 8 + o)); c("lw%do" % k, ("i32", base + 8)); c("lw0", ("i32", base + 8))
    return {"note": "directed: memarg offsets needing the fifth LEB128 byte (2^28 and above) on a 4098-page memory, next to 2^28-1", "hex": encode(m).hex(),
            "imports_spec": {"globals": {}}, "calls": calls}


out = os.path.join(HERE, "C05", "memarg-offsets-large.json")
json.dump(build(), open(out, "w"), indent=1)
print(out, len(build()["calls"]))
