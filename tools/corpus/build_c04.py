#!/usr/bin/env python3
"""Writes the directed modules of tools/corpus/C04 (committed output; rerun only when the format changes).

import-names-*.json — imports whose (module, field) names are DISTINCT but look alike after the identifier mangling of c.c
(`esc(module) ++ "__" ++ esc(field)`, `esc` = alphanumerics except the escape character 'X' as they are, a second consecutive
'_' as "__", every other byte as X%02X): the literal text of another name's escape sequence ("a.b" vs "aX2Eb"), 'X' alone, 'X'
followed by hex digits, empty names, the same field in different modules, non-ASCII bytes, underscores next to escapes.  Every
import is called directly (exported `c<k>`), through the table (`t<k>`: call_indirect, the element segment lists the imports
in REVERSE order) and the host trace (callee identity, arguments, instance) must be V8's.  Globals / memory / table imports get
look-alike names too (they are fields of ONE struct in the generated C).

import-mangling-underscore-boundary.json — the recorded finding `import-mangling-underscore-at-module-field-boundary`
(known_findings.txt): ("a_","b") and ("a","_b") ARE mangled to the same C identifier by the unchanged w2c2.

elem-position-vs-function-index.json — element segments whose i-th entry is far from function i (reverse order, repeats, a
segment at an imported-global offset, overlapping segments): `table[offset + position] = function`, in every output option."""
import json
import os
import sys
HERE = os.path.dirname(os.path.abspath(__file__))
sys.path[:0] = [os.path.join(HERE, ".."), os.path.join(HERE, "..", "wasmgen")]
from wasmgen import wasm_ast as A          # noqa: E402
from wasmgen.encode import encode          # noqa: E402

I = A.Instr
OUT = os.path.join(HERE, "C04")


def func_import_module(names, globals_=(), memory=None, table=None, reexport=False, pad=0):
    """names: [(module, field)] of imported functions, all of type (i32, i64) -> i32"""
    m = A.Module()
    m.types = [A.FuncType([A.I32, A.I64], [A.I32]), A.FuncType([A.I32], [A.I32]), A.FuncType([], [A.I32])]
    for a, b in names:
        m.imports.append(A.Import(a, b, "func", 0))
    imports_spec = {"globals": {}}
    for k, (a, b) in enumerate(globals_):
        m.imports.append(A.Import(a, b, "global", A.GlobalType(A.I32, False)))
        imports_spec["globals"][str(len(m.imports) - 1)] = 1000 + 37 * k
    if memory:
        m.imports.append(A.Import(memory[0], memory[1], "memory", A.Limits(1, 2)))
    if table:
        m.imports.append(A.Import(table[0], table[1], "table", A.TableType(A.Limits(len(names) + 2, None))))
    else:
        m.tables.append(A.TableType(A.Limits(len(names) + 2, len(names) + 2)))
    n = len(names)
    calls = []
    for k in range(n):
        m.funcs.append(A.Function(1, [], [I("local.get", 0), I("i64.const", 0x100000000 + k), I("call", k)]))
        m.exports.append(A.Export(b"c%d" % k, "func", n + len(m.funcs) - 1))
    # t(slot): call_indirect through the table; slot 1 + j holds import n-1-j
    m.funcs.append(A.Function(1, [], [I("local.get", 0), I("i64.const", -7), I("local.get", 0), I("call_indirect", 0)]))
    m.exports.append(A.Export(b"t", "func", n + len(m.funcs) - 1))
    for k in range(len(globals_)):
        m.funcs.append(A.Function(2, [], [I("global.get", k)]))
        m.exports.append(A.Export(b"g%d" % k, "func", n + len(m.funcs) - 1))
    if memory:
        m.funcs.append(A.Function(1, [], [I("local.get", 0), I("i32.load8_u", 0, 0)]))
        m.exports.append(A.Export(b"ld", "func", n + len(m.funcs) - 1))
        m.datas = [A.DataSegment("active", b"names", I("i32.const", 3), 0)]
    for _ in range(pad):        # unexported functions at the end of the index space (indices shifted by a translator stay in range)
        m.funcs.append(A.Function(2, [], [I("i32.const", 77)]))
    m.elems = [A.ElemSegment(0, I("i32.const", 1), list(range(n - 1, -1, -1)))]
    if reexport:            # every import entry exported as it is
        for k in range(n):
            m.exports.append(A.Export(b"imp%d" % k, "func", k))
            calls.append((b"imp%d" % k, [("i32", 900 + k), ("i64", 5 - k)]))
    for k in range(n):
        calls.append((b"c%d" % k, [("i32", 11 + k)]))
    for k in range(n):
        calls.append((b"t", [("i32", 1 + k)]))
    for k in range(len(globals_)):
        calls.append((b"g%d" % k, []))
    if memory:
        calls += [(b"ld", [("i32", 3)]), (b"ld", [("i32", 7)])]
    return m, imports_spec, calls


def dup_import_module(globals_=(), muts=(), memories=(), tables=()):
    """the SAME global / memory / table imported several times: every import ENTRY owns an index, all entries with one (module, field)
    denote one host object.  globals_: [(module, field)] immutable i32; muts: [(module, field)] mutable i32 (written through one index,
    read through the others); memories / tables: [(module, field)] (memory and table imports are the LAST imports)."""
    m = A.Module()
    m.types = [A.FuncType([A.I32, A.I64], [A.I32]), A.FuncType([A.I32], [A.I32]), A.FuncType([], [A.I32])]
    m.imports.append(A.Import(b"env", b"a", "func", 0))
    imp = {"globals": {}}
    val = {}
    for k, (a, b) in enumerate(list(globals_) + list(muts)):
        m.imports.append(A.Import(a, b, "global", A.GlobalType(A.I32, k >= len(globals_))))
        imp["globals"][str(len(m.imports) - 1)] = val.setdefault((a, b), 1000 + 37 * k)     # one host cell per (module, field)
    for a, b in tables:
        m.imports.append(A.Import(a, b, "table", A.TableType(A.Limits(4, None))))
    for a, b in memories:
        m.imports.append(A.Import(a, b, "memory", A.Limits(1, 2)))
    if not tables:
        m.tables.append(A.TableType(A.Limits(4, 4)))
    calls = []
    nf = 1

    def fn(name, ty, body):
        m.funcs.append(A.Function(ty, [], body))
        m.exports.append(A.Export(name, "func", nf + len(m.funcs) - 1))
    fn(b"c0", 1, [I("local.get", 0), I("i64.const", 0x100000000), I("call", 0)])
    fn(b"t", 1, [I("local.get", 0), I("i64.const", -7), I("local.get", 0), I("call_indirect", 0)])
    ng = len(globals_)
    for k in range(ng + len(muts)):
        fn(b"g%d" % k, 2, [I("global.get", k)])
    for k in range(len(muts)):
        fn(b"s%d" % k, 1, [I("local.get", 0), I("global.set", ng + k), I("global.get", ng + k)])
    if memories:
        fn(b"ld", 1, [I("local.get", 0), I("i32.load8_u", 0, 0)])
        fn(b"st", 1, [I("local.get", 0), I("i32.const", 0xA7), I("i32.store8", 0, 0), I("local.get", 0), I("i32.load8_u", 0, 0)])
        m.datas = [A.DataSegment("active", b"twice", I("i32.const", 3), 0)]
        for k in range(len(memories)):
            m.exports.append(A.Export(b"mem%d" % k, "memory", k))
        imp["mem_fill"] = {str(len(m.imports) - len(memories)): [[40, "0a0b0c"]]}
    m.elems = [A.ElemSegment(0, I("i32.const", 1), [0, 1, 0])]
    calls += [(b"c0", [("i32", 5)]), (b"t", [("i32", 1)]), (b"t", [("i32", 3)])]
    for k in range(ng + len(muts)):
        calls.append((b"g%d" % k, []))
    for k in range(len(muts)):          # write through index k, read through every index
        calls.append((b"s%d" % k, [("i32", 7000 + k)]))
        for j in range(ng, ng + len(muts)):
            calls.append((b"g%d" % j, []))
    if memories:
        calls += [(b"ld", [("i32", 3)]), (b"ld", [("i32", 41)]), (b"st", [("i32", 100)]), (b"ld", [("i32", 100)])]
    return m, imp, calls


def write(fn, note, m, imports_spec, calls, **extra):
    s = dict(note=note, hex=encode(m).hex(), imports_spec=imports_spec,
             calls=[[n.hex(), [[t, b] for t, b in a]] for n, a in calls])
    s.update(extra)
    os.makedirs(OUT, exist_ok=True)
    with open(os.path.join(OUT, fn), "w") as f:
        json.dump(s, f, indent=1)
        f.write("\n")


def main():
    e = "é".encode("utf-8")
    # 1. escape character and escape look-alikes among function imports
    names = [(b"env", b"a.b"), (b"env", b"aX2Eb"), (b"env", b"X"), (b"env", b"X58"), (b"env", b"aXb"), (b"env", b"a b"),
             (b"env", b"aX20b"), (b"env", b"XX"), (b"env", b"X5858"), (b"env", b"x"), (b"env", b"-"), (b"env", b"X2D")]
    m, imp, calls = func_import_module(names)
    write("import-names-escape-char.json", "function imports whose names contain the escape character 'X' or the literal text of another "
          "import's escape sequence: \"a.b\" vs \"aX2Eb\", \"X\" vs \"X58\", \"a b\" vs \"aX20b\", \"-\" vs \"X2D\", \"XX\" vs \"X5858\"; each is "
          "called directly and through the table, the host trace must name the designated callee", m, imp, calls)
    # 2. empty names, same field in different modules, module/field swapped, non-ASCII, escapes inside the module name
    names = [(b"env", b""), (b"", b"env"), (b"", b""), (b"env", b"x"), (b"env2", b"x"), (b"x", b"env"), (b"a.b", b"c"), (b"aX2Eb", b"c"),
             (b"env", e), (b"env", b"XC3XA9"), (e, b"f"), (b"envX", b"f"), (b"env", b"Xf"), (b"wasi_snapshot_preview1", b"fd_write"),
             (b"wasi_snapshot", b"preview1_fd_write"), (b"env", b"a_b"), (b"env", b"a__b"), (b"env", b"aX5Fb"), (b"env", b"a_X5Fb")]
    m, imp, calls = func_import_module(names)
    write("import-names-empty-same-field-nonascii.json", "function imports with empty module/field names, the same field in different modules, "
          "module and field swapped, escape look-alikes inside the MODULE name, non-ASCII bytes vs the text of their escapes, single and double "
          "underscores inside a name vs X5F", m, imp, calls)
    # 3. globals / memory / table imports (fields of one struct) with look-alike names next to function imports of the same names
    names = [(b"env", b"f.1"), (b"env", b"fX2E1"), (b"env", b"m"), (b"host", b"X")]
    globs = [(b"env", b"g.1"), (b"env", b"gX2E1"), (b"env", b"X"), (b"env", b"X58"), (b"env", b"m.X"), (b"host", b"m.X")]
    m, imp, calls = func_import_module(names, globs, memory=(b"env", b"mX2EX"), table=(b"env", b"X58X"))
    write("import-names-globals-memory-table.json", "imported globals, memory and table (fields of ONE instance struct) whose names are escape "
          "look-alikes of each other (\"g.1\" vs \"gX2E1\", \"X\" vs \"X58\", memory \"mX2EX\" vs global \"m.X\", table \"X58X\"), next to function "
          "imports with look-alike names: every global must read the value of ITS host cell, data lands in the designated memory, the element "
          "segment in the designated table", m, imp, calls)
    # 4. the recorded finding: underscores at the module/field boundary
    names = [(b"a_", b"b"), (b"a", b"_b")]
    m, imp, calls = func_import_module(names)
    write("import-mangling-underscore-boundary.json", "RECORDED FINDING import-mangling-underscore-at-module-field-boundary: (\"a_\",\"b\") and "
          "(\"a\",\"_b\") are both mangled to a___b (a run of n underscores is written as 2n-1, the separator adds 2): calling the second import runs "
          "the first host function", m, imp, calls, known_key="import-mangling-underscore-at-module-field-boundary")
    # 4b. module names starting with a digit (the identifier must not: fixed by /repo ed458af; witness also kept under tools/corpus/C11)
    names = [(b"1env", b"f"), (b"2env", b"f"), (b"0", b"g"), (b"9x_", b"h"), (b"5_", b"j"), (b"3" + e, b"k"), (b"1env", b"g2"), (b"env1", b"f"),
             (b"X31env", b"f"), (b"31env", b"f"), (b"7", b"")]
    globs = [(b"1env", b"glob"), (b"0", b"g0"), (b"4_", b"gg"), (b"X30", b"g0")]
    m, imp, calls = func_import_module(names, globs, memory=(b"8mem", b"m"), table=(b"6tab", b"t"))
    note = ("import module names starting with a digit (\"1env\" vs \"2env\", \"0\", \"9x_\", \"5_\", digit + non-ASCII, \"7\" with an empty field) for "
            "function, global, memory and table imports, next to the look-alikes \"X31env\", \"31env\", \"env1\": the C identifier of an import must "
            "be an identifier (before /repo ed458af: `U32 1env__f(void*,U32);` did not compile) and every call must reach ITS host function")
    write("import-module-leading-digit.json", note, m, imp, calls)
    write(os.path.join("..", "C11", "import-module-leading-digit.json"), note, m, imp, calls)
    # 4c. the SAME function imported several times: every import ENTRY owns a function index (imports in order, one index per entry)
    names = [(b"env", b"a"), (b"env", b"a"), (b"env", b"b"), (b"env", b"a"), (b"host", b"a"), (b"env", b"c"), (b"env", b"b")]
    m, imp, calls = func_import_module(names, reexport=True)
    write("import-same-function-twice.json", "the same (module, field) function imported two and three times, interleaved with other imports "
          "([env.a, env.a, env.b, env.a, host.a, env.c, env.b]): every import entry owns a function index; each index is called directly, through "
          "the table (element segment in reverse order) and as an export; the host trace must name the designated host function", m, imp, calls)
    m, imp, calls = func_import_module(names, reexport=True, pad=4)
    write("import-same-function-twice-padded.json", "as import-same-function-twice.json, followed by four unexported functions: a translator "
          "that gives repeated imports no index of their own still finds every index in range and calls the wrong functions", m, imp, calls)
    # 4d. the SAME global / memory / table imported several times (w2c2 994dbb2: one member of the instance per imported OBJECT)
    m, imp, calls = dup_import_module(globals_=[(b"env", b"g"), (b"env", b"g"), (b"host", b"g"), (b"env", b"h"), (b"env", b"g")],
                                      muts=[(b"env", b"m"), (b"env", b"m"), (b"host", b"m"), (b"env", b"m")])
    write("duplicate-global-import.json", "the same global imported two and three times ([env.g, env.g, host.g, env.h, env.g]), next to a global of "
          "another module with the same field; a MUTABLE global imported three times ([env.m, env.m, host.m, env.m]) is written through each "
          "index and read through all of them: one host cell per (module, field), every index reads / writes that cell; the instance struct "
          "has one member per imported object (duplicate members do not compile)", m, imp, calls)
    m, imp, calls = dup_import_module(globals_=[(b"env", b"g")], memories=[(b"env", b"mem"), (b"env", b"mem")])
    write("duplicate-memory-import.json", "the same memory imported twice (memory 0 and memory 1 are one host memory, pre-filled by the embedder); "
          "both are exported (accessors mem0, mem1 return the one memory); loads / stores / the data segment address memory 0.  This V8 accepts "
          "one memory: its reference run uses the module without the second import", m, imp, calls)
    m, imp, calls = dup_import_module(globals_=[(b"env", b"g"), (b"env", b"g")], tables=[(b"env", b"tab"), (b"env", b"tab")])
    write("duplicate-table-import.json", "the same table imported twice (table 0 and table 1 are one host table); the element segment and "
          "call_indirect address table 0", m, imp, calls)
    # 5. element segments whose positions are far from the function indices
    m = A.Module()
    m.types = [A.FuncType([], [A.I32]), A.FuncType([A.I32], [A.I32])]
    m.imports.append(A.Import(b"env", b"off", "global", A.GlobalType(A.I32, False)))
    m.imports.append(A.Import(b"env", b"h", "func", 0))
    m.tables.append(A.TableType(A.Limits(24, 24)))
    nf = 9
    for k in range(nf):
        m.funcs.append(A.Function(0, [], [I("i32.const", 100 + k)]))
    m.funcs.append(A.Function(1, [], [I("local.get", 0), I("call_indirect", 0)]))
    m.exports.append(A.Export(b"ci", "func", 1 + nf))
    m.elems = [A.ElemSegment(0, I("i32.const", 0), [9, 8, 7, 6, 5]),            # reverse order
               A.ElemSegment(0, I("global.get", 0), [3, 3, 0, 9, 1]),           # imported-global offset (12), repeats, the import
               A.ElemSegment(0, I("i32.const", 3), [2, 4]),                     # overlaps the first
               A.ElemSegment(0, I("i32.const", 23), [5]),                       # last slot
               A.ElemSegment(0, I("i32.const", 24), [])]                        # empty segment at the end
    calls = [(b"ci", [("i32", s)]) for s in (0, 1, 2, 3, 4, 12, 13, 14, 15, 16, 23)]
    write("elem-position-vs-function-index.json", "element segments whose i-th entry is not function i (reverse order, repeats, an imported "
          "function, imported-global offset, overlap, last slot, empty segment): table[offset + POSITION] = function in every output option",
          m, {"globals": {"0": 12}}, calls)


if __name__ == "__main__":
    main()
