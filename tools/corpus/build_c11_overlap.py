#!/usr/bin/env python3
"""Writes tools/corpus/C11/memcopy-overlap.json: memory.copy with in-bounds OVERLAPPING source and destination ranges in both
directions (dst > src and dst < src, small and large, identical ranges), memory.fill and reads of the result.  WebAssembly defines
memory.copy for overlapping ranges; the C that implements it must not rely on memcpy (undefined for overlapping objects).  Runs
through real w2c2 -> the C11 sanitizer build matrix and is compared with V8.  Committed output."""
import json, os, sys
HERE = os.path.dirname(os.path.abspath(__file__))
sys.path[:0] = [os.path.join(HERE, ".."), os.path.join(HERE, "..", "wasmgen")]
from wasmgen.wasm_ast import Module, FuncType, Function, Instr, Limits, Export, DataSegment, I32, I64
from wasmgen.encode import encode


def build():
    m = Module()
    m.mems.append(Limits(1, 2))
    m.types = [FuncType([I32, I32, I32], []), FuncType([I32], [I64]), FuncType([I32, I32, I32], [])]
    g = lambda i: Instr('local.get', i)
    m.funcs = [Function(0, [], [g(0), g(1), g(2), Instr('memory.copy')]),
               Function(1, [], [g(0), Instr('i64.load', 0, 0)]),
               Function(2, [], [g(0), g(1), g(2), Instr('memory.fill')])]
    m.datas = [DataSegment('active', bytes((i * 7 + 1) & 0xFF for i in range(8192)), offset=Instr('i32.const', 0))]
    m.exports = [Export(b"cp", 'func', 0), Export(b"rd", 'func', 1), Export(b"fill", 'func', 2)]
    calls = []
    def c(name, *args):
        calls.append([name.encode().hex(), [["i32", a & 0xFFFFFFFF] for a in args]])
    def rd(lo, hi):
        for a in range(lo, hi, 8):
            c("rd", a)
    for dst, src, n in ((3, 0, 29), (0, 5, 30), (10, 10, 8), (100, 96, 64), (96, 100, 64), (1, 0, 1), (0, 1, 1), (200, 199, 300),
                        (199, 200, 300), (1000, 1001, 4096), (1001, 1000, 4096), (3000, 2000, 3000), (2000, 3000, 3000),
                        (65535 - 100, 65535 - 150, 101), (65535 - 150, 65535 - 100, 101), (7, 7, 0), (65536, 65536, 0),
                        # short counts (an inlined byte loop would be the temptation): every small distance x small count
                        ) + tuple((400 + d, 400, n) for d in (1, 2, 3, 7, 15) for n in (2, 3, 4, 8, 15, 16, 17) if d < n) + \
                        tuple((600, 600 + d, n) for d in (1, 2, 7, 15) for n in (2, 8, 16, 17) if d < n):
        c("cp", dst, src, n)
        rd(max(0, min(dst, src) - 8) & ~7, min(65536 - 8, max(dst, src) + min(n, 96) + 8), )
    c("fill", 16, 0xAB, 33); c("cp", 20, 16, 40); rd(8, 72)
    return {"note": "directed: memory.copy on overlapping in-bounds ranges, both directions", "hex": encode(m).hex(),
            "imports_spec": {"globals": {}}, "calls": calls}


out = os.path.join(HERE, "C11", "memcopy-overlap.json")
json.dump(build(), open(out, "w"), indent=1)
print(out, len(build()["calls"]))
