#!/usr/bin/env python3
"""Writes tools/corpus/C09/brif-carries-value.json: a directed family for VALUE-CARRYING `br_if` (found missing by seeded
change C09/4: the compact output dropped the braces of `if(c){siX=siY;goto L;}` and the branch was always taken).

wasmCWriteGoto emits a copy `s<t>X=s<t>Y;` in front of the `goto` exactly when the carried value does not already lie
in the label's result slot, i.e. when EXTRA operands lie between the label's base and the carried value.  Every function
below has that shape, for each result type (i32/i64/f32/f64), with 1..3 extra operands of mixed types, the label being
 * an enclosing block                       (blk)
 * the function body itself                 (fn: br_if 0 at depth 0 = conditional return of a value)
 * an outer block reached from an inner one (nest: br_if 1, extras in both frames)
 * an `if … else` arm with a result         (ifarm: then-arm and else-arm)
 * a block left from inside a loop          (loop: the branch is taken in the k-th iteration)
 * a chain of two br_if in one block        (chain: first not taken, second decides)
and both outcomes of the condition are called (0, 1, 0x80000000; loop: trip counts).  c09.py runs each corpus module through
its whole option matrix; the behavioural part translates WITHOUT -p and WITH -p (and -m / -f / -t / -r combinations),
compiles, runs and compares with V8 and with the single-file output.  Committed output; rerun when the format changes."""
import json
import os
import struct
import sys
HERE = os.path.dirname(os.path.abspath(__file__))
sys.path[:0] = [os.path.join(HERE, "..")]
from wasmgen.wasm_ast import Module, FuncType, Function, Instr as I, Export, I32, I64, F32, F64
from wasmgen.encode import encode

TN = {I32: "i32", I64: "i64", F32: "f32", F64: "f64"}


def f32b(x):
    return struct.unpack("<I", struct.pack("<f", x))[0]


def f64b(x):
    return struct.unpack("<Q", struct.pack("<d", x))[0]


def const(t, k):
    """k-th distinct constant of type t (non-integral floats: their C text needs the decimal point)"""
    if t == I32:
        return I("i32.const", 10 * (k + 1) + 1)
    if t == I64:
        return I("i64.const", (k + 1) * 0x100000001 + 7)
    if t == F32:
        return I("f32.const", f32b(1.5 * (k + 1) + 0.25))
    return I("f64.const", f64b(2.75 * (k + 1) + 0.125))


def main():
    m = Module()
    tix = {}

    def ty(params, results):
        key = (tuple(params), tuple(results))
        if key not in tix:
            tix[key] = len(m.types)
            m.types.append(FuncType(params, results))
        return tix[key]
    calls = []
    conds = [0, 1, 0x80000000]

    def add(name, params, t, body, argsets, locals_=()):
        m.funcs.append(Function(ty(params, [t]), list(locals_), body))
        m.exports.append(Export(name.encode(), "func", len(m.funcs) - 1))
        for a in argsets:
            calls.append([name.encode().hex(), [["i32", v] for v in a]])

    types = [I32, I64, F32, F64]
    for ti, t in enumerate(types):
        tn = TN[t]
        others = types[ti + 1:] + types[:ti]
        for nextra in (1, 2, 3):
            # extras below the carried value: first one of the result type (the label's own slot), then other types
            ex_t = [t] + others[:nextra - 1]
            extras = [const(et, 3 + j) for j, et in enumerate(ex_t)]
            drops = [I("drop")] * (nextra + 1)
            core = extras + [const(t, 0), I("local.get", 0), I("br_if", 0)] + drops + [const(t, 1)]
            # an enclosing block
            add("blk_%s_%d" % (tn, nextra), [I32], t, [I("block", t, body=list(core))], [[c] for c in conds])
            # the function label
            add("fn_%s_%d" % (tn, nextra), [I32], t, list(core), [[c] for c in conds])
        # outer block reached from an inner block; extras in both frames
        inner = [const(I64 if t != I64 else I32, 5), const(t, 0), I("local.get", 0), I("br_if", 1), I("drop"), I("drop")]
        body = [I("block", t, body=[const(t, 4), const(F64 if t != F64 else F32, 6),
                                    I("block", None, body=inner),
                                    I("drop"), I("drop"), const(t, 1)])]
        add("nest_%s" % tn, [I32], t, body, [[c] for c in conds])
        # inner block WITH a result: branch to the outer label carries the value over the inner frame
        inner2 = [const(t, 7), const(t, 0), I("local.get", 0), I("br_if", 1), I("drop")]
        body = [I("block", t, body=[const(t, 4), I("block", t, body=inner2), I("drop"), I("drop"), const(t, 1)])]
        add("nestr_%s" % tn, [I32], t, body, [[c] for c in conds])
        # arms of an if with a result
        arm = lambda a, b, c: [const(t, a), const(t, b), I("local.get", 0), I("br_if", 0), I("drop"), I("drop"), const(t, c)]
        body = [I("local.get", 1), I("if", t, body=arm(2, 0, 1), else_body=arm(5, 3, 4))]
        add("ifarm_%s" % tn, [I32, I32], t, body, [[c, s] for c in conds for s in (0, 1)])
        # left from inside a loop: local 1 counts down from the argument; the branch is taken when it reaches 0
        loop = [I("local.get", 0), I("i32.const", 1), I("i32.sub"), I("local.set", 0),
                const(t, 5), const(t, 0), I("local.get", 0), I("i32.eqz"), I("br_if", 1), I("drop"), I("drop"),
                I("local.get", 0), I("i32.const", 100), I("i32.lt_u"), I("br_if", 0)]
        body = [I("block", t, body=[I("loop", None, body=loop), const(t, 1)])]
        add("loop_%s" % tn, [I32], t, body, [[1], [2], [5], [200]])
        # two br_if in a row: the first condition false, the second decides
        body = [I("block", t, body=[const(t, 6), const(t, 0), I("local.get", 0), I("br_if", 0),
                                    I("drop"), const(t, 2), I("local.get", 1), I("br_if", 0),
                                    I("drop"), I("drop"), const(t, 1)])]
        add("chain_%s" % tn, [I32, I32], t, body, [[a, b] for a in (0, 1) for b in (0, 7)])
    spec = {"note": "directed (seeded C09/4): value-carrying br_if whose value must be copied into the label's slot (extra operands below it), "
                    "result types i32/i64/f32/f64, targets block / function / outer block / if arm / out of a loop, both outcomes of the condition",
            "hex": encode(m).hex(), "imports_spec": {"globals": {}}, "calls": calls}
    out = os.path.join(HERE, "C09", "brif-carries-value.json")
    json.dump(spec, open(out, "w"), indent=1)
    print(out, len(m.funcs), "functions", len(calls), "calls")


main()
