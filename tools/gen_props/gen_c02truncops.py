#!/usr/bin/env python3
"""Writes lean/W2c2Verif/Props/C02TruncOps.lean: the 16 float-to-int truncation OPCODES at full strength
(emitted statement = specification's trunc / trunc_sat for all operand bit patterns), by composing the
per-opcode theorems of C02Ops with the guard theorems of C02Guards; plus their no-UB corollaries."""
import os
HERE = os.path.dirname(os.path.abspath(__file__))
OUT = os.path.join(HERE, "..", "..", "lean", "W2c2Verif", "Props", "C02TruncOps.lean")
HEAD = '''/-
  Props.C02TruncOps — for each of the 16 float-to-int truncation opcodes and EVERY operand bit pattern, the
  statement w2c2 emits computes exactly the specification's `trunc` (trapping with the specified code on NaN /
  out-of-range) resp. `trunc_sat`, and is never undefined (the C cast is reached only when it is defined).
-/
import W2c2Verif.Props.C02Ops
import W2c2Verif.Props.C02Guards

namespace W2c2Verif.Props.C02
open W2c2Verif

theorem bind_castInt_u32 (o : Out (BitVec 32)) : (o.map' CVal.u32 >>= CVal.castInt .u32) = o.map' CVal.u32 := by
  cases o <;> simp [Out.map', CVal.fromNat]
theorem bind_castInt_u64 (o : Out (BitVec 64)) : (o.map' CVal.u64 >>= CVal.castInt .u64) = o.map' CVal.u64 := by
  cases o <;> simp [Out.map', CVal.fromNat]

theorem truncTrap_no_ub (fmt : SF.Fmt) (N : Nat) (sg : Bool) (b : Nat) (k : UBKind) : Spec.truncTrap fmt N sg b ≠ .ub k := by
  unfold Spec.truncTrap
  split
  · intro h; cases h
  · split
    · intro h; cases h
    · rename_i t _
      simp only []
      by_cases hr : (if sg = true then -(2 ^ (N - 1) : Int) else 0) ≤ t ∧ t ≤ (if sg = true then (2 ^ (N - 1) : Int) - 1 else (2 ^ N : Int) - 1)
      · rw [if_pos hr]; intro h; cases h
      · rw [if_neg hr]; intro h; cases h

'''

def main():
    out = [HEAD]
    n = 0
    for N in (32, 64):
        for fmt, W in (("f32", 32), ("f64", 64)):
            for sg, S in (("s", "S"), ("u", "U")):
                rc = "u32" if N == 32 else "u64"
                op = f"op_i{N}_trunc_{fmt}_{sg}"
                mac = f"i{N}_trunc_{sg}_{fmt}"
                signed = "true" if sg == "s" else "false"
                enum = f"wasmOpcodeI{N}Trunc{fmt.upper()}{S}"
                out.append(f'''theorem opspec_i{N}_trunc_{fmt}_{sg} (x : BitVec {W}) :
    Model.runNumeric C01.macroDefs "{enum}" [(.{fmt}, .{fmt} x)] = (Spec.truncTrap SF.{fmt} {N} {signed} x.toNat).map' CVal.{rc} := by
  rw [{op}, {mac}_exact, bind_castInt_{rc}]

theorem no_ub_i{N}_trunc_{fmt}_{sg} (x : BitVec {W}) (k : UBKind) :
    Model.runNumeric C01.macroDefs "{enum}" [(.{fmt}, .{fmt} x)] ≠ .ub k := by
  rw [opspec_i{N}_trunc_{fmt}_{sg}]
  have := truncTrap_no_ub SF.{fmt} {N} {signed} x.toNat k
  cases h : Spec.truncTrap SF.{fmt} {N} {signed} x.toNat <;> simp_all [Out.map']
''')
                sop = f"op_i{N}_trunc_sat_{fmt}_{sg}"
                smac = f"i{N}_trunc_sat_{sg}_{fmt}"
                senum = f"wasmMiscOpcodeI{N}TruncSat{fmt.upper()}{S}"
                out.append(f'''theorem opspec_i{N}_trunc_sat_{fmt}_{sg} (x : BitVec {W}) :
    Model.runNumeric C01.macroDefs "{senum}" [(.{fmt}, .{fmt} x)] = .val (.{rc} (Spec.truncSat SF.{fmt} {N} {signed} x.toNat)) := by
  rw [{sop}, {smac}_exact]

theorem no_ub_i{N}_trunc_sat_{fmt}_{sg} (x : BitVec {W}) (k : UBKind) :
    Model.runNumeric C01.macroDefs "{senum}" [(.{fmt}, .{fmt} x)] ≠ .ub k := by
  rw [opspec_i{N}_trunc_sat_{fmt}_{sg}]; intro h; cases h
''')
                n += 2
    out.append("end W2c2Verif.Props.C02\n")
    open(OUT, "w").write("\n".join(out))
    print(n, "opcodes")

main()
