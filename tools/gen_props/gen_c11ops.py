#!/usr/bin/env python3
"""Writes lean/W2c2Verif/Props/C11Ops.lean: for every numeric opcode, the emitted statement never
evaluates to undefined behaviour (corollaries of the per-opcode theorems of C01Ops / C02Ops, whose
right-hand sides are values or traps).  Source file (committed); this script avoids typing ~140 statements."""
import os, re
HERE = os.path.dirname(os.path.abspath(__file__))
PROPS = os.path.join(HERE, "..", "..", "lean", "W2c2Verif", "Props")

HEAD = '''/-
  Props.C11Ops — C11, numeric part: for EVERY numeric opcode (integer and floating point) the
  statement w2c2 emits (dispatch table and macros regenerated from the current c.c / w2c2_base.h),
  evaluated by the UB-tracking C semantics `CSem` on ARBITRARY operand values, is never undefined:
  no signed overflow, no shift by >= width, no division overflow, no out-of-range float-to-int
  conversion, no use of a builtin outside its domain.  (Corollaries of C01Ops / C02Ops / C02TruncOps, which
  show each evaluation to be a value or the specified trap; for the 16 float-to-int truncations this rests on
  the exactness of the range guards, Props/C02Guards.)
-/
import W2c2Verif.Props.C01Ops
import W2c2Verif.Props.C02Ops
import W2c2Verif.Props.C02TruncOps

namespace W2c2Verif.Props.C11
open W2c2Verif

'''

def main():
    out = [HEAD]
    names = []
    pending = []
    for fn, ns in (("C01Ops.lean", "C01"), ("C02Ops.lean", "C02")):
        text = open(os.path.join(PROPS, fn)).read()
        for m in re.finditer(r"theorem (op_\w+)((?: \([^)]*\))*) :\n\s+(Model\.runNumeric macroDefs \"\w+\" \[[^\n]*\]) = ([^\n]*)", text):
            thm, binders, lhs = m.group(1), m.group(2), m.group(3).replace("macroDefs", "C01.macroDefs")
            rhs = m.group(4)
            if not (rhs.startswith(".val") or ".map' " in rhs):
                # float-to-int truncations: full-strength theorem and no-UB corollary are in Props/C02TruncOps (via C02Guards)
                names.append(thm)
                args = " ".join(b.split(":")[0].strip(" (") for b in binders.split(")") if ":" in b)
                out.append(f"theorem no_ub_{thm[3:]}{binders} (k : UBKind) :\n    {lhs} ≠ .ub k := C02.no_ub_{thm[3:]} {args} k\n")
                continue
            names.append(thm)
            out.append(f"theorem no_ub_{thm[3:]}{binders} (k : UBKind) :\n    {lhs} ≠ .ub k := by\n"
                       f"  rw [{ns}.{thm}]\n"
                       f"  first\n  | (intro h; cases h; done)\n"
                       f"  | (simp only [Spec.idiv_s, Spec.idiv_u, Spec.irem_s, Spec.irem_u]; repeat' split\n     all_goals (intro h; cases h))\n")
    out.append(f"/-- number of opcodes covered -/\ndef coveredOpcodes : Nat := {len(names)}\n")
    out.append("/-- opcodes without a no-UB theorem (none) -/\ndef pendingOpcodes : List String := [" + ", ".join('"%s"' % n for n in pending) + "]\n")
    out.append("end W2c2Verif.Props.C11\n")
    open(os.path.join(PROPS, "C11Ops.lean"), "w").write("\n".join(out))
    print(len(names), "corollaries")

main()
