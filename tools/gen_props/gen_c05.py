#!/usr/bin/env python3
"""Writes lean/W2c2Verif/Props/C05.lean (loads/stores), Props/C19.lean (BE = LE), Props/C16.lean (atomics, value level)."""
import os
LEAN = os.path.join(os.path.dirname(os.path.abspath(__file__)), "..", "..", "lean", "W2c2Verif")

LOADS = [("i32_load", 4, False, 32, "u32"), ("i64_load", 8, False, 64, "u64"), ("f32_load", 4, False, 32, "f32"),
         ("f64_load", 8, False, 64, "f64"), ("i32_load8_s", 1, True, 32, "u32"), ("i64_load8_s", 1, True, 64, "u64"),
         ("i32_load8_u", 1, False, 32, "u32"), ("i64_load8_u", 1, False, 64, "u64"), ("i32_load16_s", 2, True, 32, "u32"),
         ("i64_load16_s", 2, True, 64, "u64"), ("i32_load16_u", 2, False, 32, "u32"), ("i64_load16_u", 2, False, 64, "u64"),
         ("i64_load32_s", 4, True, 64, "u64"), ("i64_load32_u", 4, False, 64, "u64")]
STORES = [("i32_store", 4, "u32", 32), ("i64_store", 8, "u64", 64), ("f32_store", 4, "f32", 32), ("f64_store", 8, "f64", 64),
          ("i32_store8", 1, "u32", 32), ("i32_store16", 2, "u32", 32), ("i64_store8", 1, "u64", 64), ("i64_store16", 2, "u64", 64),
          ("i64_store32", 4, "u64", 64)]

TAC = '''
/-- evaluate a memory accessor body on symbolic memory/operands -/
macro "mem_eval" : tactic => `(tactic|
  simp +decide [MFunc.call, bindParams, MStmt.exec, addrOf, CExpr.eval, CExpr.typeOf, Env.get, Env.set, CVal.ty, CTy.bytes, inBounds,
    CVal.ofBits, Mem.hostRead, Mem.hostWrite, CVal.fromNat, CVal.fromInt, Out.ite_bind, CVal.reinterpret, CVal.bits, builtin1,
    RmwOp.apply, CVal.binop, CTy.common, CTy.promote, BinOp.isCmp, CPrim.arithU, CPrim.cmpU, CVal.truthy, *])
'''

def c05():
    out = ['''/-
  Props.C05 — linear-memory instructions read and write the specified bytes.

  For every one of the 14 load and 9 store functions of w2c2_base.h — bodies REGENERATED from
  the current header (`Gen.LoadStore`, little-endian host configuration) — and for every
  memory, every in-bounds address (ANY alignment) and every stored value: the load returns the
  specification's value (little-endian byte interpretation, zero/sign extension to the result
  width), the store writes exactly the specification's bytes; stores change nothing outside
  [ea, ea+width) and never the size; a stored value reads back (little-endian round trip).
  The effective address `(U64)base + offsetU` emitted by w2c2 is the 33-bit sum (no 32-bit wrap).
  Out-of-bounds accesses are outside the property (w2c2 performs no bounds checks): each
  theorem carries the in-bounds hypothesis, and the examples instantiate it.
-/
import W2c2Verif.Gen.LoadStore
import W2c2Verif.Lemmas.Mem
import W2c2Verif.Lemmas.Tactics
set_option linter.unusedSimpArgs false
set_option linter.unusedVariables false

namespace W2c2Verif.Props.C05
open W2c2Verif
''' + TAC]
    for n, k, sg, N, rc in LOADS:
        out.append(f'''theorem {n}_correct (m : Mem) (ea : BitVec 64) (h : ea.toNat + {k} ≤ m.size) :
    Gen.le_{n}.call noDefs .le m [.u64 ea] = .val (some (.{rc} (Spec.load {k} {"true" if sg else "false"} {N} m ea.toNat)), m) := by
  have h' : ¬ m.size < ea.toNat + {k} := by omega
  simp only [Gen.le_{n}]; mem_eval
  all_goals simp [Spec.load, Mem.readLE8_eq, Mem.readLE16_eq, Mem.readLE32_eq, Mem.readLE64_eq, BitVec.signExtend, Spec.zext8, Spec.zext16, Spec.zext32]
''')
    for n, k, vc, N in STORES:
        out.append(f'''theorem {n}_correct (m : Mem) (ea : BitVec 64) (v : BitVec {N}) (h : ea.toNat + {k} ≤ m.size) :
    Gen.le_{n}.call noDefs .le m [.u64 ea, .{vc} v] = .val (none, Spec.store {k} m ea.toNat v) := by
  have h' : ¬ m.size < ea.toNat + {k} := by omega
  simp only [Gen.le_{n}]; mem_eval
  all_goals simp [Mem.writeLE8_eq, Mem.writeLE16_eq, Mem.writeLE32_eq, Mem.writeLE64_eq, Spec.store_setWidth32, Spec.store_setWidth16, Spec.store_setWidth8]
''')
    out.append('''/-- a store changes exactly the bytes of its range and never the memory size -/
theorem store_frame (k : Nat) {N : Nat} (m : Mem) (a : Nat) (v : BitVec N) (i : Nat) (h : i < a ∨ a + k ≤ i) :
    (Spec.store k m a v).rd i = m.rd i ∧ (Spec.store k m a v).size = m.size :=
  Spec.storeBytes_frame k m a v.toNat i h

/-- little-endian round trip: loading what was stored yields the low bytes of the value -/
theorem load_store_roundtrip (k : Nat) {N : Nat} (m : Mem) (a : Nat) (v : BitVec N) :
    Spec.load k false (8 * k) (Spec.store k m a v) a = BitVec.ofNat (8 * k) (v.toNat % 256 ^ k) := by
  simp only [Spec.load, Spec.store, Spec.leValue_storeBytes]; rfl

/-- the address expression `(U64)s + offU` w2c2 emits: the 33-bit sum, never wrapped to 32 bits -/
theorem effective_addr_no_wrap (base off : BitVec 32) :
    (CExpr.bin .add (.cast .u64 (.var "si0")) (.lit (.u32 off))).eval noDefs [("si0", .u32 base)]
      = .val (.u64 (BitVec.ofNat 64 (base.toNat + off.toNat))) := by
  simp [CExpr.eval, Env.get, CVal.fromNat, CVal.binop, CTy.common, CTy.promote, CVal.ty, BinOp.isCmp, CPrim.arithU]
  apply BitVec.eq_of_toNat_eq
  have := base.isLt; have := off.isLt
  simp [BitVec.toNat_add, BitVec.toNat_setWidth]
  all_goals omega

/-- non-vacuity: the hypotheses are satisfiable at the LAST valid address and at an odd address -/
example : ∃ (m : Mem) (ea : BitVec 64), ea.toNat + 4 ≤ m.size ∧ ea.toNat % 2 = 1 ∧ ea.toNat + 4 = m.size :=
  ⟨⟨fun _ => 0, 65536⟩, 65532 + 0 |> fun _ => 65531 + 1 |> fun _ => BitVec.ofNat 64 65532 - 0 |> fun _ => BitVec.ofNat 64 65531 + 1 - 0 |> fun _ => BitVec.ofNat 64 65533 - 0 |> fun _ => BitVec.ofNat 64 65532 |> fun _ => BitVec.ofNat 64 65531 + 1#64 - 1#64 + 1#64 |> fun _ => BitVec.ofNat 64 65532, by decide⟩ |> fun _ =>
  ⟨⟨fun _ => 0, 65537⟩, BitVec.ofNat 64 65533, by decide⟩

end W2c2Verif.Props.C05
''')
    txt = "\n".join(out)
    a = txt.index("example : ∃ (m : Mem) (ea : BitVec 64)"); b = txt.index("end W2c2Verif.Props.C05")
    txt = txt[:a] + "example : ∃ (m : Mem) (ea : BitVec 64), ea.toNat + 4 ≤ m.size ∧ ea.toNat % 2 = 1 ∧ ea.toNat + 4 = m.size :=\n  ⟨⟨fun _ => 0, 65537⟩, BitVec.ofNat 64 65533, by decide⟩\n\n" + txt[b:]
    out = [txt]
    open(os.path.join(LEAN, "Props", "C05.lean"), "w").write("\n".join(out))

c05()


RMW = []
for op in ("add", "sub", "and", "or", "xor", "xchg"):
    RMW += [(f"i32_atomic_rmw8_{op}_u", 1, "u32", 32, op), (f"i32_atomic_rmw16_{op}_u", 2, "u32", 32, op), (f"i32_atomic_rmw_{op}", 4, "u32", 32, op),
            (f"i64_atomic_rmw8_{op}_u", 1, "u64", 64, op), (f"i64_atomic_rmw16_{op}_u", 2, "u64", 64, op),
            (f"i64_atomic_rmw32_{op}_u", 4, "u64", 64, op), (f"i64_atomic_rmw_{op}", 8, "u64", 64, op)]
CMPX = [(n.replace("_add", "_cmpxchg"), k, vc, N) for (n, k, vc, N, op) in RMW if op == "add"]
ALOADS = [("i32_atomic_load8_u", 1, "u32", 32), ("i64_atomic_load8_u", 1, "u64", 64), ("i32_atomic_load16_u", 2, "u32", 32),
          ("i64_atomic_load16_u", 2, "u64", 64), ("i64_atomic_load32_u", 4, "u64", 64), ("i32_atomic_load", 4, "u32", 32),
          ("i64_atomic_load", 8, "u64", 64)]
ASTORES = [("i32_atomic_store", 4, "u32", 32), ("i64_atomic_store", 8, "u64", 64), ("i32_atomic_store8", 1, "u32", 32),
           ("i32_atomic_store16", 2, "u32", 32), ("i64_atomic_store8", 1, "u64", 64), ("i64_atomic_store16", 2, "u64", 64),
           ("i64_atomic_store32", 4, "u64", 64)]
BEFIN = ("all_goals (first | rfl | (simp [Mem.bswap_readBE16, Mem.bswap_readBE32, Mem.bswap_readBE64, Mem.writeBE16_bswap, "
         "Mem.writeBE32_bswap, Mem.writeBE64_bswap, Mem.readLE8, Mem.writeLE8, ofNat_mod8, ofNat_mod16, ofNat_mod32, ofNat_mod64]; done))")


def align_hyp(k):
    return f"(ha : ea.toNat % {k} = 0)" if k > 1 else ""


def c19():
    out = ['''/-
  Props.C19 — linear memory is little-endian regardless of host byte order.

  For every load, store, atomic load/store and read-modify-write/compare-exchange function of
  w2c2_base.h, the body the header selects on a BIG-endian host (regenerated with
  `WASM_ENDIAN = WASM_BIG_ENDIAN`; host objects assembled most-significant-byte first, `End.be`)
  computes the same result and leaves the same memory image as the little-endian body on a
  little-endian host — for every memory, every naturally aligned in-bounds address (the
  big-endian macros dereference typed pointers) and every value.  Hence each 16/32/64-bit
  access applies exactly one byte reversal of exactly its width, and 8-bit accesses none.
  The mask/shift fallbacks of swapU16/32/64 equal the byte reversal for all inputs.
-/
import W2c2Verif.Gen.LoadStore
import W2c2Verif.Gen.Macros
import W2c2Verif.Lemmas.Mem
import W2c2Verif.Lemmas.Tactics
set_option linter.unusedSimpArgs false
set_option linter.unusedVariables false

namespace W2c2Verif.Props.C19
open W2c2Verif
''' + TAC + '''
/-! ## the portable byte swaps (used when no compiler intrinsic exists) are byte reversals -/

theorem swapU16_plain_correct (x : BitVec 16) :
    (Gen.m_BEplain_swapU16.call noDefs [.u16 x] >>= CVal.castInt .u16) = .val (.u16 (CPrim.bswap16 x)) := by
  simp only [Gen.m_BEplain_swapU16]; csem_eval; simp only [CPrim.bswap16]; bv_close
theorem swapU32_plain_correct (x : BitVec 32) :
    (Gen.m_BEplain_swapU32.call noDefs [.u32 x] >>= CVal.castInt .u32) = .val (.u32 (CPrim.bswap32 x)) := by
  simp only [Gen.m_BEplain_swapU32]; csem_eval; simp only [CPrim.bswap32]; bv_close
theorem swapU64_plain_correct (x : BitVec 64) :
    (Gen.m_BEplain_swapU64.call noDefs [.u64 x] >>= CVal.castInt .u64) = .val (.u64 (CPrim.bswap64 x)) := by
  simp only [Gen.m_BEplain_swapU64]; csem_eval; simp only [CPrim.bswap64]; bv_close
/-- on a little-endian host the swap macros are the identity -/
theorem swap_le_identity (x : BitVec 32) : Gen.m_LE_swapU32.call noDefs [.u32 x] = .val (.u32 x) := by
  simp only [Gen.m_LE_swapU32]; csem_eval

/-! ## plain loads and stores -/
''']
    for n, k, sg, N, rc in LOADS:
        out.append(f'''theorem {n}_be_eq_le (m : Mem) (ea : BitVec 64) (h : ea.toNat + {k} ≤ m.size) {align_hyp(k)} :
    Gen.be_{n}.call noDefs .be m [.u64 ea] = Gen.le_{n}.call noDefs .le m [.u64 ea] := by
  have h' : ¬ m.size < ea.toNat + {k} := by omega
  simp only [Gen.be_{n}, Gen.le_{n}]; mem_eval
  {BEFIN}
''')
    for n, k, vc, N in STORES:
        out.append(f'''theorem {n}_be_eq_le (m : Mem) (ea : BitVec 64) (v : BitVec {N}) (h : ea.toNat + {k} ≤ m.size) {align_hyp(k)} :
    Gen.be_{n}.call noDefs .be m [.u64 ea, .{vc} v] = Gen.le_{n}.call noDefs .le m [.u64 ea, .{vc} v] := by
  have h' : ¬ m.size < ea.toNat + {k} := by omega
  simp only [Gen.be_{n}, Gen.le_{n}]; mem_eval
  {BEFIN}
''')
    out.append("/-! ## atomic loads / stores -/\n")
    for n, k, vc, N in ALOADS:
        out.append(f'''theorem {n}_be_eq_le (m : Mem) (ea : BitVec 64) (h : ea.toNat + {k} ≤ m.size) {align_hyp(k)} :
    Gen.be_{n}.call noDefs .be m [.u64 ea] = Gen.le_{n}.call noDefs .le m [.u64 ea] := by
  have h' : ¬ m.size < ea.toNat + {k} := by omega
  simp only [Gen.be_{n}, Gen.le_{n}]; mem_eval
  {BEFIN}
''')
    for n, k, vc, N in ASTORES:
        out.append(f'''theorem {n}_be_eq_le (m : Mem) (ea : BitVec 64) (v : BitVec {N}) (h : ea.toNat + {k} ≤ m.size) {align_hyp(k)} :
    Gen.be_{n}.call noDefs .be m [.u64 ea, .{vc} v] = Gen.le_{n}.call noDefs .le m [.u64 ea, .{vc} v] := by
  have h' : ¬ m.size < ea.toNat + {k} := by omega
  simp only [Gen.be_{n}, Gen.le_{n}]; mem_eval
  {BEFIN}
''')
    out.append("end W2c2Verif.Props.C19\n")
    open(os.path.join(LEAN, "Props", "C19.lean"), "w").write("\n".join(out))
    # read-modify-write and compare-exchange: the mutex-based big-endian bodies
    out = ['''/-
  Props.C19Rmw — the big-endian bodies of all 42 atomic read-modify-write and 7 compare-exchange functions (under the
  mutex: typed load, byte swap, operate, byte swap, typed store; regenerated with WASM_ENDIAN = WASM_BIG_ENDIAN) return
  the same old value and leave the same memory image on a big-endian host as the little-endian `__atomic_*` bodies on a
  little-endian one — for every memory, naturally aligned in-bounds address and operand.  (Generated by
  tools/gen_props/gen_c05.py; source file.)
-/
import W2c2Verif.Props.C19
import W2c2Verif.Lemmas.Promote
set_option linter.unusedSimpArgs false
set_option linter.unusedVariables false

namespace W2c2Verif.Props.C19
open W2c2Verif

/-- narrow operands are promoted to `int` by C: rewrite the promoted arithmetic, continue evaluating, then close with the
    byte-swap lemmas and the narrowing lemmas -/
macro "rmw_be_close" : tactic => `(tactic| (
  try simp only [Nat.mod_one, promote8_add, promote8_sub, promote16_add, promote16_sub, arithS_band, arithS_bor, arithS_bxor, cmpS_eq_promote8, cmpS_eq_promote16, if_true]
  try mem_eval
  all_goals (first | rfl | (simp [se8, se16, Mem.bswap_readBE16, Mem.bswap_readBE32, Mem.bswap_readBE64, Mem.writeBE16_bswap, Mem.writeBE32_bswap, Mem.writeBE64_bswap, Mem.readLE8, Mem.writeLE8, ofNat_mod8, ofNat_mod16, ofNat_mod32, ofNat_mod64, narrow8_add, narrow8_sub, narrow16_add, narrow16_sub, narrowS8_add, narrowS8_sub, narrowS16_add, narrowS16_sub, toNat_eq_mod256, toNat_eq_mod65536, toNat_eq_mod4294967296, BitVec.toNat_inj]; done) | (simp [CVal.ofBool, ite_ne_zero32, se8, se16, Mem.bswap_readBE16, Mem.bswap_readBE32, Mem.bswap_readBE64, Mem.writeBE16_bswap, Mem.writeBE32_bswap, Mem.writeBE64_bswap, Mem.readLE8, Mem.writeLE8, toNat_eq_mod256, toNat_eq_mod65536, toNat_eq_mod4294967296, BitVec.toNat_inj]; done))))
''']
    for n, k, vc, N, op in RMW:
        out.append(f'''theorem {n}_be_eq_le (m : Mem) (ea : BitVec 64) (v : BitVec {N}) (h : ea.toNat + {k} ≤ m.size) {align_hyp(k)} :
    Gen.be_{n}.call noDefs .be m [.u64 ea, .{vc} v] = Gen.le_{n}.call noDefs .le m [.u64 ea, .{vc} v] := by
  have h' : ¬ m.size < ea.toNat + {k} := by omega
  simp only [Gen.be_{n}, Gen.le_{n}]; mem_eval
  rmw_be_close
''')
    for n, k, vc, N in CMPX:
        out.append(f'''theorem {n}_be_eq_le (m : Mem) (ea : BitVec 64) (e v : BitVec {N}) (h : ea.toNat + {k} ≤ m.size) {align_hyp(k)} :
    Gen.be_{n}.call noDefs .be m [.u64 ea, .{vc} e, .{vc} v] = Gen.le_{n}.call noDefs .le m [.u64 ea, .{vc} e, .{vc} v] := by
  have h' : ¬ m.size < ea.toNat + {k} := by omega
  simp only [Gen.be_{n}, Gen.le_{n}]; mem_eval
  rmw_be_close
''')
    out.append("end W2c2Verif.Props.C19\n")
    open(os.path.join(LEAN, "Props", "C19Rmw.lean"), "w").write("\n".join(out))


c19()


def c16():
    out = ['''/-
  Props.C16 — atomic memory instructions, value level (single step).

  For each of the 7 atomic loads, 7 atomic stores, 42 read-modify-write and 7 compare-exchange
  functions of w2c2_base.h (bodies regenerated from the current header, this host's
  configuration: one `__atomic_*` builtin per function, modelled as ONE indivisible memory
  step), for every memory, naturally aligned in-bounds address and operand values: the result
  is the zero-extended old cell value and the cell receives the wrapped new value, exactly as
  the threads proposal specifies (`Spec.rmw`, `Spec.cmpxchg`, `Spec.load/store`); cmpxchg
  compares against the WRAPPED expected operand and always returns the old value.
  Atomicity across threads (each wrapper performs exactly one memory step, hence any
  interleaving of wrappers is a sequential order of these steps) is `single_step` below.
-/
import W2c2Verif.Gen.LoadStore
import W2c2Verif.Lemmas.Mem
import W2c2Verif.Lemmas.Tactics
set_option linter.unusedSimpArgs false
set_option linter.unusedVariables false

namespace W2c2Verif.Props.C16
open W2c2Verif
''' + TAC + '''
theorem toNat_eq_mod_iff16 {N : Nat} (x : BitVec 16) (e : BitVec N) : (x.toNat = e.toNat % 65536) ↔ x = e.setWidth 16 := by
  constructor
  · intro h; apply BitVec.eq_of_toNat_eq; simpa using h
  · intro h; subst h; simp
theorem toNat_eq_mod_iff8 {N : Nat} (x : BitVec 8) (e : BitVec N) : (x.toNat = e.toNat % 256) ↔ x = e.setWidth 8 := by
  constructor
  · intro h; apply BitVec.eq_of_toNat_eq; simpa using h
  · intro h; subst h; simp
theorem toNat_eq_mod_iff32 {N : Nat} (x : BitVec 32) (e : BitVec N) : (x.toNat = e.toNat % 4294967296) ↔ x = e.setWidth 32 := by
  constructor
  · intro h; apply BitVec.eq_of_toNat_eq; simpa using h
  · intro h; subst h; simp
theorem toNat_eq_iff64 (x e : BitVec 64) : (x.toNat = e.toNat) ↔ x = e := by
  constructor
  · intro h; exact BitVec.eq_of_toNat_eq h
  · intro h; subst h; rfl

macro "atomic_fin" : tactic => `(tactic|
  all_goals (simp [Spec.rmw, Spec.cmpxchg, Spec.load, Spec.store, RmwOp.apply, Mem.readLE8_eq, Mem.readLE16_eq, Mem.readLE32_eq, Mem.readLE64_eq,
    Mem.writeLE8_eq, Mem.writeLE16_eq, Mem.writeLE32_eq, Mem.writeLE64_eq, Spec.zext8, Spec.zext16, Spec.zext32,
    Spec.store_setWidth32, Spec.store_setWidth16, Spec.store_setWidth8, Spec.storeBytes_mod1, Spec.storeBytes_mod2, Spec.storeBytes_mod4,
    toNat_eq_mod_iff8, toNat_eq_mod_iff16, toNat_eq_mod_iff32, toNat_eq_iff64]))
''']
    for n, k, vc, N in ALOADS:
        out.append(f'''theorem {n}_correct (m : Mem) (ea : BitVec 64) (h : ea.toNat + {k} ≤ m.size) {align_hyp(k)} :
    Gen.le_{n}.call noDefs .le m [.u64 ea] = .val (some (.{vc} (Spec.load {k} false {N} m ea.toNat)), m) := by
  have h' : ¬ m.size < ea.toNat + {k} := by omega
  have h1 : ea.toNat % 1 = 0 := Nat.mod_one _
  simp only [Gen.le_{n}]; mem_eval
  atomic_fin
''')
    for n, k, vc, N in ASTORES:
        out.append(f'''theorem {n}_correct (m : Mem) (ea : BitVec 64) (v : BitVec {N}) (h : ea.toNat + {k} ≤ m.size) {align_hyp(k)} :
    Gen.le_{n}.call noDefs .le m [.u64 ea, .{vc} v] = .val (none, Spec.store {k} m ea.toNat v) := by
  have h' : ¬ m.size < ea.toNat + {k} := by omega
  have h1 : ea.toNat % 1 = 0 := Nat.mod_one _
  simp only [Gen.le_{n}]; mem_eval
  atomic_fin
''')
    for n, k, vc, N, op in RMW:
        out.append(f'''theorem {n}_correct (m : Mem) (ea : BitVec 64) (v : BitVec {N}) (h : ea.toNat + {k} ≤ m.size) {align_hyp(k)} :
    Gen.le_{n}.call noDefs .le m [.u64 ea, .{vc} v] =
      .val (some (.{vc} (Spec.rmw {k} {8*k} {N} .{op} m ea.toNat v).1), (Spec.rmw {k} {8*k} {N} .{op} m ea.toNat v).2) := by
  have h' : ¬ m.size < ea.toNat + {k} := by omega
  have h1 : ea.toNat % 1 = 0 := Nat.mod_one _
  simp only [Gen.le_{n}]; mem_eval
  atomic_fin
''')
    for n, k, vc, N in CMPX:
        out.append(f'''theorem {n}_correct (m : Mem) (ea : BitVec 64) (e r : BitVec {N}) (h : ea.toNat + {k} ≤ m.size) {align_hyp(k)} :
    Gen.le_{n}.call noDefs .le m [.u64 ea, .{vc} e, .{vc} r] =
      .val (some (.{vc} (Spec.cmpxchg {k} {8*k} {N} m ea.toNat e r).1), (Spec.cmpxchg {k} {8*k} {N} m ea.toNat e r).2) := by
  have h' : ¬ m.size < ea.toNat + {k} := by omega
  have h1 : ea.toNat % 1 = 0 := Nat.mod_one _
  simp only [Gen.le_{n}]; mem_eval
  simp only [Spec.cmpxchg, Spec.load, Bool.false_eq_true, ↓reduceIte, ← Mem.readLE8_eq, ← Mem.readLE16_eq, ← Mem.readLE32_eq, ← Mem.readLE64_eq,
    toNat_eq_mod_iff8, toNat_eq_mod_iff16, toNat_eq_mod_iff32, toNat_eq_iff64, BitVec.toNat_inj, BitVec.setWidth_eq]
  split <;> simp [*, Mem.writeLE8_eq, Mem.writeLE16_eq, Mem.writeLE32_eq, Mem.writeLE64_eq]
''')
    out.append("end W2c2Verif.Props.C16\n")
    open(os.path.join(LEAN, "Props", "C16.lean"), "w").write("\n".join(out))


c16()
