#!/usr/bin/env python3
"""Writes lean/W2c2Verif/Props/C01Ops.lean (one theorem per integer opcode).  The theorems are
source (committed, hand-reviewed); this script only avoids typing 70 near-identical statements."""
import os, sys
sys.path.insert(0, os.path.join(os.path.dirname(os.path.abspath(__file__)), "..", "harness"))
import opmods

HEAD = '''/-
  Props.C01Ops — C01 part B: for EVERY integer opcode, the statement that w2c2 emits for it
  (model `Model.numEmit` of the emitters of c.c, driven by the dispatch table `Gen.emitTable`
  regenerated from the current c.c, with header macros from `Gen.Macros`), executed by the C
  semantics on arbitrary operand values held in the operand-stack slot variables, leaves in
  the result slot exactly the value (or enters the trap handler with exactly the code) that
  the WebAssembly specification (`Spec.Int`) prescribes.  All 2^32 / 2^64 values per operand.
-/
import W2c2Verif.Lemmas.NumEval

namespace W2c2Verif.Props.C01
open W2c2Verif

'''

SPEC = {"eqz": "ieqz", "eq": "ieq", "ne": "ine", "lt_s": "ilt_s", "lt_u": "ilt_u", "gt_s": "igt_s", "gt_u": "igt_u",
        "le_s": "ile_s", "le_u": "ile_u", "ge_s": "ige_s", "ge_u": "ige_u", "clz": "iclz", "ctz": "ictz",
        "popcnt": "ipopcnt", "add": "iadd", "sub": "isub", "mul": "imul", "div_s": "idiv_s", "div_u": "idiv_u",
        "rem_s": "irem_s", "rem_u": "irem_u", "and": "iand", "or": "ior", "xor": "ixor", "shl": "ishl",
        "shr_s": "ishr_s", "shr_u": "ishr_u", "rotl": "irotl", "rotr": "irotr"}
TRAPPING = {"div_s", "div_u", "rem_s", "rem_u"}
CMP = {"eqz", "eq", "ne", "lt_s", "lt_u", "gt_s", "gt_u", "le_s", "le_u", "ge_s", "ge_u"}
CT = {"i32": "u32", "i64": "u64"}
W = {"i32": 32, "i64": 64}

def main():
    out = [HEAD]
    for name, mn, params, res in opmods.numeric_ops():
        if not opmods.is_int_op((name, mn, params, res)):
            continue
        t, op = mn.split(".")
        vars_ = ["x", "y"][:len(params)]
        binders = " ".join(f"({v} : BitVec {W[p]})" for v, p in zip(vars_, params))
        args = ", ".join(f"(.{p}, .{CT[p]} {v})" for v, p in zip(vars_, params))
        thm = "op_" + mn.replace(".", "_")
        if op in SPEC:
            sf = f"Spec.{SPEC[op]} " + " ".join(vars_)
        elif op == "wrap_i64":
            sf = "Spec.wrap_i64 x"
        elif op == "extend_i32_s":
            sf = "Spec.extend_i32_s x"
        elif op == "extend_i32_u":
            sf = "Spec.extend_i32_u x"
        elif op.startswith("extend") and op.endswith("_s"):
            sf = f"Spec.iextend_s {op[6:-2]} x"
        else:
            raise SystemExit("no spec for " + mn)
        rc = CT[res]
        if op in TRAPPING:
            rhs = f"({sf}).map' .{rc}"
            fin = f"cases {sf} <;> simp [CVal.fromNat, Env.get]"
        else:
            rhs = f".val (.{rc} ({sf}))"
            if op in CMP:
                fin = ("all_goals (simp [Spec.bool32, Spec.ieqz_eq, Spec.ieq_eq, Spec.ine_eq, Spec.ilt_s_eq, Spec.ilt_u_eq, Spec.igt_s_eq, Spec.igt_u_eq, "
                       "Spec.ile_s_eq, Spec.ile_u_eq, Spec.ige_s_eq, Spec.ige_u_eq]; try (split <;> rfl))")
            elif op in ("shl", "shr_s", "shr_u"):
                fin = f"all_goals (simp only [Spec.{SPEC[op]}_eq{W[t]}]; bv_close)"
            elif op in ("clz", "ctz", "popcnt"):
                fin = "all_goals (first | rfl | bv_close)"
            else:
                fin = "all_goals first | rfl | (simp [Spec.iadd, Spec.isub, Spec.imul, Spec.iand, Spec.ior, Spec.ixor, Spec.wrap_i64, Spec.extend_i32_s, Spec.extend_i32_u, Spec.iextend_s]; done) | bv_close | (simp only [Spec.wrap_i64, Spec.extend_i32_s, Spec.extend_i32_u, Spec.iextend_s]; bv_close)"
        out.append(f"set_option maxRecDepth 8192 in\ntheorem {thm} {binders} :\n    Model.runNumeric macroDefs \"{name}\" [{args}] = {rhs} := by\n  num_unfold; num_eval\n  {fin}\n")
    out.append("end W2c2Verif.Props.C01\n")
    path = os.path.join(os.path.dirname(os.path.abspath(__file__)), "..", "..", "lean", "W2c2Verif", "Props", "C01Ops.lean")
    open(path, "w").write("\n".join(out))

main()
