#!/usr/bin/env python3
"""Writes lean/W2c2Verif/Props/C02Ops.lean (one theorem per float / conversion opcode)."""
import os, sys
sys.path.insert(0, os.path.join(os.path.dirname(os.path.abspath(__file__)), "..", "harness"))
import opmods

HEAD = '''/-
  Props.C02Ops — for EVERY floating-point and conversion opcode, the statement w2c2 emits
  (model `Model.numEmit` over the regenerated dispatch table), executed by the C semantics on
  arbitrary operand bit patterns, computes exactly the operator the WebAssembly specification
  names: the right IEEE operation (`SF.*`, the exact soft-float that stands for the CPU/libm —
  see the trusted base), operand order, cast chain (signedness and width) and rounding
  function; bit-preserving instructions (neg, abs, copysign, reinterpret) act on the bit
  pattern, so NaN payloads survive.  Trapping / saturating truncations reduce to the header
  macros, whose behaviour is the subject of Props.C02 / C02Guards.
-/
import W2c2Verif.Lemmas.NumEval
import W2c2Verif.Props.C02

namespace W2c2Verif.Props.C02
open W2c2Verif W2c2Verif.Props.C01

macro "fl_eval" : tactic => `(tactic|
  simp +decide [CExpr.eval, CExpr.typeOf, CStmt.exec_seq, CStmt.exec_skip, CStmt.exec_decl,
        CStmt.exec_assign, CStmt.exec_opAssign, CStmt.exec_ifThen, CStmt.exec_ret, Env.get, Env.set,
        CVal.fromNat, CVal.fromInt, CVal.binop, CVal.unop, CTy.common, CTy.promote, CVal.ty,
        CPrim.cmpF, CPrim.arithF, BinOp.isCmp, Out.map', Out.ite_bind, builtin1, builtin2, signbitSem,
        macroDefs, defsOfMacros, lookupAssoc, Gen.macrosLE, Spec.bool32, Spec.b32, Spec.b64,
        fmin32_correct, fmin64_correct, fmax32_correct, fmax64_correct])

'''
W = {"i32": 32, "i64": 64, "f32": 32, "f64": 64}
CT = {"i32": "u32", "i64": "u64", "f32": "f32", "f64": "f64"}
FM = {"f32": "SF.f32", "f64": "SF.f64"}

def fl(t, e):   # wrap Nat-valued soft-float result as CVal
    return f".val (.{t} (BitVec.ofNat {W[t]} ({e})))"

def main():
    out = [HEAD]
    for name, mn, params, res in opmods.numeric_ops():
        if opmods.is_int_op((name, mn, params, res)):
            continue
        t, op = mn.split(".")
        vs = ["x", "y"][:len(params)]
        binders = " ".join(f"({v} : BitVec {W[p]})" for v, p in zip(vs, params))
        args = ", ".join(f"(.{p}, .{CT[p]} {v})" for v, p in zip(vs, params))
        thm = "op_" + mn.replace(".", "_")
        p0 = params[0]
        fin = "all_goals (first | rfl | (simp; done) | (split <;> simp_all))"
        if op in ("eq", "ne", "lt", "gt", "le", "ge"):
            f = {"eq": "SF.eq", "lt": "SF.lt", "gt": "SF.gt", "le": "SF.le", "ge": "SF.ge"}.get(op)
            e = f"{f} {FM[t]} x.toNat y.toNat" if f else f"!SF.eq {FM[t]} x.toNat y.toNat"
            rhs = f".val (.u32 (Spec.bool32 ({e})))"
        elif op in ("abs", "neg", "sqrt"):
            rhs = fl(t, f"SF.{op} {FM[t]} x.toNat")
        elif op in ("ceil", "floor", "trunc", "nearest"):
            mode = {"trunc": 0, "floor": 1, "ceil": 2, "nearest": 3}[op]
            rhs = fl(t, f"SF.rint {FM[t]} {mode} x.toNat")
        elif op in ("add", "sub", "mul", "div", "copysign"):
            rhs = fl(t, f"SF.{op} {FM[t]} x.toNat y.toNat")
        elif op in ("min", "max"):
            rhs = fl(t, f"SF.f{op} {FM[t]} x.toNat y.toNat")
        elif op.startswith("convert_"):
            signed = op.endswith("_s")
            rhs = fl(t, f"SF.ofInt {FM[t]} x.{'toInt' if signed else 'toNat'}")
        elif op == "demote_f64":
            rhs = fl("f32", "SF.convert SF.f64 SF.f32 x.toNat")
        elif op == "promote_f32":
            rhs = fl("f64", "SF.convert SF.f32 SF.f64 x.toNat")
        elif op.startswith("reinterpret_"):
            rhs = f".val (.{CT[res]} x)"
        elif op.startswith("trunc_sat_") or op.startswith("trunc_"):
            sat = op.startswith("trunc_sat_")
            rest = op[len("trunc_sat_"):] if sat else op[len("trunc_"):]
            ft, sg = rest.split("_")
            macro = f"{t.upper()}_TRUNC_{'SAT_' if sat else ''}{sg.upper()}_{ft.upper()}"
            rhs = f"(Gen.m_{macro}.call noDefs [.{ft} x] >>= CVal.castInt .{CT[res]})"
            fin = "all_goals (first | rfl | (simp [CMacro.call]; done) | (cases h : CMacro.call noDefs Gen.m_%s [CVal.%s x] <;> simp <;> (rename_i a; cases hc : CVal.castInt CTy.%s a <;> simp [Env.get])))" % (macro, ft, CT[res])
        else:
            raise SystemExit("no spec for " + mn)
        out.append(f"set_option maxRecDepth 8192 in\ntheorem {thm} {binders} :\n    Model.runNumeric macroDefs \"{name}\" [{args}] = {rhs} := by\n  num_unfold; fl_eval\n  {fin}\n")
    out.append("end W2c2Verif.Props.C02\n")
    path = os.path.join(os.path.dirname(os.path.abspath(__file__)), "..", "..", "lean", "W2c2Verif", "Props", "C02Ops.lean")
    open(path, "w").write("\n".join(out))

main()
