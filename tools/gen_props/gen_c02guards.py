#!/usr/bin/env python3
"""Writes lean/W2c2Verif/Props/C02Guards.lean: exactness of the range guards of the 8 trapping float-to-int
truncation macros (source file, committed; the script only avoids typing 8 near-identical proofs)."""
import os
HERE = os.path.dirname(os.path.abspath(__file__))
OUT = os.path.join(HERE, "..", "..", "lean", "W2c2Verif", "Props", "C02Guards.lean")

HEAD = '''/-
  Props.C02Guards — `trunc_guard_exact`: for ALL operand bit patterns each trapping truncation macro of
  w2c2_base.h (regenerated) equals the specification's trunc: NaN → invalid-conversion trap; a value whose
  truncation toward zero is not representable (incl. ±∞) → integer-overflow trap; otherwise the truncated
  integer — in particular the C cast is only ever evaluated on operands for which it is defined (no UB).
  The guards compare with the constants the macros name ((F32)INT32_MIN, 2147483648.f, -2147483649., …);
  the proof uses that these are integers (`Lemmas/Trunc.lean`) and, where the lower guard is `>=`, that the
  format has no value strictly between −2^k−1 and −2^k (mantissa shorter than k bits).
-/
import W2c2Verif.Props.C02
import W2c2Verif.Lemmas.TruncGuard
import W2c2Verif.Spec.Num

namespace W2c2Verif.Props.C02
open W2c2Verif

'''

# (macro, fmt, W, cty of cast, result ctor, N, signed, lower op, cmin term, (n,g,k) of cmin, cmax term, (n,g,k) of cmax)
P32 = "4294967296"
P64 = "18446744073709551616"
ROWS = [
    ("I32_TRUNC_S_F32", "f32", 32, "i32", "u32", 32, True, "ge", f"(SF.ofInt SF.f32 (-2147483648) % {P32})", (1, 31, 23), "1325400064", (1, 31, 23)),
    ("I64_TRUNC_S_F32", "f32", 32, "i64", "u64", 64, True, "ge", f"(SF.ofInt SF.f32 (-9223372036854775808) % {P32})", (1, 63, 23), f"(SF.ofInt SF.f32 9223372036854775807 % {P32})", (1, 63, 23)),
    ("I32_TRUNC_S_F64", "f64", 64, "i32", "u32", 32, True, "gt", f"(SF.neg SF.f64 4746794007250599936 % {P64})", (2147483649, 0, 21), "4746794007248502784", (1, 31, 52)),
    ("I64_TRUNC_S_F64", "f64", 64, "i64", "u64", 64, True, "ge", f"(SF.ofInt SF.f64 (-9223372036854775808) % {P64})", (1, 63, 52), f"(SF.ofInt SF.f64 9223372036854775807 % {P64})", (1, 63, 52)),
    ("I32_TRUNC_U_F32", "f32", 32, "u32", "u32", 32, False, "gt", f"(SF.ofInt SF.f32 (-1) % {P32})", (1, 0, 23), "1333788672", (1, 32, 23)),
    ("I64_TRUNC_U_F32", "f32", 32, "u64", "u64", 64, False, "gt", f"(SF.ofInt SF.f32 (-1) % {P32})", (1, 0, 23), f"(SF.ofInt SF.f32 18446744073709551615 % {P32})", (1, 64, 23)),
    ("I32_TRUNC_U_F64", "f64", 64, "u32", "u32", 32, False, "gt", f"(SF.ofInt SF.f64 (-1) % {P64})", (1, 0, 52), "4751297606875873280", (1, 32, 52)),
    ("I64_TRUNC_U_F64", "f64", 64, "u64", "u64", 64, False, "gt", f"(SF.ofInt SF.f64 (-1) % {P64})", (1, 0, 52), f"(SF.ofInt SF.f64 18446744073709551615 % {P64})", (1, 64, 52)),
]


def main():
    out = [HEAD]
    for (mac, fmt, W, cty, rc, N, signed, lop, cmin, (n1, g1, k1), cmax, (n2, g2, k2)) in ROWS:
        low = mac.lower()
        nlo = n1 << g1
        nhi = n2 << g2
        lo = -(1 << (N - 1)) if signed else 0
        hi = (1 << (N - 1)) - 1 if signed else (1 << N) - 1
        lower_lemma = "SF.ge_negconst'" if lop == "ge" else "SF.gt_negconst'"
        lower_inf = "SF.ge_inf" if lop == "ge" else "SF.gt_inf"
        lower_extra = " (by decide)" if lop == "ge" else ""
        lower_rel = f"-{nlo} ≤ t" if lop == "ge" else f"-{nlo} < t"
        out.append(f'''theorem cmin_{low} : SF.decode SF.{fmt} {cmin} = .fin true ({n1} <<< {k1}) ({g1} - {k1}) := by decide
theorem cmax_{low} : SF.decode SF.{fmt} {cmax} = .fin false ({n2} <<< {k2}) ({g2} - {k2}) := by decide

theorem {low}_exact (x : BitVec {W}) :
    Gen.m_{mac}.call noDefs [.{fmt} x] = (Spec.truncTrap SF.{fmt} {N} {"true" if signed else "false"} x.toNat).map' CVal.{rc} := by
  by_cases hnan : SF.isNaN SF.{fmt} x.toNat = true
  · rw [{low}_nan x hnan]; simp [Spec.truncTrap, hnan, Out.map']
  · have hnan' : SF.isNaN SF.{fmt} x.toNat = false := by simpa using hnan
    simp only [Gen.m_{mac}]; csem_eval
    simp only [CPrim.cmpF, SF.eq_self, hnan', Spec.truncTrap]
    cases hd : SF.decode SF.{fmt} x.toNat with
    | nan => exact absurd ((SF.isNaN_iff_decode _ _).mpr hd) hnan
    | inf s =>
      have h1 := {lower_inf} hd cmin_{low}
      have h2 := SF.lt_inf hd cmax_{low}
      simp [h1, h2, SF.truncToInt, hd, Out.map']
      cases s <;> simp
    | fin s m e =>
      have h1 := {lower_lemma} hd cmin_{low} (by decide) (by decide){lower_extra}
      have h2 := SF.lt_posconst' hd cmax_{low} (by decide) (by decide)
      have ht := SF.truncToInt_fin hd
      simp only [ht]
      have hN1 : (({n1} <<< Int.toNat {g1} : Nat) : Int) = {nlo} := by decide
      have hN2 : (({n2} <<< Int.toNat {g2} : Nat) : Int) = {nhi} := by decide
      rw [hN1] at h1
      rw [hN2] at h2
      generalize SF.tval s (SF.truncMag m e) = t at *
      by_cases hlo : SF.{lop} SF.{fmt} x.toNat {cmin} = true
      · by_cases hlt : SF.lt SF.{fmt} x.toNat {cmax} = true
        · have b1 := h1.mp hlo
          have b2 := h2.mp hlt
          have hr : ({lo} : Int) ≤ t ∧ t ≤ {hi} := by omega
          simp [hlo, hlt, CVal.fromFloat, ht, CVal.tyRange, hr, CVal.ofIntTy, Out.map', CVal.fromInt, CVal.fromNat]
        · have b2 : ¬ t < {nhi} := fun h => hlt (h2.mpr h)
          simp only [hlo, hlt, if_true, if_false, Out.map', Bool.false_eq_true, Bool.not_false, Bool.not_true]
          split <;> first | rfl | (exfalso; omega)
      · have b1 : ¬ ({lower_rel}) := fun h => hlo (h1.mpr h)
        simp only [hlo, if_false, if_true, Out.map', Bool.false_eq_true, Bool.not_false, Bool.not_true]
        split <;> first | rfl | (exfalso; omega)
''')
    for (mac, fmt, W, cty, rc, N, signed, lop, cmin, (n1, g1, k1), cmax, (n2, g2, k2)) in ROWS:
        smac = mac.replace("TRUNC_", "TRUNC_SAT_")
        low = smac.lower()
        tlow = mac.lower()
        nlo = n1 << g1
        nhi = n2 << g2
        lo = -(1 << (N - 1)) if signed else 0
        hi = (1 << (N - 1)) - 1 if signed else (1 << N) - 1
        lower_lemma = "SF.ge_negconst'" if lop == "ge" else "SF.gt_negconst'"
        lower_inf = "SF.ge_inf" if lop == "ge" else "SF.gt_inf"
        lower_extra = " (by decide)" if lop == "ge" else ""
        lower_rel = f"-{nlo} ≤ t" if lop == "ge" else f"-{nlo} < t"
        out.append(f'''theorem {low}_exact (x : BitVec {W}) :
    (Gen.m_{smac}.call noDefs [.{fmt} x] >>= CVal.castInt .{rc}) = .val (.{rc} (Spec.truncSat SF.{fmt} {N} {"true" if signed else "false"} x.toNat)) := by
  by_cases hnan : SF.isNaN SF.{fmt} x.toNat = true
  · rw [{low}_nan x hnan]; simp [Spec.truncSat, hnan]
  · have hnan' : SF.isNaN SF.{fmt} x.toNat = false := by simpa using hnan
    simp only [Gen.m_{smac}]; csem_eval
    simp only [CPrim.cmpF, SF.eq_self, hnan', Spec.truncSat]
    cases hd : SF.decode SF.{fmt} x.toNat with
    | nan => exact absurd ((SF.isNaN_iff_decode _ _).mpr hd) hnan
    | inf s =>
      have h1 := {lower_inf} hd cmin_{tlow}
      have h2 := SF.lt_inf hd cmax_{tlow}
      cases s <;> simp [h1, h2] <;> decide
    | fin s m e =>
      have h1 := {lower_lemma} hd cmin_{tlow} (by decide) (by decide){lower_extra}
      have h2 := SF.lt_posconst' hd cmax_{tlow} (by decide) (by decide)
      have ht := SF.truncToInt_fin hd
      simp only [ht]
      have hN1 : (({n1} <<< Int.toNat {g1} : Nat) : Int) = {nlo} := by decide
      have hN2 : (({n2} <<< Int.toNat {g2} : Nat) : Int) = {nhi} := by decide
      rw [hN1] at h1
      rw [hN2] at h2
      generalize SF.tval s (SF.truncMag m e) = t at *
      by_cases hlo : SF.{lop} SF.{fmt} x.toNat {cmin} = true
      · by_cases hlt : SF.lt SF.{fmt} x.toNat {cmax} = true
        · have b1 := h1.mp hlo
          have b2 := h2.mp hlt
          have hr : ({lo} : Int) ≤ t ∧ t ≤ {hi} := by omega
          have c1 : ¬ t < {lo} := by omega
          have c2 : ¬ t > {hi} := by omega
          simp [hlo, hlt, CVal.fromFloat, ht, CVal.tyRange, hr, CVal.ofIntTy, CVal.fromInt, CVal.fromNat, c1, c2]
        · have b1 := h1.mp hlo
          have b2 : ¬ t < {nhi} := fun h => hlt (h2.mpr h)
          have c1 : ¬ t < {lo} := by omega
          have c2 : t > {hi} := by omega
          simp [hlo, hlt, c1, c2]
          try decide
      · have b1 : ¬ ({lower_rel}) := fun h => hlo (h1.mpr h)
        have c1 : t < {lo} := by omega
        simp [hlo, c1]
        try decide
''')
    out.append('''/-- non-vacuity: both sides of every boundary -/
example : Gen.m_I32_TRUNC_S_F32.call noDefs [.f32 0xcf000000] = .val (.u32 0x80000000) ∧      -- −2^31 → INT_MIN
          Gen.m_I32_TRUNC_S_F32.call noDefs [.f32 0x4f000000] = .trap .intOverflow ∧          -- 2^31 traps
          Gen.m_I32_TRUNC_U_F32.call noDefs [.f32 0xbf7fffff] = .val (.u32 0) ∧               -- −0.99999994 → 0
          Gen.m_I32_TRUNC_U_F32.call noDefs [.f32 0xbf800000] = .trap .intOverflow := by      -- −1 traps
  refine ⟨?_, ?_, ?_, ?_⟩
  · rw [i32_trunc_s_f32_exact]; decide
  · rw [i32_trunc_s_f32_exact]; decide
  · rw [i32_trunc_u_f32_exact]; decide
  · rw [i32_trunc_u_f32_exact]; decide
''')
    out.append("end W2c2Verif.Props.C02\n")
    open(OUT, "w").write("\n".join(out))
    print(len(ROWS), "guard theorems")


main()
