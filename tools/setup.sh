#!/bin/bash
# Build the framework from files on disk only (offline).  Run in /verif.
cd "$(dirname "$0")/.."
mkdir -p evidence replays
python3 tools/setup_build.py 2>&1 | tail -25
