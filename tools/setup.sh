#!/bin/bash
# Build the framework from files on disk only (offline).  Run in /verif.
set -e
cd "$(dirname "$0")/.."
mkdir -p evidence replays
# regenerate Gen/*.lean from /repo's current tree, then build every Lean module and the driver
python3 tools/regen_all.py || true
cd lean
lake build driver 2>&1 | tail -3
lake build 2>&1 | tail -5
