#!/usr/bin/env python3
"""setup: regenerate Gen/*, build the drivers and the theorem modules of every claimed check."""
import json, os, sys, subprocess
HERE = os.path.dirname(os.path.abspath(__file__))
sys.path.insert(0, HERE); sys.path.insert(0, os.path.join(HERE, "extract")); sys.path.insert(0, os.path.join(HERE, "checks")); sys.path.insert(0, os.path.join(HERE, "harness"))
import vlib
subprocess.run([sys.executable, os.path.join(HERE, "regen_all.py")])
man = json.load(open(os.path.join(vlib.VERIF, "MANIFEST.json")))
mods = set()
for c in man["checks"]:
    pid = c["property_id"]
    try:
        m = __import__(pid.lower())
    except Exception as e:
        print("cannot import check", pid, e); continue
    for attr in ("MODULES",):
        if hasattr(m, attr):
            mods.update(getattr(m, attr))
    if hasattr(m, "CFG") and pid in getattr(m, "CFG") and isinstance(m.CFG[pid], dict) and "modules" in m.CFG[pid]:
        mods.update(m.CFG[pid]["modules"])
try:
    import c01, memcheck
    for k, v in c01.CFG.items(): mods.update(v.get("modules", []))
    for k, v in memcheck.CFG.items(): mods.update(v.get("modules", []))
except Exception as e:
    print("note:", e)
targets = ["driver"] + sorted(mods)
for extra in ("wasidriver", "pathsdriver", "futexdriver", "concdriver", "readerdriver", "filesdriver"):
    root = {"wasidriver": "WasiMain", "pathsdriver": "PathsMain", "futexdriver": "FutexMain", "concdriver": "ConcMain",
            "readerdriver": "ReaderMain", "filesdriver": "FilesMain"}[extra]
    if os.path.exists(os.path.join(vlib.LEAN, "Driver", root + ".lean")):
        targets.append(extra)
print("building", len(targets), "targets")
ok, out = vlib.lake_build(targets, timeout=7200)
print(out[-1500:])
sys.exit(0 if ok else 1)
