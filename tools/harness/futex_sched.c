/* futex_sched.c — the REAL futex.c / list.c / map.c (+ w2c2_base.h, -DWASM_THREADS_PTHREADS) under
 * the deterministic scheduler shim (tools/sched).  Linked with the scratch copy's objects and the
 * shim's --wrap flags; built by tools/harness/futex_sched.py.
 *
 * stdin, one request per line:
 *   seed  <shared> <init> <threads> <seed> <spuriousWeight> <timeoutWeight>
 *   sched <shared> <init> <threads> <token>...            strict prefix, then FIRST policy
 *   loose <shared> <init> <threads> <token>...            same, but tokens that are not enabled are skipped
 *   dfs   <shared> <init> <threads> <depth> <maxSpurious> <maxRuns> <independence>
 * shared  bit 0: mem.shared; bit 1 (value 3): every calloc/malloc of futex.c/map.c/list.c (compiled with
 *         -Dcalloc=fxh_calloc -Dmalloc=fxh_malloc by futex_sched.py) is a scheduling point `alloc` too — a thread can be
 *         suspended INSIDE the critical section of wait (after the comparison, before the map exists / before the enqueue)
 *         while other threads run whatever does not need the mutex.  `al=` lists the indices of the schedule tokens that
 *         resumed a thread from such a point (Model.Futex has no such points: the model replays the schedule without them).
 * init    `-` or `addr:width:value,...`      threads  `ops|ops|...` (threads 1,2,...)
 * ops     `w32:addr:expect:timeout` `w64:addr:expect:timeout` `n:addr:count` `s:addr:width:value`
 *
 * stdout, per execution (seed/sched: one line; dfs: one line per execution, then `done ...`):
 *   sched=<t,t,...> verdict=<ok|deadlock|crash|...> res=<r.r|r|...> st=<fin|blk|...> ev=<inv-resp.inv-x|...> al=<-|i.i...> map=<null|empty|nonempty> san=<none|kind> detail=<...>
 */
#include <stdio.h>
#include <stdlib.h>
#include <string.h>
#include <pthread.h>
#include "detsched.h"
#include "w2c2_base.h"
#include "map.h"

void trap(Trap t) {
    fprintf(stderr, "TRAP %d\n", (int)t);
    fflush(NULL);
    _Exit(77);
}

#define MAX_T 8
#define MAX_OPS 8
#define MEM_SIZE 65536

typedef struct op { char kind; int w64; U32 addr; U64 expect; I64 timeout; U32 count; int width; U64 value; } op;
typedef struct thr { int nops; op ops[MAX_OPS]; int ndone; U32 ret[MAX_OPS]; int ninv; int inv[MAX_OPS]; int resp[MAX_OPS]; } thr;

static thr T[MAX_T];
static int nthr;
static wasmMemory mem;
static int shared_flag;
static int alloc_points;
#define MAX_AL 256
static int al[MAX_AL], nal;

/* allocation calls of the code under test (futex.c / map.c / list.c only) */
static void alloc_point(void) {
    if (!alloc_points || !sched_active()) return;
    sched_point("alloc", &mem.futex);
    if (nal < MAX_AL) al[nal++] = sched_steps() - 1;      /* the choice that resumed this thread */
}
void *fxh_calloc(size_t n, size_t m) { alloc_point(); return (calloc)(n, m); }
void *fxh_malloc(size_t n) { alloc_point(); return (malloc)(n); }
static char init_spec[512];

static int parse_ops(char *s, thr *t) {
    char *save, *p;
    t->nops = 0; t->ndone = 0; t->ninv = 0;
    if (!strcmp(s, "-") || !*s) return 1;
    for (p = strtok_r(s, ",", &save); p; p = strtok_r(NULL, ",", &save)) {
        op *o;
        unsigned long long a, b;
        long long c;
        if (t->nops >= MAX_OPS) return 0;
        o = &t->ops[t->nops++];
        memset(o, 0, sizeof *o);
        if (sscanf(p, "w32:%llu:%llu:%lld", &a, &b, &c) == 3) { o->kind = 'w'; o->w64 = 0; o->addr = (U32)a; o->expect = b; o->timeout = c; }
        else if (sscanf(p, "w64:%llu:%llu:%lld", &a, &b, &c) == 3) { o->kind = 'w'; o->w64 = 1; o->addr = (U32)a; o->expect = b; o->timeout = c; }
        else if (sscanf(p, "n:%llu:%llu", &a, &b) == 2) { o->kind = 'n'; o->addr = (U32)a; o->count = (U32)b; }
        else if (sscanf(p, "s:%llu:%lld:%llu", &a, &c, &b) == 3) { o->kind = 's'; o->addr = (U32)a; o->width = (int)c; o->value = b; }
        else return 0;
    }
    return 1;
}

static int parse_threads(char *s) {
    char *save, *p;
    nthr = 0;
    /* strtok_r would skip empty fields; split by hand */
    p = s;
    for (;;) {
        char *bar = strchr(p, '|');
        if (bar) *bar = 0;
        if (nthr >= MAX_T) return 0;
        if (!parse_ops(p, &T[nthr++])) return 0;
        if (!bar) break;
        p = bar + 1;
    }
    (void)save;
    return 1;
}

static void store_le(U32 addr, int width, U64 v) {
    int i;
    for (i = 0; i < width; i++) mem.data[addr + (U32)i] = (U8)(v >> (8 * i));
}

static void apply_init(void) {
    char buf[512], *save, *p;
    snprintf(buf, sizeof buf, "%s", init_spec);
    if (!strcmp(buf, "-")) return;
    for (p = strtok_r(buf, ",", &save); p; p = strtok_r(NULL, ",", &save)) {
        unsigned long long a, v; int w;
        if (sscanf(p, "%llu:%d:%llu", &a, &w, &v) == 3) store_le((U32)a, w, v);
    }
}

static void *thread_main(void *arg) {
    thr *t = arg;
    int i;
    for (i = 0; i < t->nops; i++) {
        op *o = &t->ops[i];
        U32 r = 0;
        t->inv[i] = sched_steps();          /* invocation / response times in scheduler steps (history oracle) */
        t->ninv = i + 1;
        if (o->kind == 'w') r = wasmMemoryAtomicWait(&mem, o->addr, o->expect, o->timeout, o->w64 ? true : false);
        else if (o->kind == 'n') r = wasmMemoryAtomicNotify(&mem, o->addr, o->count);
        else { sched_point("store", mem.data + o->addr); store_le(o->addr, o->width, o->value); }
        t->ret[i] = r;
        t->resp[i] = sched_steps();
        t->ndone = i + 1;
    }
    return NULL;
}

static void compose_result(void) {
    int i, k, any = 0;
    sched_result("res=");
    for (i = 0; i < nthr; i++) {
        if (i) sched_result("|");
        for (k = 0; k < T[i].ndone; k++) sched_result("%s%u", k ? "." : "", T[i].ret[k]);
    }
    sched_result(" st=");
    for (i = 0; i < nthr; i++) sched_result("%s%s", i ? "|" : "", T[i].ndone == T[i].nops ? "fin" : "blk");
    sched_result(" ev=");
    for (i = 0; i < nthr; i++) {
        if (i) sched_result("|");
        for (k = 0; k < T[i].ninv; k++) {
            if (k < T[i].ndone) sched_result("%s%d-%d", k ? "." : "", T[i].inv[k], T[i].resp[k]);
            else sched_result("%s%d-x", k ? "." : "", T[i].inv[k]);
        }
    }
    sched_result(" al=%s", nal ? "" : "-");
    for (k = 0; k < nal; k++) sched_result("%s%d", k ? "." : "", al[k]);
    if (!mem.futex) sched_result(" map=null");
    else {
        Map *m = (Map *)mem.futex;
        size_t b;
        for (b = 0; b < m->bucketCount; b++) if (m->buckets[b]) any = 1;
        sched_result(" map=%s", any ? "nonempty" : "empty");
    }
}

static void on_abort(int verdict, const char *msg) {
    (void)verdict; (void)msg;
    compose_result();
}

static int scenario(void *arg) {
    pthread_t th[MAX_T];
    int i;
    (void)arg;
    memset(&mem, 0, sizeof mem);
    nal = 0;
    mem.data = calloc(MEM_SIZE, 1);
    mem.size = MEM_SIZE; mem.pages = 1; mem.maxPages = 1;
    mem.shared = shared_flag ? true : false;
    if (!WASM_MUTEX_INIT(&mem.mutex)) return 1;
    apply_init();
    for (i = 0; i < nthr; i++) pthread_create(&th[i], NULL, thread_main, &T[i]);
    for (i = 0; i < nthr; i++) pthread_join(th[i], NULL);
    compose_result();
    return 0;
}

static const char *sanitizer_kind(const char *err) {
    static char kind[64];
    const char *p = strstr(err, "ERROR: AddressSanitizer: ");
    size_t n;
    if (!p) {
        if (strstr(err, "Assertion")) return "assert";
        if (strstr(err, "runtime error")) return "ubsan";
        return "none";
    }
    p += strlen("ERROR: AddressSanitizer: ");
    n = strcspn(p, " \n");
    if (n >= sizeof kind) n = sizeof kind - 1;
    memcpy(kind, p, n); kind[n] = 0;
    return kind;
}

static void print_outcome(const sched_outcome *o) {
    char *s = strdup(o->schedule), *p;
    char detail[160];
    size_t i;
    for (p = s; *p; p++) if (*p == ' ') *p = ',';
    snprintf(detail, sizeof detail, "%s", o->detail);
    for (i = 0; detail[i]; i++) if (detail[i] == ' ' || detail[i] == '\n') detail[i] = '_';
    printf("sched=%s verdict=%s %s san=%s detail=%s\n", s[0] ? s : "-", sched_verdict_name(o->verdict),
           o->result[0] ? o->result : "res=? st=? map=?", sanitizer_kind(o->stderr_text), detail[0] ? detail : "-");
    free(s);
}

struct dfs_stats { long n; long bad; };
static int dfs_visit(void *user, const sched_outcome *o) {
    struct dfs_stats *st = user;
    st->n++;
    print_outcome(o);
    return 0;
}

int main(void) {
    static char line[8192];
    while (fgets(line, sizeof line, stdin)) {
        char *w[600];
        int n = 0;
        char *save, *p;
        sched_config c;
        for (p = strtok_r(line, " \n", &save); p && n < 600; p = strtok_r(NULL, " \n", &save)) w[n++] = p;
        if (n < 4) { puts("err usage"); fflush(stdout); continue; }
        shared_flag = atoi(w[1]) & 1;
        alloc_points = (atoi(w[1]) & 2) != 0;
        snprintf(init_spec, sizeof init_spec, "%s", w[2]);
        if (!parse_threads(w[3])) { puts("err parse"); fflush(stdout); continue; }
        memset(&c, 0, sizeof c);
        c.max_steps = 5000;
        c.on_abort = on_abort;
        if (!strcmp(w[0], "seed") && n >= 7) {
            sched_outcome o;
            c.fallback = SCHED_FB_RANDOM;
            c.seed = strtoull(w[4], NULL, 0);
            c.spurious_weight = atoi(w[5]);
            c.timeout_weight = atoi(w[6]);
            if (c.spurious_weight == 0 && c.timeout_weight == 0) c.timeout_weight = 1;
            sched_run_forked(scenario, NULL, &c, &o);
            print_outcome(&o);
            sched_outcome_free(&o);
        } else if (!strcmp(w[0], "sched") || !strcmp(w[0], "loose")) {
            sched_outcome o;
            char sbuf[8192];
            size_t len = 0;
            int i;
            sbuf[0] = 0;
            for (i = 4; i < n; i++) len += snprintf(sbuf + len, sizeof sbuf - len, "%s%s", len ? " " : "", w[i]);
            c.schedule = sbuf;
            c.strict = !strcmp(w[0], "sched");      /* loose: tokens that are not enabled are skipped */
            c.fallback = SCHED_FB_FIRST;
            sched_run_forked(scenario, NULL, &c, &o);
            print_outcome(&o);
            sched_outcome_free(&o);
        } else if (!strcmp(w[0], "dfs") && n >= 8) {
            sched_explore_opts o;
            struct dfs_stats st = {0, 0};
            int exhausted = 0;
            long runs;
            memset(&o, 0, sizeof o);
            o.depth = atoi(w[4]);
            o.max_spurious = atoi(w[5]);
            o.max_timeouts = -1;
            o.max_runs = atol(w[6]);
            o.independence = atoi(w[7]);
            o.max_steps = 5000;
            o.on_abort = on_abort;
            runs = sched_explore(scenario, NULL, &o, dfs_visit, &st, &exhausted);
            printf("done runs=%ld visited=%ld exhausted=%d\n", runs, st.n, exhausted);
        } else puts("err usage");
        fflush(stdout);
    }
    return 0;
}
