"""Translator build configurations (C09: "… x translator build configurations (with/without pthreads; system vs. bundled getopt,
dirname/basename, strdup)").

w2c2/CMakeLists.txt turns the results of its platform tests into compile definitions HAS_PTHREAD, HAS_UNISTD, HAS_GETOPT,
HAS_LIBGEN, HAS_STRDUP, HAS_GLOB (=1 when found); the sources select with `#if HAS_X`:
  HAS_PTHREAD off   no worker pool: wasmCWriteModuleImplementationFiles calls wasmCWriteImplementationFile directly (c.c `#else`),
                    main.c has no -t option
  HAS_GETOPT  off   getopt_impl.h (bundled BSD getopt) instead of <getopt.h>
  HAS_LIBGEN  off   compat.c dirname/basename instead of <libgen.h>
  HAS_STRDUP  off   str.h strdup instead of the C library's
(HAS_GLOB / HAS_UNISTD cannot be switched off on a POSIX host: main.c then has `#error "Unable to find files"` / no chdir.)
Every configuration is compiled directly from VERIF_REPO's sources (`gcc -O1 -w` + the definitions) into the check's scratch
directory; `switches(repo)` first checks that each switch still exists in CMakeLists.txt and in the sources (a switch that
disappeared is reported, not silently dropped).
"""
import concurrent.futures
import os
import re
import subprocess

ALL = ("HAS_PTHREAD", "HAS_UNISTD", "HAS_GETOPT", "HAS_LIBGEN", "HAS_STRDUP", "HAS_GLOB")
SWITCHABLE = ("HAS_PTHREAD", "HAS_GETOPT", "HAS_LIBGEN", "HAS_STRDUP")
CONFIGS = {                                  # name -> definitions switched OFF
    "default": (),
    "no-pthread": ("HAS_PTHREAD",),
    "bundled-getopt": ("HAS_GETOPT",),
    "bundled-libgen": ("HAS_LIBGEN",),
    "bundled-strdup": ("HAS_STRDUP",),
    "minimal": ("HAS_PTHREAD", "HAS_GETOPT", "HAS_LIBGEN", "HAS_STRDUP"),
}


def sources(repo):
    w = os.path.join(repo, "w2c2")
    return [os.path.join(w, f) for f in sorted(os.listdir(w)) if f.endswith(".c") and not f.endswith("_test.c") and f != "test.c"]


def switches(repo):
    """-> (present: [names], problems: [text])"""
    w = os.path.join(repo, "w2c2")
    cm = open(os.path.join(w, "CMakeLists.txt")).read()
    text = ""
    for f in sorted(os.listdir(w)):
        if f.endswith((".c", ".h")):
            text += open(os.path.join(w, f), errors="replace").read()
    present, problems = [], []
    for s in SWITCHABLE:
        in_cmake = re.search(r"target_compile_definitions\([^)]*\b" + s + r"=1", cm) is not None
        in_src = re.search(r"#\s*(?:if|elif)\s+!?\s*" + s + r"\b", text) is not None
        if in_cmake and in_src:
            present.append(s)
        else:
            problems.append("%s: %s" % (s, "not defined by CMakeLists.txt any more" if not in_cmake else "no `#if %s` in the sources any more" % s))
    return present, problems


def has_t_option(config):
    return "HAS_PTHREAD" not in CONFIGS[config]


def build_one(repo, outdir, config, cc="gcc"):
    exe = os.path.join(outdir, "w2c2_" + config.replace("-", "_"))
    defs = ["-D%s=1" % d for d in ALL if d not in CONFIGS[config]]
    cmd = [cc, "-O1", "-w"] + defs + sources(repo) + ["-o", exe, "-lm"] + (["-lpthread"] if has_t_option(config) else [])
    p = subprocess.run(cmd, stdout=subprocess.PIPE, stderr=subprocess.PIPE, text=True)
    if p.returncode != 0:
        raise RuntimeError("w2c2 build (%s) failed:\n%s" % (config, p.stderr[-2500:]))
    return exe


def build_all(repo, outdir, configs=None):
    """{config: exe} — built concurrently"""
    configs = list(configs or CONFIGS)
    with concurrent.futures.ThreadPoolExecutor(max_workers=min(6, len(configs))) as ex:
        futs = {c: ex.submit(build_one, repo, outdir, c) for c in configs}
        return {c: f.result() for c, f in futs.items()}


def adapt_opts(opts, config):
    """the option list for `config`: a translator without pthreads has no -t (its output must equal the default build's -t 1)"""
    if has_t_option(config):
        return list(opts)
    out, skip = [], False
    for o in opts:
        if skip:
            skip = False
            continue
        if o == "-t":
            skip = True
            continue
        if re.fullmatch(r"-t\d+", o):
            continue
        out.append(o)
    return out
