/* grow_sched — the REAL wasmMemoryGrow / wasmMemoryAllocate of w2c2_base.h (compiled with
 * -DWASM_THREADS_PTHREADS from a scratch copy of /repo) under a deterministic schedule.
 *
 * The header's WASM_MUTEX_LOCK/UNLOCK expand to pthread_mutex_lock/unlock; those two names are
 * redirected (by macro, at compile time: the text of the header function is untouched) to the
 * baton scheduler below.  Every operation runs in its own real thread; a thread only runs while it
 * holds the baton, and hands it back at its yield points:
 *     - before its operation starts,
 *     - inside pthread_mutex_lock BEFORE acquiring (the unlocked part of wasmMemoryGrow has run),
 *     - inside pthread_mutex_unlock AFTER releasing,
 *     - when the operation has returned.
 * The controller walks the schedule string (one thread digit per segment) — the same string drives
 * Model.Grow in the Lean driver (`gsched`).
 *
 * usage:
 *   grow_sched sched <initialPages> <maxPages> <shared> <schedule> <op>...     op = g<delta> | s (memory.size)
 *        | o<pages> (observer: memory.size; if it sees more than <pages> pages: store a marker byte into the last visible
 *          page, scheduling point, read it back; ret 0 = not grown yet, 346 (0x15a) = marker intact, 256 = marker LOST)
 *        -> ret <v0> <v1> ... pages <p> size <s> [blocked <t>...] [held <t>]   (ret of an unfinished op: -;
 *           held t: operation t has RETURNED but the memory's mutex is still locked by it)
 *   grow_sched seq <initialPages> <maxPages> <shared> <delta>...           (one thread, consecutive grows)
 *        -> ret <v>... pages <p> size <s>     | ret <v>... blocked-forever   (an operation found the mutex still locked;
 *           `s` as an argument = memory.size)
 *   grow_sched content <initialPages> <maxPages> <reallocFails> <delta>...   NON-shared memory filled with a pattern;
 *        realloc returns a fresh block with a dirty (0xAA) tail; after every grow:
 *        reallocFails: 0 never, 1 always, k>=2: the (k-1)-th realloc call returns NULL (old block stays valid, as C says)
 *        -> r=<ret>,p=<pages>,d=<data pointer unchanged after a FAILED grow 0|1, - otherwise>,o=<old bytes intact 0|1>,
 *           z=<number of non-zero bytes in the new pages>,f=<first such offset|->     (contents read through i32_load8_u;
 *           the line is flushed piecewise: a crash while reading back is visible to the caller)
 *   grow_sched alloc <initialPages> <maxPages> <shared>                   -> size <s> pages <p> max <m>
 *   grow_sched touch <initialPages> <maxPages> <shared> <byteOffset>      store one byte (run under ASan)
 *   grow_sched stress <growers> <iterations> <sizeReaders> [<oldPageAccessors> [<newPageAccessors>]]   free-running (TSan):
 *        growers call grow(1); accessors do plain i32_store8/i32_load8_u on page 0 resp. store into the newest visible page
 *   grow_sched after <initialPages> <maxPages> <delta>                   free-running (-DGROW_FREE_RUNNING): grow(delta), then
 *        ANOTHER thread does memory.size and grow(1) -> first <v> size <s> grow <g> pages <p>   (hangs if the mutex was leaked)
 */
#include <stdio.h>
#include <stdlib.h>
#include <string.h>
#include <pthread.h>
#include <semaphore.h>
#include <unistd.h>

static int sched_mutex_lock(pthread_mutex_t* m);
static int sched_mutex_unlock(pthread_mutex_t* m);
#ifndef GROW_FREE_RUNNING
#define pthread_mutex_lock sched_mutex_lock
#define pthread_mutex_unlock sched_mutex_unlock
#endif

/* `content` mode: realloc as the allocator may legally behave — a NEW block whose bytes beyond the old contents are
 * dirty (0xAA) — so that missing zeroing of grown pages is visible.  Redirected by macro like the mutex calls. */
static size_t g_blockSize;
static int g_failRealloc;        /* 0: never, 1: always, k >= 2: exactly the (k-1)-th call fails (out of host memory) */
static int g_reallocCalls;
static void* dirty_realloc(void* p, size_t n) {
    unsigned char* q;
    size_t keep;
    g_reallocCalls++;
    if (g_failRealloc == 1 || (g_failRealloc >= 2 && g_reallocCalls == g_failRealloc - 1)) return NULL;   /* old block stays valid */
    q = (unsigned char*)malloc(n ? n : 1);
    if (!q) return NULL;
    memset(q, 0xAA, n);
    keep = g_blockSize < n ? g_blockSize : n;
    memcpy(q, p, keep);
    free(p);
    g_blockSize = n;
    return q;
}
#ifndef GROW_FREE_RUNNING
#define realloc dirty_realloc
#endif

#include "w2c2_base.h"

void trap(Trap t) { fprintf(stderr, "trap %d\n", (int)t); exit(3); }

#define MAXT 10

static sem_t turn[MAXT];      /* controller -> thread: run one segment */
static sem_t back;            /* thread -> controller: segment finished */
static int owner = -1;        /* model of the mutex while threads are serialised by the baton */
static int finished[MAXT];
static int blockedFlag[MAXT];
static __thread int me = -1;
static int scheduling = 0;

static void yield_(void) {
    sem_post(&back);
    sem_wait(&turn[me]);
}

static int seqHeld;            /* `seq` mode (one thread): is the memory's mutex still held from an earlier operation? */

static int sched_mutex_lock(pthread_mutex_t* m) {
    (void)m;
    if (!scheduling) {
        if (seqHeld) {         /* a real pthread_mutex_lock would block forever here */
            printf(" blocked-forever\n");
            fflush(stdout);
            _exit(0);
        }
        seqHeld = 1;
        return 0;
    }
    yield_();
    while (owner != -1) {      /* scheduled although the mutex is taken: stays blocked */
        blockedFlag[me] = 1;
        yield_();
    }
    owner = me;
    return 0;
}

static int sched_mutex_unlock(pthread_mutex_t* m) {
    (void)m;
    if (!scheduling) { seqHeld = 0; return 0; }
    owner = -1;
    yield_();
    return 0;
}

typedef struct { int id; char kind; U32 delta; wasmMemory* mem; U32 ret; } Op;

static void* opThread(void* arg) {
    Op* op = (Op*)arg;
    me = op->id;
    sem_wait(&turn[me]);
    if (op->kind == 'g') {
        op->ret = wasmMemoryGrow(op->mem, op->delta);
    } else if (op->kind == 'o') {
        /* observer: memory.size; if it sees more than <delta> pages it stores a marker into the LAST page it can see,
         * lets the others run (scheduling point) and reads the marker back: 0 = not grown yet, 0x100 + byte read */
        U32 seen = wasmMemorySize(op->mem);
        if (seen <= op->delta) {
            op->ret = 0;
        } else {
            U64 addr = (U64)(seen - 1) * 65536u + 7u;
            i32_store8(op->mem, addr, 0x5a);
            yield_();
            op->ret = 0x100u + i32_load8_u(op->mem, addr);
        }
    } else {
        op->ret = wasmMemorySize(op->mem);    /* what c.c emits for memory.size (since ee826ee) */
    }
    finished[me] = 1;
    sem_post(&back);
    return NULL;
}

static int cmd_sched(int argc, char** argv) {
    U32 init = (U32)strtoul(argv[2], NULL, 0), max = (U32)strtoul(argv[3], NULL, 0);
    int shared = atoi(argv[4]);
    const char* schedule = argv[5];
    int n = argc - 6, i;
    Op ops[MAXT];
    pthread_t th[MAXT];
    wasmMemory* mem;
    if (n > MAXT) return 2;
    mem = wasmMemoryAllocate(init, max, shared != 0);
    scheduling = 1;
    sem_init(&back, 0, 0);
    for (i = 0; i < n; i++) {
        ops[i].id = i; ops[i].kind = argv[6 + i][0]; ops[i].mem = mem; ops[i].ret = 0;
        ops[i].delta = (ops[i].kind == 'g' || ops[i].kind == 'o') ? (U32)strtoul(argv[6 + i] + 1, NULL, 0) : 0;
        sem_init(&turn[i], 0, 0);
        pthread_create(&th[i], NULL, opThread, &ops[i]);
    }
    for (; *schedule; schedule++) {
        int t = *schedule - '0';
        if (t < 0 || t >= n || finished[t]) continue;      /* scheduling a finished thread is a no-op */
        sem_post(&turn[t]);
        sem_wait(&back);
    }
    printf("ret");
    for (i = 0; i < n; i++) {
        if (finished[i]) printf(" %u", ops[i].ret); else printf(" -");
    }
    printf(" pages %u size %u", mem->pages, mem->size);
    for (i = 0; i < n; i++) if (blockedFlag[i]) printf(" blocked %d", i);
    if (owner != -1 && finished[owner]) printf(" held %d", owner);     /* an operation returned with the mutex locked */
    printf("\n");
    fflush(stdout);
    _exit(0);      /* unfinished threads stay parked */
}

static int cmd_seq(int argc, char** argv) {
    U32 init = (U32)strtoul(argv[2], NULL, 0), max = (U32)strtoul(argv[3], NULL, 0);
    int shared = atoi(argv[4]), i;
    wasmMemory* mem = wasmMemoryAllocate(init, max, shared != 0);
    printf("ret");
    for (i = 5; i < argc; i++) {
        g_blockSize = (size_t)mem->pages * 65536u;
        if (argv[i][0] == 's') { U32 v = wasmMemorySize(mem); printf(" %u", v); continue; }
        { U32 v = wasmMemoryGrow(mem, (U32)strtoul(argv[i], NULL, 0)); printf(" %u", v); }
    }
    printf(" pages %u size %u\n", mem->pages, mem->size);
    return 0;
}

static unsigned char pat(size_t i) { return (unsigned char)(((i * 31u + 7u) & 0xffu) | 1u); }

static int cmd_content(int argc, char** argv) {
    U32 init = (U32)strtoul(argv[2], NULL, 0), max = (U32)strtoul(argv[3], NULL, 0);
    int i;
    size_t k, size;
    wasmMemory* mem = wasmMemoryAllocate(init, max, false);
    g_failRealloc = atoi(argv[4]);
    size = (size_t)init * 65536u;
    for (k = 0; k < size; k++) i32_store8(mem, (U64)k, pat(k));
    for (i = 5; i < argc; i++) {
        U32 delta = (U32)strtoul(argv[i], NULL, 0), ret;
        size_t nz = 0, first = (size_t)-1, newSize;
        int oldOk = 1;
        U8* dataBefore = mem->data;
        g_blockSize = size;
        ret = wasmMemoryGrow(mem, delta);
        newSize = (size_t)mem->pages * 65536u;
        /* printed BEFORE the contents are read back through the real accessors: if the read crashes (e.g. `data` was
         * clobbered by a failed grow) the caller still sees which grow it was — a crash is an answer */
        printf("%sr=%u,p=%u,d=", i > 5 ? " " : "", ret, mem->pages);
        if (ret == (U32)-1) printf("%d", mem->data == dataBefore); else printf("-");
        fflush(stdout);
        for (k = 0; k < size && k < newSize; k++) if (i32_load8_u(mem, (U64)k) != pat(k)) { oldOk = 0; break; }
        for (k = size; k < newSize; k++) if (i32_load8_u(mem, (U64)k) != 0) { if (!nz) first = k; nz++; }
        printf(",o=%d,z=%lu,f=", oldOk, (unsigned long)nz);
        if (nz) printf("%lu", (unsigned long)first); else printf("-");
        fflush(stdout);
        for (k = size; k < newSize; k++) i32_store8(mem, (U64)k, pat(k));      /* the program now uses the new pages */
        size = newSize;
    }
    printf("\n");
    return 0;
}

static int cmd_alloc(char** argv) {
    wasmMemory* mem = wasmMemoryAllocate((U32)strtoul(argv[2], NULL, 0), (U32)strtoul(argv[3], NULL, 0), atoi(argv[4]) != 0);
    printf("size %u pages %u max %u\n", mem->size, mem->pages, mem->maxPages);
    return 0;
}

static int cmd_touch(char** argv) {
    wasmMemory* mem = wasmMemoryAllocate((U32)strtoul(argv[2], NULL, 0), (U32)strtoul(argv[3], NULL, 0), atoi(argv[4]) != 0);
    U32 off = (U32)strtoul(argv[5], NULL, 0);
    i32_store8(mem, off, 0x5a);                        /* the header's own store: no bounds check */
    printf("stored at %u size %u\n", off, mem->size);
    return 0;
}

/* free-running stress for ThreadSanitizer: growers and size readers on one shared memory */
static wasmMemory* stressMem;
static int stressIter;
static U32 sinks[6 * MAXT];
static void* stressGrow(void* a) { int i; U32 acc = 0; for (i = 0; i < stressIter; i++) acc += wasmMemoryGrow(stressMem, 1); *(U32*)a = acc; return NULL; }
static __attribute__((noinline)) U32 memorySize(wasmMemory* m) { return wasmMemorySize(m); }   /* `si = wasmMemorySize(m);` as emitted by c.c */
static void* stressSize(void* a) { int i; U32 acc = 0; for (i = 0; i < stressIter; i++) acc += memorySize(stressMem); *(U32*)a = acc; return NULL; }

/* free-running, REAL pthread mutex: one operation with the given delta, then a second thread does memory.size and
 * grow(1).  If the first operation left the mutex locked the second thread blocks forever (caller: watchdog). */
static void* afterThread(void* a) { U32* r = (U32*)a; r[0] = wasmMemorySize(stressMem); r[1] = wasmMemoryGrow(stressMem, 1); return NULL; }
static int cmd_after(char** argv) {
    pthread_t th; U32 r[2]; U32 first;
    stressMem = wasmMemoryAllocate((U32)strtoul(argv[2], NULL, 0), (U32)strtoul(argv[3], NULL, 0), true);
    first = wasmMemoryGrow(stressMem, (U32)strtoul(argv[4], NULL, 0));
    printf("first %u", first); fflush(stdout);
    pthread_create(&th, NULL, afterThread, r);
    pthread_join(th, NULL);
    printf(" size %u grow %u pages %u\n", r[0], r[1], stressMem->pages);
    return 0;
}

/* plain loads/stores (the header's own accessors: they read `mem->data` without the lock) on the FIRST page, which
 * exists from the start, while other threads grow the memory */
static void* stressOld(void* a) {
    int i; U32 acc = 0; U64 base = (U64)((U32*)a - sinks) * 0x400u;      /* every accessor thread has its own bytes */
    for (i = 0; i < stressIter; i++) { i32_store8(stressMem, base + (U64)(i & 0x3ff), (U32)i); acc += i32_load8_u(stressMem, base + (U64)((i * 7) & 0x3ff)); }
    *(U32*)a = acc; return NULL;
}
/* stores into the last page memory.size reports (a page another thread has just added) */
static void* stressNew(void* a) {
    int i; U32 acc = 0; U64 mine = 11u + (U64)((U32*)a - sinks) * 64u;
    for (i = 0; i < stressIter; i++) { U32 p = wasmMemorySize(stressMem); i32_store8(stressMem, (U64)(p - 1) * 65536u + mine, 0x5a); acc += p; }
    *(U32*)a = acc; return NULL;
}

static int cmd_stress(int argc, char** argv) {
    int n = atoi(argv[2]), i, withSize = atoi(argv[4]);
    int oldAcc = argc > 5 ? atoi(argv[5]) : 0, newAcc = argc > 6 ? atoi(argv[6]) : 0, k;
    pthread_t th[6 * MAXT];
    stressIter = atoi(argv[3]);
    stressMem = wasmMemoryAllocate(1, 60000, true);
    for (i = 0; i < n; i++) pthread_create(&th[i], NULL, stressGrow, &sinks[i]);
    for (i = 0; i < withSize; i++) pthread_create(&th[n + i], NULL, stressSize, &sinks[n + i]);
    k = n + withSize;
    for (i = 0; i < oldAcc; i++, k++) pthread_create(&th[k], NULL, stressOld, &sinks[k]);
    for (i = 0; i < newAcc; i++, k++) pthread_create(&th[k], NULL, stressNew, &sinks[k]);
    for (i = 0; i < k; i++) pthread_join(th[i], NULL);
    printf("pages %u expected %u\n", stressMem->pages, 1 + (U32)(n * stressIter));
    return 0;
}

int main(int argc, char** argv) {
    if (argc >= 6 && !strcmp(argv[1], "sched")) return cmd_sched(argc, argv);
    if (argc >= 5 && !strcmp(argv[1], "seq")) return cmd_seq(argc, argv);
    if (argc >= 6 && !strcmp(argv[1], "content")) return cmd_content(argc, argv);
    if (argc == 5 && !strcmp(argv[1], "alloc")) return cmd_alloc(argv);
    if (argc == 6 && !strcmp(argv[1], "touch")) return cmd_touch(argv);
    if (argc >= 5 && argc <= 7 && !strcmp(argv[1], "stress")) return cmd_stress(argc, argv);
    if (argc == 5 && !strcmp(argv[1], "after")) return cmd_after(argv);
    fprintf(stderr, "usage: see grow_sched.c\n");
    return 2;
}
