"""futex_sched — build and drive tools/harness/futex_sched.c: the real futex.c/list.c/map.c from a
scratch copy of /repo, compiled with -DWASM_THREADS_PTHREADS, linked against the scheduler shim
(tools/sched) through ld --wrap, optionally under AddressSanitizer."""
import os
import re
import subprocess

HERE = os.path.dirname(os.path.abspath(__file__))
SCHED = os.path.join(os.path.dirname(HERE), "sched")


def wrap_flags():
    return open(os.path.join(SCHED, "wrap.flags")).read().split()


def bucket_count(repo):
    src = open(os.path.join(repo, "futex", "futex.c")).read()
    m = re.search(r"#define\s+FUTEX_BUCKET_COUNT\s+(\d+)", src)
    if not m:
        raise RuntimeError("FUTEX_BUCKET_COUNT not found in futex.c")
    return int(m.group(1))


def build(repo_copy, workdir, asan=True, cc="gcc", name="futex_sched"):
    exe = os.path.join(workdir, name)
    srcs = [os.path.join(HERE, "futex_sched.c"), os.path.join(SCHED, "sched.c"), os.path.join(SCHED, "sched_explore.c")]
    srcs += [os.path.join(repo_copy, "futex", f) for f in ("futex.c", "list.c", "map.c")]
    cmd = [cc, "-O1", "-g", "-w", "-DWASM_THREADS_PTHREADS", "-DHAS_UNISTD=1"]
    if asan:
        cmd += ["-fsanitize=address,undefined", "-fno-omit-frame-pointer"]
    cmd += ["-I", SCHED, "-I", os.path.join(repo_copy, "w2c2"), "-I", os.path.join(repo_copy, "futex")]
    cmd += srcs + wrap_flags() + ["-o", exe, "-lpthread", "-lm"]
    p = subprocess.run(cmd, stdout=subprocess.PIPE, stderr=subprocess.PIPE, text=True)
    if p.returncode != 0:
        raise RuntimeError("futex_sched build failed:\n" + p.stderr[-3000:])
    return exe


ENV = {"ASAN_OPTIONS": "detect_leaks=0:abort_on_error=0:exitcode=66:quarantine_size_mb=8", "UBSAN_OPTIONS": "halt_on_error=1:exitcode=67"}


def _run_chunk(exe, lines, timeout):
    env = dict(os.environ)
    env.update(ENV)
    p = subprocess.run([exe], input="\n".join(lines) + "\n", stdout=subprocess.PIPE, stderr=subprocess.PIPE,
                       text=True, timeout=timeout, env=env)
    if p.returncode != 0:
        raise RuntimeError(f"futex_sched exited {p.returncode}: {p.stderr[-1500:]}")
    out = p.stdout.splitlines()
    res = []
    i = 0
    for ln in lines:
        if ln.startswith("dfs "):
            grp = []
            while i < len(out):
                grp.append(out[i])
                i += 1
                if grp[-1].startswith("done ") or grp[-1].startswith("err"):
                    break
            res.append(grp)
        else:
            res.append([out[i]] if i < len(out) else [])
            i += 1
    return res


def run_lines(exe, lines, timeout=1800, chunk=600, jobs=4):
    """Feed request lines; returns list (per request) of lists of reply lines.  The requests are split over several
    harness processes (a long-lived ASan parent forks ever more slowly as its quarantine fills), `jobs` at a time;
    the result does not depend on the split."""
    from concurrent.futures import ThreadPoolExecutor
    chunks, cur, weight = [], [], 0
    for ln in lines:
        w = 150 if ln.startswith("dfs ") else 1
        if cur and weight + w > chunk:
            chunks.append(cur)
            cur, weight = [], 0
        cur.append(ln)
        weight += w
    if cur:
        chunks.append(cur)
    if not chunks:
        return []
    with ThreadPoolExecutor(max_workers=jobs) as ex:
        parts = list(ex.map(lambda c: _run_chunk(exe, c, timeout), chunks))
    return [r for part in parts for r in part]


def parse_reply(line):
    """`k=v k=v ...` -> dict"""
    d = {}
    for w in line.split():
        if "=" in w:
            k, v = w.split("=", 1)
            d[k] = v
    return d


# ----------------------------------------------------------------------------- emission / effective address (real w2c2)

def wait_module(offsets, depth=0):
    """Module with, per static offset `o`: w32_o(addr, expect:i64, timeout) / w64_o / nt_o(addr, count); `depth` dummy
    i32 operands below the instruction's operands (so the address operand sits at type-stack index `depth`)."""
    import sys
    sys.path.insert(0, os.path.dirname(HERE))
    from wasmgen import wasm_ast as A, encode
    m = A.Module()
    m.types = [A.FuncType([A.I32, A.I64, A.I64], [A.I32]), A.FuncType([A.I32, A.I32], [A.I32])]
    m.mems = [A.Limits(1, 1, True)]
    I = A.Instr
    pre = [I('i32.const', 0)] * depth
    post = [I('i32.add')] * depth
    funcs, exports = [], []
    for o in offsets:
        funcs.append(A.Function(0, [], pre + [I('local.get', 0), I('local.get', 1), I('i32.wrap_i64'), I('local.get', 2),
                                              I('memory.atomic.wait32', 2, o)] + post))
        exports.append(A.Export(b'w32_%d' % o, 'func', len(funcs) - 1))
        funcs.append(A.Function(0, [], pre + [I('local.get', 0), I('local.get', 1), I('local.get', 2),
                                              I('memory.atomic.wait64', 3, o)] + post))
        exports.append(A.Export(b'w64_%d' % o, 'func', len(funcs) - 1))
        funcs.append(A.Function(1, [], pre + [I('local.get', 0), I('local.get', 1), I('memory.atomic.notify', 2, o)] + post))
        exports.append(A.Export(b'nt_%d' % o, 'func', len(funcs) - 1))
    m.funcs = funcs
    m.exports = exports + [A.Export(b'mem', 'memory', 0)]
    return m, encode


def emitted_calls(c_text):
    """[(function index, statement text)] for every wait/notify statement w2c2 wrote."""
    out = []
    cur = None
    for line in c_text.splitlines():
        mm = re.match(r"^\w+ f(\d+)\(", line)
        if mm:
            cur = int(mm.group(1))
        if "wasmMemoryAtomicWait(" in line or "wasmMemoryAtomicNotify(" in line:
            out.append((cur, line.strip()))
    return out


E2E_MAIN = r'''
#include <stdio.h>
#include <pthread.h>
#include <time.h>
#include "w2c2_base.h"
#include "m.h"
void trap(Trap t) { printf("trap %d\n", (int)t); fflush(stdout); _Exit(3); }
static mInstance inst;
typedef struct { U32 (*w)(mInstance*, U32, U64, U64); U32 addr; U64 expect; U32 ret; } warg;
static void* waiter(void* p) { warg* a = p; a->ret = a->w(&inst, a->addr, a->expect, 5000000000ull); return NULL; }
static void msleep(int ms) { struct timespec ts; ts.tv_sec = ms / 1000; ts.tv_nsec = (ms % 1000) * 1000000L; nanosleep(&ts, NULL); }
#define CASE(O) do { \
    wasmMemory* mem = m_mem(&inst); \
    U32 a = 64; U32 i; \
    i32_store(mem, a, 111); i32_store(mem, a + 4, 0); \
    i64_store(mem, (U64)a + (O), 0x0000000500000222ull); \
    if ((O) == 0) { i64_store(mem, a, 0x0000000500000222ull); } \
    printf("off=%u w32_cell=%u w32_other=%u w64_cell=%u w64_other=%u", (unsigned)(O), \
        m_w32_##O(&inst, a, 0x222, 0), m_w32_##O(&inst, a, 0x999, 0), \
        m_w64_##O(&inst, a, 0x0000000500000222ull, 0), m_w64_##O(&inst, a, 0x999, 0)); \
    { warg wa; pthread_t th; U32 n = 0; wa.w = m_w32_##O; wa.addr = a; wa.expect = 0x222; wa.ret = 99; \
      pthread_create(&th, NULL, waiter, &wa); \
      for (i = 0; i < 300 && n == 0; i++) { msleep(10); n = m_nt_##O(&inst, a, 1); } \
      pthread_join(th, NULL); \
      printf(" notify=%u waiter=%u\n", n, wa.ret); } \
  } while (0)
int main(void) {
  mInstantiate(&inst, NULL);
@@CASES@@
  return 0;
}
'''


def run_offset_e2e(repo_copy, workdir, w2c2_exe, offsets, cc="gcc"):
    """Translate the wait/notify module with the REAL w2c2, compile with gcc + real futex.c, run.
    Returns (c_text, {offset: dict(w32_cell, w32_other, w64_cell, w64_other, notify, waiter)})."""
    m, encode = wait_module(offsets)
    wasm = os.path.join(workdir, "m.wasm")
    open(wasm, "wb").write(encode(m))
    p = subprocess.run([w2c2_exe, wasm, os.path.join(workdir, "m.c")], stdout=subprocess.PIPE, stderr=subprocess.PIPE, text=True)
    if p.returncode != 0:
        raise RuntimeError("w2c2 failed on the wait/notify module: " + p.stderr[-800:])
    c_text = open(os.path.join(workdir, "m.c")).read()
    open(os.path.join(workdir, "e2emain.c"), "w").write(
        E2E_MAIN.replace("@@CASES@@", "\n".join("  CASE(%d);" % o for o in offsets)))
    exe = os.path.join(workdir, "e2e_offset")
    cmd = [cc, "-O1", "-w", "-DWASM_THREADS_PTHREADS", "-I", os.path.join(repo_copy, "w2c2"), "-I", workdir,
           os.path.join(workdir, "m.c"), os.path.join(workdir, "e2emain.c")]
    cmd += [os.path.join(repo_copy, "futex", f) for f in ("futex.c", "list.c", "map.c")] + ["-o", exe, "-lpthread", "-lm"]
    p = subprocess.run(cmd, stdout=subprocess.PIPE, stderr=subprocess.PIPE, text=True)
    if p.returncode != 0:
        raise RuntimeError("compiling the wait/notify module failed:\n" + p.stderr[-2000:])
    p = subprocess.run([exe], stdout=subprocess.PIPE, stderr=subprocess.PIPE, text=True, timeout=120)
    res = {}
    for line in p.stdout.splitlines():
        d = parse_reply(line)
        if "off" in d:
            res[int(d["off"])] = {k: int(v) for k, v in d.items() if k != "off"}
    return c_text, res


# what the specification demands of one CASE(O): the cell at a+O holds 0x222 / 0x0000000500000222
E2E_EXPECT = {"w32_cell": 2, "w32_other": 1, "w64_cell": 2, "w64_other": 1, "notify": 1, "waiter": 0}
