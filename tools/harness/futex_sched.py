"""futex_sched — build and drive tools/harness/futex_sched.c: the real futex.c/list.c/map.c from a
scratch copy of /repo, compiled with -DWASM_THREADS_PTHREADS, linked against the scheduler shim
(tools/sched) through ld --wrap, optionally under AddressSanitizer."""
import os
import re
import subprocess

HERE = os.path.dirname(os.path.abspath(__file__))
SCHED = os.path.join(os.path.dirname(HERE), "sched")


def wrap_flags():
    return open(os.path.join(SCHED, "wrap.flags")).read().split()


def bucket_count(repo):
    src = open(os.path.join(repo, "futex", "futex.c")).read()
    m = re.search(r"#define\s+FUTEX_BUCKET_COUNT\s+(\d+)", src)
    if not m:
        raise RuntimeError("FUTEX_BUCKET_COUNT not found in futex.c")
    return int(m.group(1))


def build(repo_copy, workdir, asan=True, cc="gcc", name="futex_sched"):
    exe = os.path.join(workdir, name)
    srcs = [os.path.join(HERE, "futex_sched.c"), os.path.join(SCHED, "sched.c"), os.path.join(SCHED, "sched_explore.c")]
    srcs += [os.path.join(repo_copy, "futex", f) for f in ("futex.c", "list.c", "map.c")]
    cmd = [cc, "-O1", "-g", "-w", "-DWASM_THREADS_PTHREADS", "-DHAS_UNISTD=1"]
    if asan:
        cmd += ["-fsanitize=address,undefined", "-fno-omit-frame-pointer"]
    cmd += ["-I", SCHED, "-I", os.path.join(repo_copy, "w2c2"), "-I", os.path.join(repo_copy, "futex")]
    cmd += srcs + wrap_flags() + ["-o", exe, "-lpthread", "-lm"]
    p = subprocess.run(cmd, stdout=subprocess.PIPE, stderr=subprocess.PIPE, text=True)
    if p.returncode != 0:
        raise RuntimeError("futex_sched build failed:\n" + p.stderr[-3000:])
    return exe


ENV = {"ASAN_OPTIONS": "detect_leaks=0:abort_on_error=0:exitcode=66", "UBSAN_OPTIONS": "halt_on_error=1:exitcode=67"}


def run_lines(exe, lines, timeout=1800):
    """Feed request lines; returns list (per request) of lists of reply lines."""
    env = dict(os.environ)
    env.update(ENV)
    p = subprocess.run([exe], input="\n".join(lines) + "\n", stdout=subprocess.PIPE, stderr=subprocess.PIPE,
                       text=True, timeout=timeout, env=env)
    if p.returncode != 0:
        raise RuntimeError(f"futex_sched exited {p.returncode}: {p.stderr[-1500:]}")
    out = p.stdout.splitlines()
    res = []
    i = 0
    for ln in lines:
        if ln.startswith("dfs "):
            grp = []
            while i < len(out):
                grp.append(out[i])
                i += 1
                if grp[-1].startswith("done ") or grp[-1].startswith("err"):
                    break
            res.append(grp)
        else:
            res.append([out[i]] if i < len(out) else [])
            i += 1
    return res


def parse_reply(line):
    """`k=v k=v ...` -> dict"""
    d = {}
    for w in line.split():
        if "=" in w:
            k, v = w.split("=", 1)
            d[k] = v
    return d
