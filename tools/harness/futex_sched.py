"""futex_sched — build and drive tools/harness/futex_sched.c: the real futex.c/list.c/map.c from a
scratch copy of /repo, compiled with -DWASM_THREADS_PTHREADS, linked against the scheduler shim
(tools/sched) through ld --wrap, optionally under AddressSanitizer."""
import os
import re
import subprocess

HERE = os.path.dirname(os.path.abspath(__file__))
SCHED = os.path.join(os.path.dirname(HERE), "sched")


def wrap_flags():
    return open(os.path.join(SCHED, "wrap.flags")).read().split()


def bucket_count(repo):
    src = open(os.path.join(repo, "futex", "futex.c")).read()
    m = re.search(r"#define\s+FUTEX_BUCKET_COUNT\s+(\d+)", src)
    if not m:
        raise RuntimeError("FUTEX_BUCKET_COUNT not found in futex.c")
    return int(m.group(1))


ALLOC_DEFS = ["-Dcalloc=fxh_calloc", "-Dmalloc=fxh_malloc"]      # allocation scheduling points (futex_sched.c), code under test only


def build(repo_copy, workdir, asan=True, cc="gcc", name="futex_sched"):
    exe = os.path.join(workdir, name)
    srcs = [os.path.join(HERE, "futex_sched.c"), os.path.join(SCHED, "sched.c"), os.path.join(SCHED, "sched_explore.c")]
    flags = [cc, "-O1", "-g", "-w", "-DWASM_THREADS_PTHREADS", "-DHAS_UNISTD=1"]
    if asan:
        flags += ["-fsanitize=address,undefined", "-fno-omit-frame-pointer"]
    flags += ["-I", SCHED, "-I", os.path.join(repo_copy, "w2c2"), "-I", os.path.join(repo_copy, "futex")]
    objs = []
    for f in ("futex.c", "list.c", "map.c"):
        o = os.path.join(workdir, name + "_" + f[:-2] + ".o")
        p = subprocess.run(flags + ALLOC_DEFS + ["-c", os.path.join(repo_copy, "futex", f), "-o", o],
                           stdout=subprocess.PIPE, stderr=subprocess.PIPE, text=True)
        if p.returncode != 0:
            raise RuntimeError("futex_sched build failed:\n" + p.stderr[-3000:])
        objs.append(o)
    cmd = flags + srcs + objs + wrap_flags() + ["-o", exe, "-lpthread", "-lm"]
    p = subprocess.run(cmd, stdout=subprocess.PIPE, stderr=subprocess.PIPE, text=True)
    if p.returncode != 0:
        raise RuntimeError("futex_sched build failed:\n" + p.stderr[-3000:])
    for o in objs:
        if "fxh_calloc" not in subprocess.run(["nm", "-u", o], stdout=subprocess.PIPE, text=True).stdout and o.endswith("futex.o"):
            raise RuntimeError("futex_sched build: futex.c's calloc calls were not routed through the allocation scheduling point")
    return exe


def strip_alloc(r):
    """The executed schedule of reply `r` without the tokens that resumed a thread from an allocation point (`al=`)."""
    toks = r.get("sched", "").split(",")
    al = r.get("al", "-")
    drop = {int(x) for x in al.split(".")} if al not in ("-", "") else set()
    return ",".join(t for i, t in enumerate(toks) if i not in drop)


ENV = {"ASAN_OPTIONS": "detect_leaks=0:abort_on_error=0:exitcode=66:quarantine_size_mb=8", "UBSAN_OPTIONS": "halt_on_error=1:exitcode=67"}


def _run_chunk(exe, lines, timeout):
    env = dict(os.environ)
    env.update(ENV)
    p = subprocess.run([exe], input="\n".join(lines) + "\n", stdout=subprocess.PIPE, stderr=subprocess.PIPE,
                       text=True, timeout=timeout, env=env)
    if p.returncode != 0:
        raise RuntimeError(f"futex_sched exited {p.returncode}: {p.stderr[-1500:]}")
    out = p.stdout.splitlines()
    res = []
    i = 0
    for ln in lines:
        if ln.startswith("dfs "):
            grp = []
            while i < len(out):
                grp.append(out[i])
                i += 1
                if grp[-1].startswith("done ") or grp[-1].startswith("err"):
                    break
            res.append(grp)
        else:
            res.append([out[i]] if i < len(out) else [])
            i += 1
    return res


def run_lines(exe, lines, timeout=1800, chunk=600, jobs=4):
    """Feed request lines; returns list (per request) of lists of reply lines.  The requests are split over several
    harness processes (a long-lived ASan parent forks ever more slowly as its quarantine fills), `jobs` at a time;
    the result does not depend on the split."""
    from concurrent.futures import ThreadPoolExecutor
    chunks, cur, weight = [], [], 0
    for ln in lines:
        w = 150 if ln.startswith("dfs ") else 1
        if cur and weight + w > chunk:
            chunks.append(cur)
            cur, weight = [], 0
        cur.append(ln)
        weight += w
    if cur:
        chunks.append(cur)
    if not chunks:
        return []
    with ThreadPoolExecutor(max_workers=jobs) as ex:
        parts = list(ex.map(lambda c: _run_chunk(exe, c, timeout), chunks))
    return [r for part in parts for r in part]


def parse_reply(line):
    """`k=v k=v ...` -> dict"""
    d = {}
    for w in line.split():
        if "=" in w:
            k, v = w.split("=", 1)
            d[k] = v
    return d


# ----------------------------------------------------------------------------- emission / effective address (real w2c2)

def wait_module(offsets, depth=0):
    """Module with, per static offset `o`: w32_o(addr, expect:i64, timeout) / w64_o / nt_o(addr, count); `depth` dummy
    i32 operands below the instruction's operands (so the address operand sits at type-stack index `depth`)."""
    import sys
    sys.path.insert(0, os.path.dirname(HERE))
    from wasmgen import wasm_ast as A, encode
    m = A.Module()
    m.types = [A.FuncType([A.I32, A.I64, A.I64], [A.I32]), A.FuncType([A.I32, A.I32], [A.I32])]
    m.mems = [A.Limits(1, 1, True)]
    I = A.Instr
    pre = [I('i32.const', 0)] * depth
    post = [I('i32.add')] * depth
    funcs, exports = [], []
    for o in offsets:
        funcs.append(A.Function(0, [], pre + [I('local.get', 0), I('local.get', 1), I('i32.wrap_i64'), I('local.get', 2),
                                              I('memory.atomic.wait32', 2, o)] + post))
        exports.append(A.Export(b'w32_%d' % o, 'func', len(funcs) - 1))
        funcs.append(A.Function(0, [], pre + [I('local.get', 0), I('local.get', 1), I('local.get', 2),
                                              I('memory.atomic.wait64', 3, o)] + post))
        exports.append(A.Export(b'w64_%d' % o, 'func', len(funcs) - 1))
        funcs.append(A.Function(1, [], pre + [I('local.get', 0), I('local.get', 1), I('memory.atomic.notify', 2, o)] + post))
        exports.append(A.Export(b'nt_%d' % o, 'func', len(funcs) - 1))
    m.funcs = funcs
    m.exports = exports + [A.Export(b'mem', 'memory', 0)]
    return m, encode


def emitted_calls(c_text):
    """[(function index, statement text)] for every wait/notify statement w2c2 wrote."""
    out = []
    cur = None
    for line in c_text.splitlines():
        mm = re.match(r"^\w+ f(\d+)\(", line)
        if mm:
            cur = int(mm.group(1))
        if "wasmMemoryAtomicWait(" in line or "wasmMemoryAtomicNotify(" in line:
            out.append((cur, line.strip()))
    return out


E2E_MAIN = r'''
#include <stdio.h>
#include <pthread.h>
#include <time.h>
#include "w2c2_base.h"
#include "m.h"
void trap(Trap t) { printf("trap %d\n", (int)t); fflush(stdout); _Exit(3); }
static mInstance inst;
typedef struct { U32 (*w)(mInstance*, U32, U64, U64); U32 addr; U64 expect; U32 ret; } warg;
static void* waiter(void* p) { warg* a = p; a->ret = a->w(&inst, a->addr, a->expect, 5000000000ull); return NULL; }
static void msleep(int ms) { struct timespec ts; ts.tv_sec = ms / 1000; ts.tv_nsec = (ms % 1000) * 1000000L; nanosleep(&ts, NULL); }
#define CASE(O) do { \
    wasmMemory* mem = m_mem(&inst); \
    U32 a = 64; U32 i; \
    i32_store(mem, a, 111); i32_store(mem, a + 4, 0); \
    i64_store(mem, (U64)a + (O), 0x0000000500000222ull); \
    if ((O) == 0) { i64_store(mem, a, 0x0000000500000222ull); } \
    printf("off=%u w32_cell=%u w32_other=%u w64_cell=%u w64_other=%u", (unsigned)(O), \
        m_w32_##O(&inst, a, 0x222, 0), m_w32_##O(&inst, a, 0x999, 0), \
        m_w64_##O(&inst, a, 0x0000000500000222ull, 0), m_w64_##O(&inst, a, 0x999, 0)); \
    { warg wa; pthread_t th; U32 n = 0; wa.w = m_w32_##O; wa.addr = a; wa.expect = 0x222; wa.ret = 99; \
      pthread_create(&th, NULL, waiter, &wa); \
      for (i = 0; i < 300 && n == 0; i++) { msleep(10); n = m_nt_##O(&inst, a, 1); } \
      pthread_join(th, NULL); \
      printf(" notify=%u waiter=%u\n", n, wa.ret); } \
  } while (0)
int main(void) {
  mInstantiate(&inst, NULL);
@@CASES@@
  return 0;
}
'''


def run_offset_e2e(repo_copy, workdir, w2c2_exe, offsets, cc="gcc"):
    """Translate the wait/notify module with the REAL w2c2, compile with gcc + real futex.c, run.
    Returns (c_text, {offset: dict(w32_cell, w32_other, w64_cell, w64_other, notify, waiter)})."""
    m, encode = wait_module(offsets)
    wasm = os.path.join(workdir, "m.wasm")
    open(wasm, "wb").write(encode(m))
    p = subprocess.run([w2c2_exe, wasm, os.path.join(workdir, "m.c")], stdout=subprocess.PIPE, stderr=subprocess.PIPE, text=True)
    if p.returncode != 0:
        raise RuntimeError("w2c2 failed on the wait/notify module: " + p.stderr[-800:])
    c_text = open(os.path.join(workdir, "m.c")).read()
    open(os.path.join(workdir, "e2emain.c"), "w").write(
        E2E_MAIN.replace("@@CASES@@", "\n".join("  CASE(%d);" % o for o in offsets)))
    exe = os.path.join(workdir, "e2e_offset")
    cmd = [cc, "-O1", "-w", "-DWASM_THREADS_PTHREADS", "-I", os.path.join(repo_copy, "w2c2"), "-I", workdir,
           os.path.join(workdir, "m.c"), os.path.join(workdir, "e2emain.c")]
    cmd += [os.path.join(repo_copy, "futex", f) for f in ("futex.c", "list.c", "map.c")] + ["-o", exe, "-lpthread", "-lm"]
    p = subprocess.run(cmd, stdout=subprocess.PIPE, stderr=subprocess.PIPE, text=True)
    if p.returncode != 0:
        raise RuntimeError("compiling the wait/notify module failed:\n" + p.stderr[-2000:])
    p = subprocess.run([exe], stdout=subprocess.PIPE, stderr=subprocess.PIPE, text=True, timeout=120)
    res = {}
    for line in p.stdout.splitlines():
        d = parse_reply(line)
        if "off" in d:
            res[int(d["off"])] = {k: int(v) for k, v in d.items() if k != "off"}
    return c_text, res


# what the specification demands of one CASE(O): the cell at a+O holds 0x222 / 0x0000000500000222
E2E_EXPECT = {"w32_cell": 2, "w32_other": 1, "w64_cell": 2, "w64_other": 1, "notify": 1, "waiter": 0}


# ----------------------------------------------------------------------------- directed single-thread wait/notify cases (real w2c2 output vs V8)

def wait_cases_module(offsets):
    """Exports per offset o: w32_o(addr, expect:i64, timeout:i64) w64_o(addr, expect, timeout) nt_o(addr, count);
    plus st64(addr, v).  Shared memory 1 page."""
    import sys
    sys.path.insert(0, os.path.dirname(HERE))
    from wasmgen import wasm_ast as A, encode
    m = A.Module()
    m.types = [A.FuncType([A.I32, A.I64, A.I64], [A.I32]), A.FuncType([A.I32, A.I32], [A.I32]), A.FuncType([A.I32, A.I64], [])]
    m.mems = [A.Limits(1, 1, True)]
    I = A.Instr
    funcs, exports = [], []
    for o in offsets:
        funcs.append(A.Function(0, [], [I('local.get', 0), I('local.get', 1), I('i32.wrap_i64'), I('local.get', 2),
                                        I('memory.atomic.wait32', 2, o)]))
        exports.append(A.Export(b'w32_%d' % o, 'func', len(funcs) - 1))
        funcs.append(A.Function(0, [], [I('local.get', 0), I('local.get', 1), I('local.get', 2), I('memory.atomic.wait64', 3, o)]))
        exports.append(A.Export(b'w64_%d' % o, 'func', len(funcs) - 1))
        funcs.append(A.Function(1, [], [I('local.get', 0), I('local.get', 1), I('memory.atomic.notify', 2, o)]))
        exports.append(A.Export(b'nt_%d' % o, 'func', len(funcs) - 1))
    funcs.append(A.Function(2, [], [I('local.get', 0), I('local.get', 1), I('i64.store', 3, 0)]))
    exports.append(A.Export(b'st64', 'func', len(funcs) - 1))
    m.funcs = funcs
    m.exports = exports
    return encode(m)


def spec_wait_code(cell, expect, w64):
    """single thread, nobody notifies: 1 if the cell differs from the expected value, else 2 (finite timeout elapses)"""
    if w64:
        return 1 if (cell & ((1 << 64) - 1)) != (expect & ((1 << 64) - 1)) else 2
    return 1 if (cell & 0xFFFFFFFF) != (expect & 0xFFFFFFFF) else 2


def directed_wait_calls(rng, offsets, n_random=6):
    """[(descr dict, [calls...])]: every case first stores the 64-bit cell at the effective address (and a decoy at the
    operand address), then waits.  Timeouts are 0 or small and positive, so every call returns."""
    cases = []
    a = 256
    for o in offsets:
        combos = [
            (0x0000000100000005, 0x0000000100000005, "equal"),
            (0x0000000100000005, 0x0000000100000004, "low-differs"),
            (0x0000000100000005, 0x0000000000000005, "high-only-differs"),
            (0x0000000100000005, 0xFFFFFFFF00000005, "high-only-differs"),
            (0x8000000000000000, 0x0000000000000000, "high-only-differs"),
        ]
        for _ in range(n_random):
            cell = rng.choice([0, 5, 0xFFFFFFFF]) | (rng.choice([0, 1, 0xFFFFFFFF]) << 32)
            kind = rng.choice(["equal", "low-differs", "high-only-differs"])
            e = cell if kind == "equal" else cell ^ 1 if kind == "low-differs" else cell ^ (rng.choice([1, 0x80000000, 0xFFFFFFFF]) << 32)
            combos.append((cell, e, kind))
        for cell, e, kind in combos:
            for to in (0, rng.choice([1000, 200000, 2000000])):
                for w64 in (True, False):
                    calls = [(b'st64', [('i32', a), ('i64', 0x7777777700000009)])] if o else []
                    calls += [(b'st64', [('i32', a + o), ('i64', cell)]),
                              (b'w64_%d' % o if w64 else b'w32_%d' % o, [('i32', a), ('i64', e), ('i64', to)])]
                    cases.append(({"offset": o, "op": "wait64" if w64 else "wait32", "cell": cell, "expect": e, "timeout": to,
                                   "kind": kind, "spec": spec_wait_code(cell, e, w64)}, calls))
        cases.append(({"offset": o, "op": "notify", "cell": 0, "expect": 0, "timeout": 0, "kind": "no-waiter", "spec": 0},
                      [(b'nt_%d' % o, [('i32', a), ('i32', 3)])]))
    return cases


def run_wait_cases(repo_copy, workdir, w2c2_exe, wasm_bytes, cases, cc="gcc"):
    """Run the calls of every case on ONE instance of the module translated by the REAL w2c2 (gcc, real futex.c,
    -DWASM_THREADS_PTHREADS).  Returns the result of the last call of each case."""
    os.makedirs(workdir, exist_ok=True)
    wasm = os.path.join(workdir, "wc.wasm")
    open(wasm, "wb").write(wasm_bytes)
    p = subprocess.run([w2c2_exe, wasm, os.path.join(workdir, "wc.c")], stdout=subprocess.PIPE, stderr=subprocess.PIPE, text=True)
    if p.returncode != 0:
        raise RuntimeError("w2c2 failed on the wait-cases module: " + p.stderr[-800:])
    body = []
    for _, calls in cases:
        for ci, (name, args) in enumerate(calls):
            cargs = "".join(", %dull" % v if t == 'i64' else ", %uu" % v for t, v in args)
            fn = "wc_" + name.decode()
            if name == b'st64':
                body.append(f"  {fn}(&inst{cargs});")
            elif ci == len(calls) - 1:
                body.append(f'  printf("%u\\n", {fn}(&inst{cargs})); fflush(stdout);')
            else:
                body.append(f"  (void){fn}(&inst{cargs});")
    main_c = ('#include <stdio.h>\n#include "w2c2_base.h"\n#include "wc.h"\n'
              'void trap(Trap t) { printf("trap %d\\n", (int)t); fflush(stdout); _Exit(3); }\n'
              'static wcInstance inst;\nint main(void) {\n  wcInstantiate(&inst, NULL);\n' + "\n".join(body) + "\n  return 0;\n}\n")
    open(os.path.join(workdir, "wcmain.c"), "w").write(main_c)
    exe = os.path.join(workdir, "wc_e2e")
    cmd = [cc, "-O1", "-w", "-DWASM_THREADS_PTHREADS", "-I", os.path.join(repo_copy, "w2c2"), "-I", workdir,
           os.path.join(workdir, "wc.c"), os.path.join(workdir, "wcmain.c")]
    cmd += [os.path.join(repo_copy, "futex", f) for f in ("futex.c", "list.c", "map.c")] + ["-o", exe, "-lpthread", "-lm"]
    p = subprocess.run(cmd, stdout=subprocess.PIPE, stderr=subprocess.PIPE, text=True)
    if p.returncode != 0:
        raise RuntimeError("compiling the wait-cases module failed:\n" + p.stderr[-2000:])
    p = subprocess.run([exe], stdout=subprocess.PIPE, stderr=subprocess.PIPE, text=True, timeout=300)
    out = p.stdout.split()
    return [int(x) if x.isdigit() else x for x in out], open(os.path.join(workdir, "wc.c")).read()


def v8_wait_cases(wasm_bytes, cases):
    """The same calls in node's V8 (which allows blocking on the main thread).  Returns the last result of each case
    (int) or a string describing a trap/error."""
    import sys
    sys.path.insert(0, os.path.dirname(HERE))
    from wasmgen import v8
    flat = [c for _, calls in cases for c in calls]
    r = v8.run(wasm_bytes, flat, timeout=120.0)
    res, i = [], 0
    for _, calls in cases:
        i += len(calls)
        x = r.results[i - 1] if i - 1 < len(r.results) else ('error', 'missing')
        res.append(x[1][0][1] if x[0] == 'val' and x[1] else str(x))
    return res


# ----------------------------------------------------------------------------- the deadline of a finite-timeout wait (no real waiting)

def build_timeout(repo_copy, workdir, cc="gcc"):
    exe = os.path.join(workdir, "futex_timeout")
    cmd = [cc, "-O1", "-g", "-w", "-DWASM_THREADS_PTHREADS", "-I", os.path.join(repo_copy, "w2c2"), "-I", os.path.join(repo_copy, "futex"),
           os.path.join(HERE, "futex_timeout.c")] + [os.path.join(repo_copy, "futex", f) for f in ("futex.c", "list.c", "map.c")]
    cmd += ["-Wl,--wrap=clock_gettime,--wrap=pthread_cond_timedwait", "-o", exe, "-lpthread", "-lm"]
    p = subprocess.run(cmd, stdout=subprocess.PIPE, stderr=subprocess.PIPE, text=True)
    if p.returncode != 0:
        raise RuntimeError("futex_timeout build failed:\n" + p.stderr[-2000:])
    return exe


def timeout_cases(rng, n_random):
    """(now_sec, now_nsec, timeout_ns, wait64) — timeouts around 2^32 ns and far beyond, clock readings incl. nsec carry"""
    ts = [0, 1, 999999999, 10 ** 9, 10 ** 9 + 1, (1 << 31) - 1, 1 << 31, (1 << 32) - 1, 1 << 32, (1 << 32) + 1, 4500000000, 10 ** 10,
          (1 << 40), (1 << 40) + 999999999, 1 << 62, (1 << 62) + 123456789, (1 << 63) - 1 - 2 * 10 ** 18]
    for _ in range(n_random):
        ts.append(rng.randrange(1 << rng.choice([20, 31, 33, 40, 50, 62])))
    nows = [(1000, 0), (1000, 999999999), (1700000000, 500000000), (1, 1)]
    out = []
    for i, t in enumerate(ts):
        for (s, ns) in (nows if i < 17 else [rng.choice(nows)]):
            out.append((s, ns, t, i % 2))
    return out


def run_timeout(exe, cases):
    inp = "".join("%d %d %d %d\n" % c for c in cases)
    p = subprocess.run([exe], input=inp, stdout=subprocess.PIPE, stderr=subprocess.PIPE, text=True, timeout=120)
    if p.returncode != 0:
        raise RuntimeError(f"futex_timeout exited {p.returncode}: {p.stdout[-300:]} {p.stderr[-500:]}")
    return [tuple(int(x) for x in ln.split()) for ln in p.stdout.splitlines()]


def expected_deadline(s, ns, t):
    tot = s * 10 ** 9 + ns + t
    return tot // 10 ** 9, tot % 10 ** 9
