"""Build and run tools/harness/array_harness.c (real array.c/array.h under AddressSanitizer)."""
import os
import subprocess

HERE = os.path.dirname(os.path.abspath(__file__))


def build(repo, outdir):
    exe = os.path.join(outdir, "array_harness")
    w = os.path.join(repo, "w2c2")
    cmd = ["gcc", "-w", "-O1", "-g", "-fsanitize=address", "-fno-omit-frame-pointer", "-I" + w, "-o", exe,
           os.path.join(HERE, "array_harness.c"), os.path.join(w, "array.c")]
    p = subprocess.run(cmd, stdout=subprocess.PIPE, stderr=subprocess.STDOUT, text=True)
    if p.returncode != 0:
        raise RuntimeError("array_harness build failed: " + p.stdout[-1500:])
    return exe


def run(exe, lines):
    env = dict(os.environ)
    env["ASAN_OPTIONS"] = "detect_leaks=0:exitcode=23"
    p = subprocess.run([exe], input="\n".join(lines) + "\n", stdout=subprocess.PIPE, stderr=subprocess.PIPE, text=True,
                       timeout=600, env=env)
    out = [" ".join(x.split()) for x in p.stdout.splitlines()]
    if len(out) != len(lines):
        raise RuntimeError(f"array_harness answered {len(out)} lines for {len(lines)}: {p.stderr[-400:]}")
    return out
