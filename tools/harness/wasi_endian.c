/*
 * wasi-endian harness (C19, WASI host): a "guest" that talks to the REAL wasi/wasi.c (compiled separately from the scratch
 * copy and linked in) exactly as translated guest code would: every multi-byte field it prepares (iovec arrays) or reads
 * back (result cells, fdstat / filestat / prestat / dirent records, pointer arrays) goes through the accessor functions of
 * w2c2_base.h OF ITS OWN BUILD; only byte data (paths, I/O buffers, padding) is touched raw.
 *
 * It is built twice together with wasi.c: little-endian, and FORCED big-endian (-DWASM_ENDIAN=WASM_BIG_ENDIAN on this
 * little-endian host: every accessor byte-swaps).  Whatever the host writes through accessors reads back with the same
 * VALUE in both builds; a raw host-order write of a 16/32/64-bit object reads back byte-reversed in the forced build —
 * just as on a real big-endian host (there: big-endian bytes, reversed by the guest's load).  So both builds must print
 * identical lines.
 *
 * argv: <root dir> <guest args...> [-- NAME=value ...]     cwd becomes <root dir>; the preopened directory is "." -> fd 3
 * stdin: one command per line; stdout: one or more `key=value` lines per command that asks for output.
 *   poke <addr> <hex>                raw bytes into guest memory
 *   fill <addr> <n> <byte>           raw memset
 *   st <w> <addr> <value>            accessor store of w = 1|2|4|8 bytes
 *   ld <w> <addr> <label>            accessor load                                   -> label=<decimal>
 *   bytes <addr> <n> <label>         raw bytes                                        -> label=<hex>
 *   call <abi> <name> <label> <args> abi = p1|un; an argument `@<addr>` / `#<addr>` is the u32 / u64 loaded (accessor)
 *                                    from <addr>                                      -> label=<errno>
 *   dirents <buf> <usedaddr> <label> walk the fd_readdir output (bufused loaded from <usedaddr>): per entry
 *                                                                                      -> label.<k>=<d_next d_ino d_namlen d_type pad name-hex>
 *   hopen <path> <flags> <label> <a> host open(2) (flags: r|w|rw then +append +nonblock +sync +dsync) registered with
 *                                    wasiFileDescriptorAdd; the wasi fd is stored (accessor, u32) at <a>
 *                                                                                      -> label=<wasi fd>
 *   hstat <path> <follow> <label>    host stat/lstat                                  -> label=<dev ino nlink size as an ans ms mns cs cns mode>
 *   now <clockid> <label>            host clock_gettime (WASI clock id 0..3)           -> label=<ns>
 */
#define _GNU_SOURCE 1
#include <errno.h>
#include <fcntl.h>
#include <stdio.h>
#include <stdlib.h>
#include <string.h>
#include <sys/stat.h>
#include <sys/types.h>
#include <time.h>
#include <unistd.h>

#include "wasi/wasi.h"

#define DECL2(ret, name, params) \
    ret wasi_snapshot_preview1__##name params; \
    ret wasi_unstable__##name params;
DECL2(U32, fd_write, (void*, U32, U32, U32, U32))
DECL2(U32, fd_pwrite, (void*, U32, U32, U32, U64, U32))
DECL2(U32, fd_read, (void*, U32, U32, U32, U32))
DECL2(U32, fd_pread, (void*, U32, U32, U32, U64, U32))
DECL2(U32, environ_sizes_get, (void*, U32, U32))
DECL2(U32, environ_get, (void*, U32, U32))
DECL2(U32, args_sizes_get, (void*, U32, U32))
DECL2(U32, args_get, (void*, U32, U32))
DECL2(U32, fd_seek, (void*, U32, U64, U32, U32))
DECL2(U32, fd_tell, (void*, U32, U32))
DECL2(U32, fd_readdir, (void*, U32, U32, U32, U64, U32))
DECL2(U32, fd_close, (void*, U32))
DECL2(U32, clock_time_get, (void*, U32, U64, U32))
DECL2(U32, clock_res_get, (void*, U32, U32))
DECL2(U32, fd_fdstat_get, (void*, U32, U32))
DECL2(U32, fd_prestat_get, (void*, U32, U32))
DECL2(U32, fd_prestat_dir_name, (void*, U32, U32, U32))
DECL2(U32, path_open, (void*, U32, U32, U32, U32, U32, U64, U64, U32, U32))
DECL2(U32, fd_filestat_get, (void*, U32, U32))
DECL2(U32, path_filestat_get, (void*, U32, U32, U32, U32, U32))
DECL2(U32, path_readlink, (void*, U32, U32, U32, U32, U32, U32))
DECL2(U32, path_symlink, (void*, U32, U32, U32, U32, U32))
DECL2(U32, path_create_directory, (void*, U32, U32, U32))
DECL2(U32, path_rename, (void*, U32, U32, U32, U32, U32, U32))
DECL2(U32, path_unlink_file, (void*, U32, U32, U32))
DECL2(U32, poll_oneoff, (void*, U32, U32, U32, U32))
DECL2(U32, random_get, (void*, U32, U32))

#define PAGES 2u
static wasmMemory* guest;
wasmMemory* wasiMemory(void* instance) { (void) instance; return guest; }
void trap(Trap t) { fprintf(stderr, "trap %d\n", (int) t); fflush(stdout); abort(); }

static void chk(U64 addr, U64 n) {
    if (addr + n > (U64) PAGES * 65536u) { fprintf(stderr, "harness: guest address %llu+%llu out of range\n", (unsigned long long) addr, (unsigned long long) n); exit(3); }
}

/* the guest's view of a field: ONLY through the accessors of this build */
static U64 gload(int w, U32 a) {
    chk(a, (U64) w);
    switch (w) {
    case 1: return i32_load8_u(guest, a);
    case 2: return i32_load16_u(guest, a);
    case 4: return i32_load(guest, a);
    default: return i64_load(guest, a);
    }
}
static void gstore(int w, U32 a, U64 v) {
    chk(a, (U64) w);
    switch (w) {
    case 1: i32_store8(guest, a, (U32) v); break;
    case 2: i32_store16(guest, a, (U32) v); break;
    case 4: i32_store(guest, a, (U32) v); break;
    default: i64_store(guest, a, v); break;
    }
}

#define MAXW 24
static char* w[MAXW];
static int nw;
static U64 arg(int i) {
    if (i >= nw) { fprintf(stderr, "harness: missing argument %d\n", i); exit(3); }
    if (w[i][0] == '@') return gload(4, (U32) strtoull(w[i] + 1, NULL, 10));
    if (w[i][0] == '#') return gload(8, (U32) strtoull(w[i] + 1, NULL, 10));
    return strtoull(w[i], NULL, 10);
}
#define A(i) arg(4 + (i))
#define A32(i) ((U32) A(i))

static int unhex(const char* s, U8* out) {
    int n = 0;
    if (s[0] == '-') return 0;
    while (s[0] && s[1]) { unsigned v; sscanf(s, "%2x", &v); out[n++] = (U8) v; s += 2; }
    return n;
}

static U32 call(int un, const char* nm) {
#define D(name, args) if (!strcmp(nm, #name)) return un ? wasi_unstable__##name args : wasi_snapshot_preview1__##name args;
    D(fd_write, (NULL, A32(0), A32(1), A32(2), A32(3)))
    D(fd_pwrite, (NULL, A32(0), A32(1), A32(2), A(3), A32(4)))
    D(fd_read, (NULL, A32(0), A32(1), A32(2), A32(3)))
    D(fd_pread, (NULL, A32(0), A32(1), A32(2), A(3), A32(4)))
    D(environ_sizes_get, (NULL, A32(0), A32(1)))
    D(environ_get, (NULL, A32(0), A32(1)))
    D(args_sizes_get, (NULL, A32(0), A32(1)))
    D(args_get, (NULL, A32(0), A32(1)))
    D(fd_seek, (NULL, A32(0), A(1), A32(2), A32(3)))
    D(fd_tell, (NULL, A32(0), A32(1)))
    D(fd_readdir, (NULL, A32(0), A32(1), A32(2), A(3), A32(4)))
    D(fd_close, (NULL, A32(0)))
    D(clock_time_get, (NULL, A32(0), A(1), A32(2)))
    D(clock_res_get, (NULL, A32(0), A32(1)))
    D(fd_fdstat_get, (NULL, A32(0), A32(1)))
    D(fd_prestat_get, (NULL, A32(0), A32(1)))
    D(fd_prestat_dir_name, (NULL, A32(0), A32(1), A32(2)))
    D(path_open, (NULL, A32(0), A32(1), A32(2), A32(3), A32(4), A(5), A(6), A32(7), A32(8)))
    D(fd_filestat_get, (NULL, A32(0), A32(1)))
    D(path_filestat_get, (NULL, A32(0), A32(1), A32(2), A32(3), A32(4)))
    D(path_readlink, (NULL, A32(0), A32(1), A32(2), A32(3), A32(4), A32(5)))
    D(path_symlink, (NULL, A32(0), A32(1), A32(2), A32(3), A32(4)))
    D(path_create_directory, (NULL, A32(0), A32(1), A32(2)))
    D(path_rename, (NULL, A32(0), A32(1), A32(2), A32(3), A32(4), A32(5)))
    D(path_unlink_file, (NULL, A32(0), A32(1), A32(2)))
    D(poll_oneoff, (NULL, A32(0), A32(1), A32(2), A32(3)))
    D(random_get, (NULL, A32(0), A32(1)))
#undef D
    fprintf(stderr, "harness: unknown call %s\n", nm);
    exit(3);
}

int main(int argc, char** argv) {
    static char line[1 << 17];
    static U8 buf[1 << 16];
    char** gargv;
    char** genvp;
    int gargc = 0, i, sep;
    U32 pre = 0;
    if (argc < 2 || chdir(argv[1]) != 0) { perror("chdir"); return 3; }
    sep = argc;
    for (i = 2; i < argc; i++) if (!strcmp(argv[i], "--")) { sep = i; break; }
    gargc = sep - 2;
    gargv = argv + 2;
    genvp = calloc((size_t) (argc - sep + 1), sizeof(char*));
    for (i = sep + 1; i < argc; i++) genvp[i - sep - 1] = argv[i];
    if (sep < argc) argv[sep] = NULL;
    guest = wasmMemoryAllocate(PAGES, PAGES, false);
    if (!wasiInit(gargc, gargv, genvp)) return 3;
    if (!wasiFileDescriptorAdd(-1, ".", &pre) || pre != 3) return 3;
    while (fgets(line, sizeof line, stdin)) {
        nw = 0;
        { char* p = strtok(line, " \n"); while (p && nw < MAXW) { w[nw++] = p; p = strtok(NULL, " \n"); } }
        if (nw == 0) continue;
        if (!strcmp(w[0], "poke") && nw == 3) {
            U32 a = (U32) strtoul(w[1], NULL, 10);
            int n = unhex(w[2], buf);
            chk(a, (U64) n);
            memcpy(guest->data + a, buf, (size_t) n);
        } else if (!strcmp(w[0], "fill") && nw == 4) {
            U32 a = (U32) strtoul(w[1], NULL, 10), n = (U32) strtoul(w[2], NULL, 10);
            chk(a, n);
            memset(guest->data + a, (int) strtoul(w[3], NULL, 10), n);
        } else if (!strcmp(w[0], "st") && nw == 4) {
            gstore(atoi(w[1]), (U32) strtoul(w[2], NULL, 10), strtoull(w[3], NULL, 10));
        } else if (!strcmp(w[0], "ld") && nw == 4) {
            printf("%s=%llu\n", w[3], (unsigned long long) gload(atoi(w[1]), (U32) strtoul(w[2], NULL, 10)));
        } else if (!strcmp(w[0], "bytes") && nw == 4) {
            U32 a = (U32) strtoul(w[1], NULL, 10), n = (U32) strtoul(w[2], NULL, 10), k;
            chk(a, n);
            printf("%s=", w[3]);
            for (k = 0; k < n; k++) printf("%02x", guest->data[a + k]);
            printf("\n");
        } else if (!strcmp(w[0], "call") && nw >= 4) {
            U32 r = call(!strcmp(w[1], "un"), w[2]);
            printf("%s=%u\n", w[3], r);
        } else if (!strcmp(w[0], "dirents") && nw == 4) {
            U32 b = (U32) strtoul(w[1], NULL, 10), used = (U32) gload(4, (U32) strtoul(w[2], NULL, 10)), o = 0, k = 0, j;
            printf("%s.used=%u\n", w[3], used);
            if ((U64) b + used > (U64) PAGES * 65536u) used = 0;      /* a garbage length: nothing to walk */
            while (o + 24 <= used) {
                U32 nl = (U32) gload(4, b + o + 16), take = nl;
                if (take > used - o - 24) take = used - o - 24;
                printf("%s.%u=%llu %llu %u %u ", w[3], k, (unsigned long long) gload(8, b + o), (unsigned long long) gload(8, b + o + 8), nl, (unsigned) gload(1, b + o + 20));
                for (j = 21; j < 24; j++) printf("%02x", guest->data[b + o + j]);
                printf(" ");
                for (j = 0; j < take; j++) printf("%02x", guest->data[b + o + 24 + j]);
                printf("\n");
                o += 24 + take;
                k++;
            }
            printf("%s.rest=%u\n", w[3], used - o);
        } else if (!strcmp(w[0], "hopen") && nw == 5) {
            int fl = 0, fd;
            U32 wfd = 0;
            if (!strncmp(w[2], "rw", 2)) fl = O_RDWR; else if (w[2][0] == 'w') fl = O_WRONLY; else fl = O_RDONLY;
            if (strstr(w[2], "+append")) fl |= O_APPEND;
            if (strstr(w[2], "+nonblock")) fl |= O_NONBLOCK;
            if (strstr(w[2], "+sync")) fl |= O_SYNC;
            if (strstr(w[2], "+dsync")) fl |= O_DSYNC;
            fd = open(w[1], fl);
            if (fd < 0 || !wasiFileDescriptorAdd(fd, NULL, &wfd)) printf("%s=fail\n", w[3]);
            else { gstore(4, (U32) strtoul(w[4], NULL, 10), wfd); printf("%s=%u\n", w[3], wfd); }
        } else if (!strcmp(w[0], "hstat") && nw == 4) {
            struct stat st;
            int r = atoi(w[2]) ? stat(w[1], &st) : lstat(w[1], &st);
            if (r != 0) printf("%s=fail\n", w[3]);
            else printf("%s=%lld %llu %llu %lld %lld %ld %lld %ld %lld %ld %u\n", w[3], (long long) st.st_dev, (unsigned long long) st.st_ino,
                        (unsigned long long) st.st_nlink, (long long) st.st_size, (long long) st.st_atim.tv_sec, (long) st.st_atim.tv_nsec,
                        (long long) st.st_mtim.tv_sec, (long) st.st_mtim.tv_nsec, (long long) st.st_ctim.tv_sec, (long) st.st_ctim.tv_nsec, (unsigned) st.st_mode);
        } else if (!strcmp(w[0], "now") && nw == 3) {
            static const clockid_t ids[4] = { CLOCK_REALTIME, CLOCK_MONOTONIC, CLOCK_PROCESS_CPUTIME_ID, CLOCK_THREAD_CPUTIME_ID };
            struct timespec ts;
            int id = atoi(w[1]);
            if (id < 0 || id > 3 || clock_gettime(ids[id], &ts) != 0) printf("%s=fail\n", w[2]);
            else printf("%s=%llu\n", w[2], (unsigned long long) ts.tv_sec * 1000000000ull + (unsigned long long) ts.tv_nsec);
        } else {
            fprintf(stderr, "harness: bad command `%s` (%d words)\n", w[0], nw);
            return 3;
        }
        fflush(stdout);
    }
    fflush(stdout);
    return 0;
}
