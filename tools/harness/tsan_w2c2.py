"""tsan_w2c2 — the REAL translator under ThreadSanitizer (C09: worker scheduling never changes what is emitted).

  * builds w2c2 from the scratch copy of /repo with `-fsanitize=thread` (clang, else gcc);
  * `consts_module(nf, nc, seed)`: a directed module of `nf` functions, each a long run of DISTINCT f64 / f32 / i64 / i32
    constants folded into its result (so every function text is full of literal digits — what a shared formatter
    scratch buffer would corrupt; seeded change C09/5) plus a few calls, locals and blocks;
  * `run(...)`: `w2c2 -t N -f F` under TSan; every `WARNING: ThreadSanitizer` report whose stack has a frame in the
    translator's sources is returned (kind, first w2c2 frame, racing object if named), together with the files written;
  * the files of every multi-threaded run are compared byte for byte with the `-t 1` output of the same build.

Nothing here judges anything against a model: a data race inside w2c2 or a differing file IS the property failing.
"""
import os
import random
import re
import shutil
import struct
import subprocess

import opmods

T = {"i32": 0x7F, "i64": 0x7E, "f32": 0x7D, "f64": 0x7C}


def build(repo_copy, workdir, name="w2c2_tsan"):
    """-> (exe, compiler) ; raises RuntimeError when neither compiler can build a ThreadSanitizer binary"""
    srcs = [os.path.join(repo_copy, "w2c2", f) for f in sorted(os.listdir(os.path.join(repo_copy, "w2c2")))
            if f.endswith(".c") and not f.endswith("_test.c") and f != "test.c"]
    exe = os.path.join(workdir, name)
    err = ""
    for cc in ("clang", "gcc"):
        if shutil.which(cc) is None:
            continue
        p = subprocess.run([cc, "-O1", "-g", "-w", "-fno-omit-frame-pointer", "-fsanitize=thread"] + opmods.W2C2_DEFS + srcs +
                           ["-o", exe, "-lpthread", "-lm"], stdout=subprocess.PIPE, stderr=subprocess.PIPE, text=True)
        if p.returncode == 0:
            # the binary must run at all (TSan needs a compatible address-space layout)
            q = subprocess.run([exe, "-h"], stdout=subprocess.PIPE, stderr=subprocess.PIPE, text=True)
            if q.returncode == 0 and "FATAL" not in q.stderr:
                return exe, cc
            err += f"{cc}: binary does not start: {q.stderr[-300:]}\n"
        else:
            err += f"{cc}: {p.stderr[-600:]}\n"
    raise RuntimeError("cannot build w2c2 with -fsanitize=thread:\n" + err)


def _sleb(v, bits):
    if v >= 1 << (bits - 1):
        v -= 1 << bits
    out = bytearray()
    while True:
        b = v & 0x7F
        v >>= 7
        if (v == 0 and not b & 0x40) or (v == -1 and b & 0x40):
            out.append(b)
            return bytes(out)
        out.append(b | 0x80)


def consts_module(nf, nc, seed):
    """nf functions `(i32) -> f64`; function k: acc = 0.0; nc times `acc = acc + <const of a rotating type, converted>`;
    all constants distinct (finite, non-integral floats with long digit strings; i64 of every LEB length)."""
    rng = random.Random("tsan-consts:%s" % seed)
    leb, vec, sec = opmods.leb, opmods.vec, opmods.sec
    types = vec([bytes([0x60, 0x01, T["i32"], 0x01, T["f64"]])])
    funcs = vec([leb(0)] * nf)
    exports = vec([leb(len(nm)) + nm + b"\x00" + leb(k) for k in range(nf) for nm in [b"x%d" % k]])
    bodies = []
    for k in range(nf):
        b = bytearray(b"\x01\x01" + bytes([T["f64"]]))           # one f64 local (index 1)
        for j in range(nc):
            which = (k + j) % 8
            b += b"\x20\x01"                                        # local.get 1
            if which in (0, 1, 2, 3, 4):                            # f64.const
                e = rng.randrange(1, 2046)
                bits = (rng.getrandbits(1) << 63) | (e << 52) | rng.getrandbits(52)
                b += b"\x44" + struct.pack("<Q", bits)
            elif which == 5:                                        # f32.const; f64.promote_f32
                e = rng.randrange(1, 254)
                bits = (rng.getrandbits(1) << 31) | (e << 23) | rng.getrandbits(23)
                b += b"\x43" + struct.pack("<I", bits) + b"\xbb"
            elif which == 6:                                        # i64.const; f64.convert_i64_s
                b += b"\x42" + _sleb(rng.getrandbits(rng.randrange(1, 65)), 64) + b"\xb9"
            else:                                                   # i32.const; f64.convert_i32_u
                b += b"\x41" + _sleb(rng.getrandbits(32), 32) + b"\xb8"
            b += b"\xa0\x21\x01"                                    # f64.add ; local.set 1
        if k:                                                       # a call to the previous function under a block
            b += b"\x02\x40\x20\x00\x45\x0d\x00\x20\x00\x41\x01\x6b\x10" + leb(k - 1) + b"\x20\x01\xa0\x21\x01\x0b"
        b += b"\x20\x01\x0b"
        bodies.append(leb(len(b)) + bytes(b))
    return b"\x00asm\x01\x00\x00\x00" + sec(1, types) + sec(3, funcs) + sec(7, exports) + sec(10, vec(bodies))


def parse_reports(stderr):
    """[(kind, first frame inside w2c2 `func file:line`, description)] of ThreadSanitizer warnings that involve translator code"""
    out = []
    for block in re.split(r"(?m)^={10,}$", stderr):
        m = re.search(r"WARNING: ThreadSanitizer: ([^\n(]+)", block)
        if not m:
            continue
        kind = m.group(1).strip()
        frames = re.findall(r"#\d+ (\w+) [^\n]*?/w2c2/(\w+\.[ch]):(\d+)", block)
        if not frames:
            continue
        loc = re.search(r"Location is ([^\n]+)", block)
        site = "%s %s:%s" % frames[0]
        out.append((kind, site, (loc.group(1)[:120] if loc else "")))
    return out


def run(exe, workdir, tag, wasm, opts, ref=None, timeout=300):
    d = os.path.join(workdir, "tsan_" + tag)
    shutil.rmtree(d, ignore_errors=True)
    os.makedirs(d)
    open(os.path.join(d, "m.wasm"), "wb").write(wasm)
    o = list(opts)
    if ref is not None:
        open(os.path.join(d, "ref.wasm"), "wb").write(ref)
        o += ["-r", "ref.wasm"]
    env = dict(os.environ)
    env["TSAN_OPTIONS"] = "halt_on_error=0:report_signal_unsafe=0:exitcode=0:history_size=4"
    try:
        p = subprocess.run([exe] + o + ["m.wasm", "m.c"], cwd=d, stdout=subprocess.PIPE, stderr=subprocess.PIPE, env=env, timeout=timeout)
        rc, err = p.returncode, p.stderr.decode("latin-1")
    except subprocess.TimeoutExpired:
        rc, err = "timeout", ""
    files = {}
    for f in sorted(os.listdir(d)):
        if f.endswith(".c") or f.endswith(".h"):
            files[f] = open(os.path.join(d, f), "rb").read()
    shutil.rmtree(d, ignore_errors=True)
    return {"rc": rc, "reports": parse_reports(err), "files": files, "stderr_tail": err[-1500:]}
