"""opmods — end-to-end tie for every numeric instruction: a module with one exported function
per numeric opcode `(func (param …) (result r) local.get 0 [local.get 1] <op>)` is translated
by the REAL w2c2 (built from a scratch copy of /repo), compiled by gcc together with a line
protocol main, and executed on operand lines:

    n <wasmOpcodeEnumName> <ty:hex>…   ->  val <ty> <hex> | trap <code>

The Lean driver answers the same lines from the model of the emitted statement
(`Model.runNumeric` over Gen.emitTable + Gen.macros) and `N <mnemonic> …` from `Spec.numOp`.
"""
import os
import re
import subprocess
import sys

sys.path.insert(0, os.path.join(os.path.dirname(os.path.abspath(__file__)), "..", "extract"))
import gen_emit  # noqa: E402

VT = {"i32": 0x7f, "i64": 0x7e, "f32": 0x7d, "f64": 0x7c}
CT = {"i32": "U32", "i64": "U64", "f32": "F32", "f64": "F64"}


def numeric_ops():
    """[(enum name, mnemonic, [param types], result type)] for every numeric opcode w2c2 supports."""
    ops = []
    for t, T in (("i32", "I32"), ("i64", "I64")):
        ops.append((f"wasmOpcode{T}Eqz", f"{t}.eqz", [t], "i32"))
        for n, m in (("Eq", "eq"), ("Ne", "ne"), ("LtS", "lt_s"), ("LtU", "lt_u"), ("GtS", "gt_s"), ("GtU", "gt_u"),
                     ("LeS", "le_s"), ("LeU", "le_u"), ("GeS", "ge_s"), ("GeU", "ge_u")):
            ops.append((f"wasmOpcode{T}{n}", f"{t}.{m}", [t, t], "i32"))
        for n, m in (("Clz", "clz"), ("Ctz", "ctz"), ("PopCnt", "popcnt")):
            ops.append((f"wasmOpcode{T}{n}", f"{t}.{m}", [t], t))
        for n, m in (("Add", "add"), ("Sub", "sub"), ("Mul", "mul"), ("DivS", "div_s"), ("DivU", "div_u"),
                     ("RemS", "rem_s"), ("RemU", "rem_u"), ("And", "and"), ("Or", "or"), ("Xor", "xor"),
                     ("Shl", "shl"), ("ShrS", "shr_s"), ("ShrU", "shr_u"), ("Rotl", "rotl"), ("Rotr", "rotr")):
            ops.append((f"wasmOpcode{T}{n}", f"{t}.{m}", [t, t], t))
    for t, T in (("f32", "F32"), ("f64", "F64")):
        for n, m in (("Eq", "eq"), ("Ne", "ne"), ("Lt", "lt"), ("Gt", "gt"), ("Le", "le"), ("Ge", "ge")):
            ops.append((f"wasmOpcode{T}{n}", f"{t}.{m}", [t, t], "i32"))
        for n, m in (("Abs", "abs"), ("Neg", "neg"), ("Ceil", "ceil"), ("Floor", "floor"), ("Trunc", "trunc"),
                     ("Nearest", "nearest"), ("Sqrt", "sqrt")):
            ops.append((f"wasmOpcode{T}{n}", f"{t}.{m}", [t], t))
        for n, m in (("Add", "add"), ("Sub", "sub"), ("Mul", "mul"), ("Div", "div"), ("Min", "min"), ("Max", "max"),
                     ("CopySign", "copysign")):
            ops.append((f"wasmOpcode{T}{n}", f"{t}.{m}", [t, t], t))
    ops += [
        ("wasmOpcodeI32WrapI64", "i32.wrap_i64", ["i64"], "i32"),
        ("wasmOpcodeI32TruncF32S", "i32.trunc_f32_s", ["f32"], "i32"), ("wasmOpcodeI32TruncF32U", "i32.trunc_f32_u", ["f32"], "i32"),
        ("wasmOpcodeI32TruncF64S", "i32.trunc_f64_s", ["f64"], "i32"), ("wasmOpcodeI32TruncF64U", "i32.trunc_f64_u", ["f64"], "i32"),
        ("wasmOpcodeI64ExtendI32S", "i64.extend_i32_s", ["i32"], "i64"), ("wasmOpcodeI64ExtendI32U", "i64.extend_i32_u", ["i32"], "i64"),
        ("wasmOpcodeI64TruncF32S", "i64.trunc_f32_s", ["f32"], "i64"), ("wasmOpcodeI64TruncF32U", "i64.trunc_f32_u", ["f32"], "i64"),
        ("wasmOpcodeI64TruncF64S", "i64.trunc_f64_s", ["f64"], "i64"), ("wasmOpcodeI64TruncF64U", "i64.trunc_f64_u", ["f64"], "i64"),
        ("wasmOpcodeF32ConvertI32S", "f32.convert_i32_s", ["i32"], "f32"), ("wasmOpcodeF32ConvertI32U", "f32.convert_i32_u", ["i32"], "f32"),
        ("wasmOpcodeF32ConvertI64S", "f32.convert_i64_s", ["i64"], "f32"), ("wasmOpcodeF32ConvertI64U", "f32.convert_i64_u", ["i64"], "f32"),
        ("wasmOpcodeF32DemoteF64", "f32.demote_f64", ["f64"], "f32"),
        ("wasmOpcodeF64ConvertI32S", "f64.convert_i32_s", ["i32"], "f64"), ("wasmOpcodeF64ConvertI32U", "f64.convert_i32_u", ["i32"], "f64"),
        ("wasmOpcodeF64ConvertI64S", "f64.convert_i64_s", ["i64"], "f64"), ("wasmOpcodeF64ConvertI64U", "f64.convert_i64_u", ["i64"], "f64"),
        ("wasmOpcodeF64PromoteF32", "f64.promote_f32", ["f32"], "f64"),
        ("wasmOpcodeI32ReinterpretF32", "i32.reinterpret_f32", ["f32"], "i32"), ("wasmOpcodeI64ReinterpretF64", "i64.reinterpret_f64", ["f64"], "i64"),
        ("wasmOpcodeF32ReinterpretI32", "f32.reinterpret_i32", ["i32"], "f32"), ("wasmOpcodeF64ReinterpretI64", "f64.reinterpret_i64", ["i64"], "f64"),
        ("wasmOpcodeI32Extend8S", "i32.extend8_s", ["i32"], "i32"), ("wasmOpcodeI32Extend16S", "i32.extend16_s", ["i32"], "i32"),
        ("wasmOpcodeI64Extend8S", "i64.extend8_s", ["i64"], "i64"), ("wasmOpcodeI64Extend16S", "i64.extend16_s", ["i64"], "i64"),
        ("wasmOpcodeI64Extend32S", "i64.extend32_s", ["i64"], "i64"),
    ]
    for i, it in (("I32", "i32"), ("I64", "i64")):
        for f, ft in (("F32", "f32"), ("F64", "f64")):
            for s, sl in (("S", "s"), ("U", "u")):
                ops.append((f"wasmMiscOpcode{i}TruncSat{f}{s}", f"{it}.trunc_sat_{ft}_{sl}", [ft], it))
    return ops


def is_int_op(op):
    return op[1].split(".")[0] in ("i32", "i64") and all(p in ("i32", "i64") for p in op[2]) \
        or op[1] in ("i32.wrap_i64", "i64.extend_i32_s", "i64.extend_i32_u")


def leb(n):
    out = b""
    while True:
        b = n & 0x7f
        n >>= 7
        if n:
            out += bytes([b | 0x80])
        else:
            return out + bytes([b])


def vec(items):
    return leb(len(items)) + b"".join(items)


def sec(i, payload):
    return bytes([i]) + leb(len(payload)) + payload


def build_module(repo, ops):
    """One function per op, exported as o<k>.  Opcode bytes come from /repo/w2c2/opcode.h."""
    oh = gen_emit.strip_comments(open(os.path.join(repo, "w2c2", "opcode.h")).read())
    main = dict(gen_emit.enum_values(oh, "WasmOpcode", "opcode.h"))
    misc = dict(gen_emit.enum_values(oh, "WasmMiscOpcode", "opcode.h"))
    types = []
    tindex = {}
    funcs = []
    bodies = []
    exports = []
    for k, (name, mn, params, res) in enumerate(ops):
        sig = (tuple(params), res)
        if sig not in tindex:
            tindex[sig] = len(types)
            types.append(b"\x60" + vec([bytes([VT[p]]) for p in params]) + vec([bytes([VT[res]])]))
        funcs.append(leb(tindex[sig]))
        code = b"".join(b"\x20" + leb(i) for i in range(len(params)))
        if name in main:
            code += bytes([main[name]])
        elif name in misc:
            code += bytes([main["wasmOpcodeMiscPrefix"]]) + leb(misc[name])
        else:
            raise RuntimeError(f"opcode {name} not in opcode.h")
        body = b"\x00" + code + b"\x0b"
        bodies.append(leb(len(body)) + body)
        en = ("o%d" % k).encode()
        exports.append(leb(len(en)) + en + b"\x00" + leb(k))
    return (b"\0asm\x01\0\0\0" + sec(1, vec(types)) + sec(3, vec(funcs)) + sec(7, vec(exports)) + sec(10, vec(bodies)))


W2C2_DEFS = ["-DHAS_PTHREAD=1", "-DHAS_UNISTD=1", "-DHAS_GETOPT=1", "-DHAS_LIBGEN=1", "-DHAS_STRDUP=1", "-DHAS_GLOB=1"]


def build_w2c2(repo_copy, workdir, cc="gcc", extra=()):
    exe = os.path.join(workdir, "w2c2")
    srcs = [os.path.join(repo_copy, "w2c2", f) for f in sorted(os.listdir(os.path.join(repo_copy, "w2c2")))
            if f.endswith(".c") and not f.endswith("_test.c") and f != "test.c"]
    p = subprocess.run([cc, "-O1", "-w"] + list(extra) + W2C2_DEFS + srcs + ["-o", exe, "-lpthread", "-lm"],
                       stdout=subprocess.PIPE, stderr=subprocess.PIPE, text=True)
    if p.returncode != 0:
        raise RuntimeError("w2c2 build failed:\n" + p.stderr[-3000:])
    return exe


MAIN_C = r'''
#include <stdio.h>
#include <string.h>
#include <setjmp.h>
#include <stdlib.h>
#include "w2c2_base.h"
#include "ops.h"
static jmp_buf jb; static Trap trapCode;
void trap(Trap t) { trapCode = t; longjmp(jb, 1); }
U32 wasmMemoryAtomicWait(wasmMemory* m, U32 a, U64 e, I64 t, bool w) { (void)m;(void)a;(void)e;(void)t;(void)w; return 0; }
U32 wasmMemoryAtomicNotify(wasmMemory* m, U32 a, U32 c) { (void)m;(void)a;(void)c; return 0; }
typedef union { U32 i32; U64 i64; F32 f32; F64 f64; U32 b32; U64 b64; } V;
static opsInstance inst;
static int parseVal(const char* s, char* ty, V* v) {
  const char* c = strchr(s, ':'); if (!c || c - s > 6) return 0;
  memcpy(ty, s, c - s); ty[c - s] = 0;
  unsigned long long bits = strtoull(c + 1, NULL, 16);
  memset(v, 0, sizeof *v);
  if (!strcmp(ty, "i32") || !strcmp(ty, "f32")) v->b32 = (U32)bits; else v->b64 = bits;
  return 1;
}
int main(void) {
  static char line[1024];
  setvbuf(stdout, NULL, _IOLBF, 0);   /* every answer reaches the pipe before the next request runs: a crash loses nothing */
  opsInstantiate(&inst, NULL);
  while (fgets(line, sizeof line, stdin)) {
    char* w[8]; int n = 0; char* p = strtok(line, " \n");
    while (p && n < 8) { w[n++] = p; p = strtok(NULL, " \n"); }
    if (n < 2 || strcmp(w[0], "n")) { puts("err unknown-command"); continue; }
    V a[4]; char tys[4][8]; int na = n - 2; int ok = 1;
    for (int i = 0; i < na && i < 4; i++) if (!parseVal(w[2 + i], tys[i], &a[i])) ok = 0;
    if (!ok) { puts("err parse"); continue; }
    if (setjmp(jb)) { printf("trap %d\n", (int)trapCode); continue; }
    V r; memset(&r, 0, sizeof r);
@@DISPATCH@@
    puts("err unknown-op");
  }
  return 0;
}
'''


def build_harness(repo_copy, workdir, ops, cc="gcc", copts=("-O1",), w2c2_opts=()):
    w2c2 = build_w2c2(repo_copy, workdir)
    wasm = os.path.join(workdir, "ops.wasm")
    open(wasm, "wb").write(build_module(repo_copy, ops))
    p = subprocess.run([w2c2] + list(w2c2_opts) + [wasm, os.path.join(workdir, "ops.c")], stdout=subprocess.PIPE, stderr=subprocess.PIPE, text=True)
    if p.returncode != 0:
        raise RuntimeError(f"w2c2 failed on the op module: rc={p.returncode} {p.stderr[-1000:]}")
    disp = []
    for k, (name, mn, params, res) in enumerate(ops):
        cond = f'!strcmp(w[1], "{name}") && na == {len(params)}' + "".join(
            f' && !strcmp(tys[{i}], "{t}")' for i, t in enumerate(params))
        args = "".join(f", a[{i}].{t}" for i, t in enumerate(params))
        fmt = {"i32": '"val i32 %x\\n", r.b32', "i64": '"val i64 %llx\\n", r.b64',
               "f32": '"val f32 %x\\n", r.b32', "f64": '"val f64 %llx\\n", r.b64'}[res]
        disp.append(f"    if ({cond}) {{ r.{res} = ops_o{k}(&inst{args}); printf({fmt}); continue; }}\n")
    open(os.path.join(workdir, "opsmain.c"), "w").write(MAIN_C.replace("@@DISPATCH@@", "".join(disp)))
    exe = os.path.join(workdir, "opsexe")
    cmd = [cc] + list(copts) + ["-w", "-I", os.path.join(repo_copy, "w2c2"), "-I", workdir,
                                 os.path.join(workdir, "ops.c"), os.path.join(workdir, "opsmain.c"), "-o", exe, "-lm"]
    p = subprocess.run(cmd, stdout=subprocess.PIPE, stderr=subprocess.PIPE, text=True)
    if p.returncode != 0:
        raise RuntimeError("compiling w2c2 output failed:\n" + p.stderr[-3000:])
    return exe, os.path.join(workdir, "ops.c")


def emitted_statements(ops_c, ops):
    """The statement w2c2 wrote for each op (text between the operand loads and `L0:`)."""
    text = open(ops_c).read()
    res = {}
    for m in re.finditer(r"^\w+ f(\d+)\([^)]*\) \{\n(.*?)\n\}", text, re.S | re.M):
        k = int(m.group(1))
        lines = m.group(2).split("\n")
        body = [l for l in lines if l and not re.match(r"^(U32|U64|F32|F64) s", l) and not re.match(r"^s[ijfd]\d=l\d;$", l)
                and not l.startswith("L0") and not l.startswith("return")]
        if k < len(ops):
            res[ops[k][0]] = body
    return res


def line_for(op, vals):
    return "n %s %s" % (op[0], " ".join("%s:%x" % (t, v) for t, v in zip(op[2], vals)))


def spec_line_for(op, vals):
    return "N %s %s" % (op[1], " ".join("%s:%x" % (t, v) for t, v in zip(op[2], vals)))
