"""Valid modules whose `name` custom section sits in every legal position (custom sections may appear anywhere), for the `-g`
runs of C10: before the type / import / function section, right after the function section, before the export / code / data
section, at the end; with 0..n function imports, exported and non-exported functions, and name subsections that are complete,
partial (only some functions / only the imports / only the last function), empty, missing (module name only, locals only) or
in non-canonical order (locals before functions).

The translator sizes its name table by the function index space known when the section is read
(`importCount + functions.count` at that point): in front of the function section the table is SHORTER than the index space
the declaration writer later walks.

Also part of the family (both were defects of /repo ed458af found with it, fixed by f819d99 and 67c631b, witnesses kept in
tools/corpus/C10/):
  * names for function indices the reader has not seen yet at the section's position (`all-anyway`, `beyond-known`): the old
    reader rejected the valid module ("invalid name section function index", exit 1);
  * two or three name sections in every pair of positions, with distinct names, the same names again, and the same name for
    different functions across sections: a later, longer table is grown by realloc and the old reader left the new slots
    uninitialised before wasmFunctionNamesRemoveDuplicates handed them to strcmp.
"""
import wasmgen.wasm_ast as A
from wasmgen import encode

# slot k places the custom section before the k-th entry of SECTION_ORDER (type import function table memory global export start
# element datacount code data); 12 = at the end
SLOTS = {"before-type": 0, "before-import": 1, "before-function": 2, "after-function": 3, "before-export": 6,
         "before-code": 10, "before-data": 11, "at-end": 12}
G_OPTS = [["-g", "-t", "1"], ["-g", "-p", "-m"], ["-g", "-f", "1", "-t", "2"], ["-g", "-c", "-f", "2", "-t", "1"], ["-g", "-m", "-d", "gnu-ld"]]


def base_module(nimports, nfuncs, exported):
    m = A.Module()
    m.types = [A.FuncType([A.I32], [A.I32])]
    m.imports = [A.Import(b"env", b"imp%d" % i, "func", 0) for i in range(nimports)]
    m.funcs = [A.Function(0, [], [A.Instr("local.get", 0), A.Instr("i32.const", i + 1), A.Instr("i32.add")]) for i in range(nfuncs)]
    m.mems = [A.Limits(1, None)]
    m.datas = [A.DataSegment("active", b"names", A.Instr("i32.const", 8), 0)]
    m.exports = [A.Export(b"e%d" % i, "func", nimports + i) for i in exported if i < nfuncs]
    return m


def known_at(slot, nimports, nfuncs):
    """number of function indices the reader knows when a custom section in `slot` is read"""
    if slot <= 1:
        return 0
    if slot == 2:
        return nimports
    return nimports + nfuncs


def name_payload(style, known, nimports, total=None, prefix=b"dbg_"):
    """NameSection (or raw bytes) for `style`; the styles other than all-anyway / beyond-known name only indices < known"""
    idx = list(range(known))
    if style == "all":
        pass
    elif style == "all-anyway":
        idx = list(range(total))
    elif style == "beyond-known":
        idx = list(range(known, total))
    elif style == "same-name":
        idx = list(range(total))
    elif style == "some":
        idx = [i for i in idx if i % 2 == 0]
    elif style == "last":
        idx = idx[-1:]
    elif style == "imports-only":
        idx = [i for i in idx if i < nimports]
    elif style == "defined-only":
        idx = [i for i in idx if i >= nimports]
    elif style == "none":
        idx = []
    names = [(i, prefix + b"%d" % i) for i in idx]
    if style == "same-name":
        names = [(i, prefix + b"same") for i in idx]
    if style == "module-only":
        return A.NameSection(b"mod", None, None)
    if style == "locals-only":
        return A.NameSection(None, None, [(i, [(0, b"arg")]) for i in idx if i >= nimports])
    if style == "locals-first":
        # subsections in non-canonical order (2 then 1): raw payload
        def u32(n):
            out = bytearray()
            while True:
                b = n & 0x7F
                n >>= 7
                if n:
                    out.append(b | 0x80)
                else:
                    out.append(b)
                    return bytes(out)

        def vec(items):
            return u32(len(items)) + b"".join(items)

        def nm(b):
            return u32(len(b)) + b
        loc = vec([u32(i) + vec([u32(0) + nm(b"arg")]) for i in idx if i >= nimports])
        fn = vec([u32(i) + nm(n) for i, n in names])
        return b"\x02" + u32(len(loc)) + loc + b"\x01" + u32(len(fn)) + fn
    return A.NameSection(None, names, None)


STYLES = ("all", "some", "last", "imports-only", "defined-only", "none", "module-only", "locals-only", "locals-first",
          "all-anyway", "beyond-known")


def modules(rng, tier):
    """[(label, bytes, [option lists])]"""
    out = []
    shapes = [(0, 1), (0, 3), (1, 2), (3, 3), (2, 9)] if tier == "quick" else [(0, 1), (0, 3), (1, 1), (1, 2), (3, 3), (2, 9), (7, 12), (40, 3), (3, 40)]
    k = 0
    for nimports, nfuncs in shapes:
        for sname, slot in SLOTS.items():
            known = known_at(slot, nimports, nfuncs)
            for style in STYLES:
                if style in ("all-anyway", "beyond-known"):
                    if known == nimports + nfuncs:
                        continue                  # everything is known here: same as `all` / `none`
                elif known == 0 and style not in ("none", "module-only"):
                    continue                      # nothing can be named yet
                if style == "imports-only" and nimports == 0:
                    continue
                if style in ("defined-only", "locals-only", "locals-first") and known <= nimports:
                    continue
                for exported in ((), (0,), tuple(range(nfuncs))) if tier == "thorough" else ((), (0,)):
                    m = base_module(nimports, nfuncs, exported)
                    m.customs = [A.CustomSection(b"name", name_payload(style, known, nimports, nimports + nfuncs), slot)]
                    # an unrelated custom section next to it (readers skip it): position must not matter either
                    if k % 3 == 0:
                        m.customs.append(A.CustomSection(b"producers", b"\x00", slot))
                    nopt = len(G_OPTS) if tier == "thorough" else 2
                    opts = [G_OPTS[(k + j) % len(G_OPTS)] for j in range(nopt)]
                    if tier == "quick" and ["-g", "-t", "1"] not in opts and k % 4 == 0:
                        opts.append(["-g", "-t", "1"])
                    out.append(("names:%di+%df:%s:%s:x%d" % (nimports, nfuncs, sname, style, len(exported)), encode(m), opts))
                    k += 1
    # several name sections, every pair of positions
    multi_shapes = [(3, 3), (0, 4), (1, 12)] if tier == "quick" else [(3, 3), (0, 4), (1, 12), (5, 1), (2, 40)]
    slots = list(SLOTS.items())
    for nimports, nfuncs in multi_shapes:
        total = nimports + nfuncs
        for ia, (na, sa) in enumerate(slots):
            for nb, sb in slots[ia:]:
                ka, kb = known_at(sa, nimports, nfuncs), known_at(sb, nimports, nfuncs)
                variant = k % 4
                if variant == 0:        # distinct names; the second section names everything known there
                    secs = [(sa, name_payload("all" if ka else "none", ka, nimports, total, b"first_")),
                            (sb, name_payload("all" if kb else "none", kb, nimports, total, b"second_"))]
                elif variant == 1:      # the same name for different functions, within and across the sections
                    secs = [(sa, A.NameSection(None, [(i, b"dup") for i in range(0, ka, 2)], None)),
                            (sb, A.NameSection(None, [(i, b"dup") for i in range(1, kb, 2)], None))]
                elif variant == 2:      # indices not known yet in the first, a partial second
                    secs = [(sa, name_payload("all-anyway", ka, nimports, total, b"early_")),
                            (sb, name_payload("some" if kb else "none", kb, nimports, total, b"late_"))]
                else:                   # identical sections (same indices, same names)
                    secs = [(sa, name_payload("same-name", ka, nimports, total)), (sb, name_payload("same-name", kb, nimports, total))]
                if k % 5 == 0:
                    secs.append((12, name_payload("last", total, nimports, total, b"third_")))
                m = base_module(nimports, nfuncs, (0,) if k % 2 else ())
                m.customs = [A.CustomSection(b"name", pl, sl) for sl, pl in secs]
                nopt = len(G_OPTS) if tier == "thorough" else 2
                opts = [G_OPTS[(k + j) % len(G_OPTS)] for j in range(nopt)]
                out.append(("names:%di+%df:%s+%s:multi%d:x%d" % (nimports, nfuncs, na, nb, variant, k % 2), encode(m), opts))
                k += 1
    return out


def early_named():
    """witness 1 (ed458af: rejected, exit 1): name section in front of the function section naming a DEFINED function"""
    m = base_module(3, 3, ())
    m.customs = [A.CustomSection(b"name", A.NameSection(None, [(4, b"x")], None), 2)]
    return encode(m)


def two_sections():
    """witness 2 (ed458af: strcmp on uninitialised slots): a name section before the function section and another one at the end"""
    m = base_module(3, 3, ())
    m.customs = [A.CustomSection(b"name", A.NameSection(None, [(0, b"a")], None), 2),
                 A.CustomSection(b"name", A.NameSection(None, [(1, b"b")], None), 12)]
    return encode(m)


def selfcheck():
    import random
    from wasmgen import v8
    mods = modules(random.Random(1), "thorough")
    bad = [lab for lab, data, _ in mods if not v8.validate(data)]
    return len(mods), bad, v8.validate(early_named()), v8.validate(two_sections())


if __name__ == "__main__":
    print("modules, invalid according to V8, witnesses valid:", selfcheck())
