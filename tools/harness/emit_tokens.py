"""emit-tokens — the text the REAL w2c2 writes for every function of a module, compared token by
token with the text rendered by the Lean model of the translator (Model.Emit / Model.Render)
from the decoded module.  The module is handed to the Lean driver in a line protocol (`E …`);
opcode mnemonics are joined with w2c2's opcode enumerators by opcode byte (opcode.h)."""
import os
import re
import struct
import subprocess
import sys

HERE = os.path.dirname(os.path.abspath(__file__))
sys.path.insert(0, os.path.join(HERE, ".."))
sys.path.insert(0, os.path.join(HERE, "..", "extract"))
import gen_emit  # noqa: E402
from wasmgen import wasm_ast as A  # noqa: E402

VTC = {A.I32: "i", A.I64: "j", A.F32: "f", A.F64: "d"}
VTN = {A.I32: "i32", A.I64: "i64", A.F32: "f32", A.F64: "f64"}


class EnumJoin:
    def __init__(self, repo):
        oh = gen_emit.strip_comments(open(os.path.join(repo, "w2c2", "opcode.h")).read())
        self.main = {v: n for n, v in gen_emit.enum_values(oh, "WasmOpcode", "opcode.h")}
        self.misc = {v: n for n, v in gen_emit.enum_values(oh, "WasmMiscOpcode", "opcode.h")}
        self.threads = {v: n for n, v in gen_emit.enum_values(oh, "WasmThreadsOpcode", "opcode.h")}

    def name(self, mnemonic):
        o = A.OPS[mnemonic]
        if o.prefix is None:
            return self.main.get(o.code)
        if o.prefix == 0xFC:
            return self.misc.get(o.code)
        if o.prefix == 0xFE:
            return self.threads.get(o.code)
        return None


class Unsupported(Exception):
    pass


def hexb(b):
    return b.hex() if b else "-"


def bt_char(bt):
    return "_" if bt is None else VTC[bt]


def body_tokens(join, body):
    out = []
    for ins in body:
        op = ins.op
        imm = ins.imm
        if op in ("block", "loop"):
            out.append(f"{op}:{bt_char(imm[0] if imm else None)}")
            out += body_tokens(join, ins.body)
            out.append("end")
        elif op == "if":
            out.append(f"if:{bt_char(imm[0] if imm else None)}")
            out += body_tokens(join, ins.body)
            if ins.else_body is not None:
                out.append("else")
                out += body_tokens(join, ins.else_body)
            out.append("end")
        elif op in ("nop", "unreachable", "drop", "select"):
            out.append(op)
        elif op == "return":
            out.append("ret")
        elif op == "br":
            out.append(f"br:{imm[0]}")
        elif op == "br_if":
            out.append(f"brif:{imm[0]}")
        elif op == "br_table":
            out.append("brtable:%s:%d" % (",".join(str(x) for x in imm[0]), imm[1]))
        elif op == "call":
            out.append(f"call:{imm[0]}")
        elif op == "call_indirect":
            out.append(f"calli:{imm[0]}:0")
        elif op == "local.get":
            out.append(f"lget:{imm[0]}")
        elif op == "local.set":
            out.append(f"lset:{imm[0]}")
        elif op == "local.tee":
            out.append(f"ltee:{imm[0]}")
        elif op == "global.get":
            out.append(f"gget:{imm[0]}")
        elif op == "global.set":
            out.append(f"gset:{imm[0]}")
        elif op.endswith(".const"):
            t = op[:3]
            v = imm[0]
            w = 32 if t in ("i32", "f32") else 64
            out.append("const:%s:%x" % ({"i32": "i", "i64": "j", "f32": "f", "f64": "d"}[t], v & ((1 << w) - 1)))
        elif op == "memory.size":
            out.append("memsize")
        elif op == "memory.grow":
            out.append("memgrow")
        elif op == "memory.copy":
            out.append("memcopy")
        elif op == "memory.fill":
            out.append("memfill")
        elif op == "memory.init":
            out.append(f"meminit:{imm[0]}")
        elif op == "data.drop":
            out.append(f"datadrop:{imm[0]}")
        elif A.OPS[op].imm == "memarg" and A.OPS[op].prefix is None:
            en = join.name(op)
            kind = "load" if ".load" in op else "store"
            out.append(f"{kind}:{en}:{op}:{imm[0]}:{imm[1]}")
        elif op == "atomic.fence":
            out.append("fence")
        elif op == "memory.atomic.notify":
            out.append(f"notify:{imm[1]}")
        elif op in ("memory.atomic.wait32", "memory.atomic.wait64"):
            out.append(f"wait{op[-2:]}:{imm[1]}")
        elif A.OPS[op].imm == "memarg" and A.OPS[op].prefix == 0xFE:
            en = join.name(op)
            kind = "cmpxchg" if "cmpxchg" in op else "rmw" if ".rmw" in op else "aload" if ".load" in op else "astore"
            out.append(f"{kind}:{en}:{op}:{imm[0]}:{imm[1]}")
        elif A.OPS[op].imm == "none" and (A.OPS[op].prefix in (None, 0xFC)):
            out.append(f"num:{join.name(op)}:{op}")
        else:
            raise Unsupported(op)
    return out


def module_lines(join, m, module_name="m", multi=False, pretty=False):
    """E-protocol lines for a module; returns (lines, [func line index per defined function])."""
    lines = ["E reset", f"E name {module_name} {int(multi)} {int(pretty)}"]
    for ft in m.types:
        lines.append("E type %s %s" % ("".join(VTC[p] for p in ft.params) or "-", "".join(VTC[r] for r in ft.results) or "-"))
    nimp = 0
    for im in m.imports:
        if im.kind == "func":
            lines.append(f"E impfunc {hexb(im.module)} {hexb(im.field)} {im.desc}")
            nimp += 1
        elif im.kind == "global":
            lines.append(f"E impglobal {hexb(im.module)} {hexb(im.field)} {VTC[im.desc.valtype]}")
        elif im.kind == "memory":
            lines.append(f"E impmem {hexb(im.module)} {hexb(im.field)}")
        elif im.kind == "table":
            lines.append(f"E imptable {hexb(im.module)} {hexb(im.field)}")
    for g in m.globals:
        lines.append(f"E global {VTC[g.type.valtype]}")
    for f in m.funcs:
        lines.append(f"E deffunc {f.type}")
    func_lines = []
    for k, f in enumerate(m.funcs):
        locs = "".join(VTC[vt] * cnt for cnt, vt in f.locals) or "-"
        toks = body_tokens(join, f.body)
        func_lines.append(len(lines))
        lines.append("E func %d %s %s" % (nimp + k, locs, " ".join(toks)))
    return lines, func_lines


C_TOKEN = re.compile(r"""
    \s+ | /\*.*?\*/
  | (?P<t>0[xX][0-9a-fA-F]+[uUlL]* | (?:\d+\.\d*|\.\d+|\d+)(?:[eE][+-]?\d+)?[uUlLfF]* | [A-Za-z_][A-Za-z0-9_]*
       | "(?:[^"\\]|\\.)*" | <<=|>>=|->|\+\+|--|<<|>>|<=|>=|==|!=|&&|\|\||\+=|-=|\*=|/=|%=|&=|\|=|\^=|[-+*/%<>=!~&|^?:;,.(){}\[\]\#])
""", re.X | re.S)


def ctokens(text):
    out = []
    pos = 0
    while pos < len(text):
        m = C_TOKEN.match(text, pos)
        if not m:
            out.append(text[pos])
            pos += 1
            continue
        if m.group("t"):
            out.append(m.group("t"))
        pos = m.end()
    return out


def fmt_dec(m):
    ty, h = m.group(1), int(m.group(2), 16)
    if ty == "f32":
        return "%.9g" % struct.unpack("<f", struct.pack("<I", h))[0]
    return "%.17g" % struct.unpack("<d", struct.pack("<Q", h))[0]


def subst_dec(text):
    return re.sub(r"@DEC:(f32|f64):([0-9a-f]+)@", fmt_dec, text)


def real_functions(ctext, module_name="m", multi=False):
    """{function index: text of its definition} from a w2c2 implementation file."""
    res = {}
    pre = re.escape(module_name + "_") if multi else ""
    pat = re.compile(r"^(?:void|U32|U64|F32|F64) %sf(\d+)\(%sInstance\*\s?i[^)]*\) \{\n.*?^\}\n(?=\n|\Z)" % (pre, re.escape(module_name)), re.S | re.M)
    for m in pat.finditer(ctext):
        res[int(m.group(1))] = m.group(0)
    return res


_W2C2_FAILURES = {"n": 0}


def _limits():
    import resource
    # a translator gone wrong (seeded or real defect) must not eat the machine: 6 GiB address space, 60 s CPU
    resource.setrlimit(resource.RLIMIT_AS, (6 << 30, 6 << 30))
    resource.setrlimit(resource.RLIMIT_CPU, (60, 60))


def run_w2c2(w2c2, wasm_bytes, workdir, opts=(), name="m"):
    """-> (text of all emitted .c files, stderr) or (None, reason).  After 6 failures (crash / timeout / non-zero exit on a
    valid module) further modules are not attempted (circuit breaker): the first failures are what gets reported."""
    if _W2C2_FAILURES["n"] >= 6:
        return None, "not attempted: the real w2c2 already failed on %d earlier valid modules" % _W2C2_FAILURES["n"]
    wasm = os.path.join(workdir, name + ".wasm")
    out = os.path.join(workdir, name + ".c")
    open(wasm, "wb").write(wasm_bytes)
    for f in os.listdir(workdir):
        if re.fullmatch(r"[sd]\d{10}\.c", f):
            os.remove(os.path.join(workdir, f))
    try:
        p = subprocess.run([w2c2] + list(opts) + [wasm, out], stdout=subprocess.PIPE, stderr=subprocess.PIPE, text=True, timeout=90,
                           preexec_fn=_limits)
    except subprocess.TimeoutExpired:
        _W2C2_FAILURES["n"] += 1
        return None, "w2c2 did not terminate within 90 s"
    if p.returncode != 0:
        _W2C2_FAILURES["n"] += 1
        return None, "exit %d: %s" % (p.returncode, p.stderr[-500:])
    text = open(out).read()
    for f in sorted(os.listdir(workdir)):
        if re.fullmatch(r"[sd]\d{10}\.c", f):
            text += open(os.path.join(workdir, f)).read()
    return text, p.stderr
