"""wasi-endian — the WASI host (real wasi/wasi.c) in the little-endian and in the FORCED big-endian configuration
(-DWASM_ENDIAN=WASM_BIG_ENDIAN on this little-endian host), driven by tools/harness/wasi_endian.c (C19, host side).

The harness is a guest: it prepares iovec arrays and reads every result field back through the accessor functions of its own
build, at the offsets of the WASI witx records (written down here by hand, independently of wasi.c and of the Lean side), and
touches raw bytes only for paths / I/O buffers / padding.  In the forced build every accessor byte-swaps, so everything the
host wrote through accessors reads back with the same value as in the little-endian build, while a raw host-order write of a
16/32/64-bit object reads back byte-reversed (exactly the picture on a real big-endian host).  The two builds must therefore
print identical canonical `field=value` lines; a difference is a failing input (call sequence + field).

Host-determined values: both builds read one SHARED read-only tree (`ro/`, timestamps set with utime to generated values), so
device / inode / size / link count / times / directory cookies are compared exactly or against the harness's own stat() taken
immediately before the call (`host`); per-build scratch files (`rw/`) are compared against that stat only; clock readings must
lie between two host readings of the same clock; random bytes are reduced to "changed / guard bytes intact".
"""
import os
import subprocess

from wasi_ops import CMAKE_DEFINES

HERE = os.path.dirname(os.path.abspath(__file__))

# ---- the witx records (typenames.witx of wasi_snapshot_preview1 / wasi_unstable): (field, offset, width) + padding ranges
FDSTAT = ([("fs_filetype", 0, 1), ("fs_flags", 2, 2), ("fs_rights_base", 8, 8), ("fs_rights_inheriting", 16, 8)], [(1, 1), (4, 4)], 24)
FILESTAT = {
    "p1": ([("dev", 0, 8), ("ino", 8, 8), ("filetype", 16, 1), ("nlink", 24, 8), ("size", 32, 8), ("atim", 40, 8), ("mtim", 48, 8), ("ctim", 56, 8)], [(17, 7)], 64),
    "un": ([("dev", 0, 8), ("ino", 8, 8), ("filetype", 16, 1), ("nlink", 20, 4), ("size", 24, 8), ("atim", 32, 8), ("mtim", 40, 8), ("ctim", 48, 8)], [(17, 3)], 56),
}
PRESTAT = ([("tag", 0, 1), ("pr_name_len", 4, 4)], [(1, 3)], 8)
WHENCE = {"p1": {"set": 0, "cur": 1, "end": 2}, "un": {"cur": 0, "end": 1, "set": 2}}
R_READ, R_SEEK, R_WRITE, R_TELL = 1 << 1, 1 << 2, 1 << 6, 1 << 5
RIGHTS_ALL = (1 << 29) - 1
O_CREAT, O_DIRECTORY, O_EXCL, O_TRUNC = 1, 2, 4, 8
FD_APPEND, FD_DSYNC, FD_NONBLOCK, FD_RSYNC, FD_SYNC = 1, 2, 4, 8, 16
ABIS = ("p1", "un")


def build(repo_copy, workdir, big_endian, cc="gcc"):
    tag = "be" if big_endian else "le"
    obj = os.path.join(workdir, "wasi_real_%s.o" % tag)
    exe = os.path.join(workdir, "wasi_endian_" + tag)
    endian = ["-DWASM_ENDIAN=WASM_BIG_ENDIAN"] if big_endian else []
    cmds = [
        [cc, "-std=gnu90", "-O1", "-w", "-fno-strict-aliasing"] + CMAKE_DEFINES + endian + ["-c", os.path.join(repo_copy, "wasi", "wasi.c"), "-o", obj],
        [cc, "-std=gnu99", "-O1", "-w", "-fno-strict-aliasing"] + CMAKE_DEFINES + endian + ["-I", repo_copy, os.path.join(HERE, "wasi_endian.c"), obj, "-o", exe, "-lpthread", "-lm"],
    ]
    for cmd in cmds:
        p = subprocess.run(cmd, stdout=subprocess.PIPE, stderr=subprocess.PIPE, text=True)
        if p.returncode != 0:
            raise RuntimeError("wasi-endian harness build failed (%s): %s\n%s" % (tag, " ".join(cmd[-6:]), p.stderr[-2500:]))
    return exe


# ----------------------------------------------------------------------------- the file tree

def tree_spec(rng):
    """the shared read-only tree: [(kind, relpath, hex content | link target, atime_ns, mtime_ns)]"""
    def ts():
        return rng.randrange(10 ** 18, 17 * 10 ** 17)          # 2001 … 2023, nanoseconds, all 8 bytes in use
    def data(n):
        if n > 512:
            return "gen:%d:%d" % (rng.randrange(1 << 30), n)         # generated at tree-building time (keeps replays small)
        return bytes(rng.randrange(256) for _ in range(n)).hex()
    spec = [("dir", "dir1", "", ts(), ts()), ("dir", "dir1/sub", "", ts(), ts()), ("dir", "emptydir", "", ts(), ts()),
            ("file", "a.txt", data(rng.randrange(37, 300)), ts(), ts()),
            ("file", "empty", "", ts(), ts()),
            ("file", "big.bin", data(0x012345 + rng.randrange(0, 200)), ts(), ts()),
            ("file", "dir1/inner.bin", data(rng.randrange(256, 4000)), ts(), ts()),
            ("file", "dir1/x", data(1), ts(), ts())]
    for k in range(rng.randrange(3, 9)):
        name = "dir1/" + "".join(rng.choice("abcdefghijklmnopqrstuvwxyz0123456789_-") for _ in range(rng.choice([1, 2, 7, 23, 64, 130, 250])))
        if all(name != s[1] for s in spec):
            spec.append(("file", name, data(rng.randrange(0, 50)), ts(), ts()))
    spec += [("hardlink", "hl", "a.txt", 0, 0), ("symlink", "lnk", "a.txt", 0, 0), ("symlink", "dlnk", "dir1", 0, 0), ("symlink", "dangling", "nothing-here", 0, 0)]
    return spec


def make_tree(base, spec):
    os.makedirs(base, exist_ok=True)
    for kind, rel, content, at, mt in spec:
        p = os.path.join(base, rel)
        if kind == "dir":
            os.makedirs(p, exist_ok=True)
        elif kind == "file":
            with open(p, "wb") as f:
                if content.startswith("gen:"):
                    import random
                    _, sd, n = content.split(":")
                    f.write(random.Random(int(sd)).randbytes(int(n)))
                else:
                    f.write(bytes.fromhex(content))
        elif kind == "hardlink":
            os.link(os.path.join(base, content), p)
        elif kind == "symlink":
            os.symlink(content, p)
    # times last (creating entries changes the directories' mtime); deepest first
    for kind, rel, content, at, mt in sorted(spec, key=lambda s: -s[1].count("/")):
        if kind in ("dir", "file"):
            os.utime(os.path.join(base, rel), ns=(at, mt))


def make_root(root, ro_shared):
    os.makedirs(os.path.join(root, "rw"), exist_ok=True)
    if not os.path.islink(os.path.join(root, "ro")):
        os.symlink(ro_shared, os.path.join(root, "ro"))
    with open(os.path.join(root, "rw", "seed.txt"), "wb") as f:
        f.write(b"0123456789abcdefghijklmnopqrstuvwxyz")


# ----------------------------------------------------------------------------- episodes

class Ep:
    """One self-contained call sequence: commands for the harness + what to compare in its output."""

    def __init__(self, eid, name):
        self.id = eid
        self.name = name
        self.cmds = []
        self.fields = []          # dicts: label, fn, abi, field, w, kind (+ host=(label, component) / window=(lo, hi) / n)
        self._next = 2048
        self._k = 0

    def alloc(self, n, align=8, rng=None):
        a = (self._next + align - 1) // align * align
        if rng is not None and rng.random() < 0.3:
            a += rng.choice([1, 2, 3, 5, 6, 7])            # guests may pass unaligned pointers
        self._next = a + n
        if self._next > 120000:
            raise RuntimeError("guest memory exhausted in episode builder")
        return a

    def label(self):
        self._k += 1
        return "e%d.%d" % (self.id, self._k)

    def poke(self, addr, data):
        if data:
            self.cmds.append("poke %d %s" % (addr, bytes(data).hex()))

    def fill(self, addr, n, byte=0xA5):
        self.cmds.append("fill %d %d %d" % (addr, n, byte))

    def st(self, w, addr, v):
        self.cmds.append("st %d %d %d" % (w, addr, v))

    def path(self, s):
        b = s.encode() if isinstance(s, str) else s
        a = self.alloc(max(1, len(b)), 1)
        self.poke(a, b)
        return a, len(b)

    def call(self, abi, fn, *args):
        lab = self.label()
        self.cmds.append("call %s %s %s %s" % (abi, fn, lab, " ".join(str(a) for a in args)))
        self.fields.append({"label": lab, "fn": fn, "abi": abi, "field": "errno", "w": 2, "kind": "errno"})
        return lab

    def ld(self, w, addr, fn, abi, field, kind="val", **extra):
        lab = self.label()
        self.cmds.append("ld %d %d %s" % (w, addr, lab))
        f = {"label": lab, "fn": fn, "abi": abi, "field": field, "w": w, "kind": kind}
        f.update(extra)
        self.fields.append(f)
        return lab

    def raw(self, addr, n, fn, abi, field, kind="raw", **extra):
        lab = self.label()
        self.cmds.append("bytes %d %d %s" % (addr, n, lab))
        f = {"label": lab, "fn": fn, "abi": abi, "field": field, "w": 1, "kind": kind}
        f.update(extra)
        self.fields.append(f)
        return lab

    def aux(self, cmd):
        lab = self.label()
        self.cmds.append(cmd % lab)
        self.fields.append({"label": lab, "fn": "", "abi": "", "field": "", "w": 0, "kind": "aux"})
        return lab

    def record(self, base, layout, fn, abi, host=None, hostfields=()):
        fields, pads, size = layout
        for name, off, w in fields:
            if host is not None and name in hostfields:
                self.ld(w, base + off, fn, abi, name, kind="host", host=(host, name))
            else:
                self.ld(w, base + off, fn, abi, name)
        for off, n in pads:
            self.raw(base + off, n, fn, abi, "padding@%d" % off)

    def iovs(self, segs, rng=None):
        """segs: [(buffer address, length)] -> address of the iovec array, written with accessor stores"""
        a = self.alloc(8 * max(1, len(segs)), 4, rng)
        for i, (b, n) in enumerate(segs):
            self.st(4, a + 8 * i, b)
            self.st(4, a + 8 * i + 4, n)
        return a

    def obj(self):
        return {"id": self.id, "name": self.name, "cmds": self.cmds, "fields": self.fields}


def ep_args(eid, rng, abi, args, env):
    e = Ep(eid, "args/environ %s" % abi)
    for sizes, get, items in (("args_sizes_get", "args_get", args), ("environ_sizes_get", "environ_get", env)):
        c, s = e.alloc(4, 4, rng), e.alloc(4, 4, rng)
        e.fill(c, 4)
        e.fill(s, 4)
        e.call(abi, sizes, c, s)
        e.ld(4, c, sizes, abi, "count")
        e.ld(4, s, sizes, abi, "buf_size")
        total = sum(len(x.encode()) + 1 for x in items)
        ptrs = e.alloc(4 * len(items) + 4, 4, rng)
        buf = e.alloc(total + 8, 1)
        e.fill(ptrs, 4 * len(items) + 4)
        e.fill(buf, total + 8)
        e.call(abi, get, ptrs, buf)
        for i in range(len(items) + 1):                      # one past the end: must be untouched
            e.ld(4, ptrs + 4 * i, get, abi, "pointer[%d]" % i)
        e.raw(buf, total + 8, get, abi, "strings")
    return e


def ep_prestat(eid, rng, abi):
    e = Ep(eid, "prestat %s" % abi)
    for fd in (3, rng.choice([0, 1, 2, 4, 9])):
        p = e.alloc(8, 4, rng)
        e.fill(p, 8)
        e.call(abi, "fd_prestat_get", fd, p)
        e.record(p, PRESTAT, "fd_prestat_get", abi)
        n = rng.choice([1, 2, 8])
        q = e.alloc(n + 4, 1)
        e.fill(q, n + 4)
        e.call(abi, "fd_prestat_dir_name", fd, q, n)
        e.raw(q, n + 4, "fd_prestat_dir_name", abi, "name")
    return e


def open_file(e, rng, abi, rel, oflags, rights, fdflags, dirflags=1):
    pa, pl = e.path(rel)
    fdp = e.alloc(4, 4, rng)
    e.fill(fdp, 4, 0xFF)
    e.call(abi, "path_open", 3, dirflags, pa, pl, oflags, rights, rights, fdflags, fdp)
    e.ld(4, fdp, "path_open", abi, "fd")
    return fdp


def fdstat(e, rng, abi, fdref):
    p = e.alloc(24, 8, rng)
    e.fill(p, 24)
    e.call(abi, "fd_fdstat_get", fdref, p)
    e.record(p, FDSTAT, "fd_fdstat_get", abi)


RO_FILES = ["ro/a.txt", "ro/empty", "ro/big.bin", "ro/dir1/inner.bin", "ro/dir1/x", "ro/hl", "ro/lnk"]
RO_ANY = RO_FILES + ["ro/dir1", "ro/dir1/sub", "ro/emptydir", "ro/dlnk", "ro", "."]


def ep_open_fdstat(eid, rng, abi):
    e = Ep(eid, "path_open + fd_fdstat_get %s" % abi)
    fdflags = rng.choice([0, FD_APPEND, FD_NONBLOCK, FD_APPEND | FD_NONBLOCK, FD_SYNC, FD_DSYNC, FD_RSYNC, FD_APPEND | FD_SYNC | FD_NONBLOCK, rng.randrange(32)])
    if rng.random() < 0.5:
        rel, oflags = rng.choice(RO_FILES), 0
        rights = rng.choice([R_READ, R_READ | R_SEEK | R_TELL, RIGHTS_ALL & ~R_WRITE & ~(1 << 8) & ~(1 << 22)])
        if fdflags & FD_APPEND:
            rights |= R_WRITE       # append needs a writable descriptor to make sense; opening ro files for writing is fine (nothing is written)
    elif rng.random() < 0.3:
        rel, oflags, rights = rng.choice(["ro/dir1", "ro/emptydir", "ro/dir1/sub", "rw"]), O_DIRECTORY, R_READ
        fdflags = 0
    else:
        rel, oflags = "rw/f%d" % rng.randrange(4), rng.choice([O_CREAT, O_CREAT | O_TRUNC, O_CREAT])
        rights = rng.choice([R_WRITE, R_READ | R_WRITE, RIGHTS_ALL])
    fdp = open_file(e, rng, abi, rel, oflags, rights, fdflags)
    fdstat(e, rng, abi, "@%d" % fdp)
    if rng.random() < 0.5:
        fdstat(e, rng, "un" if abi == "p1" else "p1", "@%d" % fdp)
    e.call(abi, "fd_close", "@%d" % fdp)
    return e


def ep_hopen_fdstat(eid, rng, abi):
    e = Ep(eid, "host open + fd_fdstat_get %s" % abi)
    mode = rng.choice(["r", "w", "rw"])
    flags = mode + "".join(f for f in ("+append", "+nonblock", "+sync", "+dsync") if rng.random() < 0.5)
    if "+append" not in flags and rng.random() < 0.5:
        flags += "+append"
    fdp = e.alloc(4, 4)
    e.fill(fdp, 4, 0xFF)
    e.aux("hopen rw/seed.txt " + flags + " %s " + str(fdp))
    fdstat(e, rng, abi, "@%d" % fdp)
    for fd in rng.sample([0, 1, 2, 3], 2):
        fdstat(e, rng, abi, fd)
    e.call(abi, "fd_close", "@%d" % fdp)
    return e


def filestat_fields(e, rng, abi, fn, p, hlabel, shared):
    # shared tree: device / inode / link count / size are the same objects in both runs -> exact; the times against the
    # harness's stat taken just before the call (atime may move when the first run reads the file)
    hostfields = ("atim", "mtim", "ctim") if shared else ("dev", "ino", "atim", "mtim", "ctim")
    e.record(p, FILESTAT[abi], fn, abi, host=hlabel, hostfields=hostfields)


def ep_path_filestat(eid, rng, abi):
    e = Ep(eid, "path_filestat_get %s" % abi)
    rel = rng.choice(RO_ANY + ["ro/dangling", "ro/missing", "rw/seed.txt"])
    follow = rng.choice([0, 1])
    pa, pl = e.path(rel)
    # the host's own view, following a final symlink and not (which of the two the host implements is C14's business, not C19's)
    h = [e.aux("hstat " + rel + " " + str(follow) + " %s"), e.aux("hstat " + rel + " " + str(1 - follow) + " %s")]
    size = FILESTAT[abi][2]
    p = e.alloc(size + 8, 8, rng)
    e.fill(p, size + 8)
    e.call(abi, "path_filestat_get", 3, follow, pa, pl, p)
    # … and again after the call: resolving a symbolic link updates the LINK's own access time (relatime), so the reading taken before
    # the host's following stat above is not the one an lstat-view call sees afterwards
    h += [e.aux("hstat " + rel + " " + str(follow) + " %s"), e.aux("hstat " + rel + " " + str(1 - follow) + " %s")]
    filestat_fields(e, rng, abi, "path_filestat_get", p, h, rel.startswith("ro/"))
    e.raw(p + size, 8, "path_filestat_get", abi, "beyond-record")
    return e


def ep_fd_filestat(eid, rng, abi):
    e = Ep(eid, "fd_filestat_get %s" % abi)
    rel = rng.choice(RO_FILES + ["ro/dir1", "rw/seed.txt"])
    isdir = rel == "ro/dir1"
    fdp = open_file(e, rng, abi, rel, O_DIRECTORY if isdir else 0, R_READ, 0)
    h = e.aux("hstat " + rel + " 1 %s")
    size = FILESTAT[abi][2]
    p = e.alloc(size + 8, 8, rng)
    e.fill(p, size + 8)
    e.call(abi, "fd_filestat_get", "@%d" % fdp, p)
    filestat_fields(e, rng, abi, "fd_filestat_get", p, h, rel.startswith("ro/"))
    e.raw(p + size, 8, "fd_filestat_get", abi, "beyond-record")
    for fd in (rng.choice([0, 1, 2]), 3):
        # the harness's own stdio (pipes) and the preopened directory: filetype / sizes only (inode etc. are per-run objects)
        p2 = e.alloc(size, 8, rng)
        e.fill(p2, size)
        e.call(abi, "fd_filestat_get", fd, p2)
        for name, off, w in FILESTAT[abi][0]:
            if name in ("filetype", "nlink") and fd != 3:
                e.ld(w, p2 + off, "fd_filestat_get", abi, name)
    e.call(abi, "fd_close", "@%d" % fdp)
    return e


def ep_io(eid, rng, abi):
    """write / read / pwrite / pread / seek / tell on a per-build scratch file"""
    e = Ep(eid, "fd_write/read/pwrite/pread/seek/tell %s" % abi)
    rel = "rw/io%d" % rng.randrange(3)
    append = rng.random() < 0.25
    fdp = open_file(e, rng, abi, rel, O_CREAT | (O_TRUNC if rng.random() < 0.7 else 0), R_READ | R_WRITE | R_SEEK | R_TELL, FD_APPEND if append else 0)
    fd = "@%d" % fdp
    for _ in range(rng.randrange(2, 7)):
        op = rng.choice(["write", "write", "read", "pwrite", "pread", "seek", "tell", "filestat"])
        if op in ("write", "pwrite"):
            segs = []
            for _ in range(rng.choice([0, 1, 1, 2, 3, 5])):
                n = rng.choice([0, 1, 2, 3, 255, 256, 257, 300, 1000, rng.randrange(0, 70)])
                b = e.alloc(max(1, n), 1)
                e.poke(b, bytes(rng.randrange(256) for _ in range(n)))
                segs.append((b, n))
            iv = e.iovs(segs, rng)
            r = e.alloc(4, 4, rng)
            e.fill(r, 4)
            if op == "write":
                e.call(abi, "fd_write", fd, iv, len(segs), r)
                e.ld(4, r, "fd_write", abi, "nwritten")
            else:
                e.call(abi, "fd_pwrite", fd, iv, len(segs), rng.choice([0, 1, 255, 256, 70000, rng.randrange(0, 5000)]), r)
                e.ld(4, r, "fd_pwrite", abi, "nwritten")
        elif op in ("read", "pread"):
            segs = []
            for _ in range(rng.choice([0, 1, 1, 2, 3])):
                n = rng.choice([0, 1, 2, 7, 256, 300, rng.randrange(0, 600)])
                b = e.alloc(n + 4, 1)
                e.fill(b, n + 4, 0xEE)
                segs.append((b, n))
            iv = e.iovs(segs, rng)
            r = e.alloc(4, 4, rng)
            e.fill(r, 4)
            if op == "read":
                e.call(abi, "fd_read", fd, iv, len(segs), r)
            else:
                e.call(abi, "fd_pread", fd, iv, len(segs), rng.choice([0, 1, 255, 257, rng.randrange(0, 3000)]), r)
            e.ld(4, r, "fd_" + op, abi, "nread")
            for b, n in segs:
                e.raw(b, n + 4, "fd_" + op, abi, "buffer")
        elif op == "seek":
            wh = rng.choice(["set", "cur", "end"])
            off = rng.choice([0, 1, 255, 256, 65536, 0x01020304, (1 << 33) + 5, 0x0102030405, rng.randrange(0, 1 << 40)])
            if wh != "set" and rng.random() < 0.3:
                off = (1 << 64) - rng.choice([1, 2, 3])       # small negative
            r = e.alloc(8, 8, rng)
            e.fill(r, 8)
            e.call(abi, "fd_seek", fd, off, WHENCE[abi][wh] if rng.random() < 0.95 else 7, r)
            e.ld(8, r, "fd_seek", abi, "newoffset")
        elif op == "tell":
            r = e.alloc(8, 8, rng)
            e.fill(r, 8)
            e.call(abi, "fd_tell", fd, r)
            e.ld(8, r, "fd_tell", abi, "offset")
        else:
            h = e.aux("hstat " + rel + " 1 %s")
            size = FILESTAT[abi][2]
            p = e.alloc(size, 8, rng)
            e.fill(p, size)
            e.call(abi, "fd_filestat_get", fd, p)
            filestat_fields(e, rng, abi, "fd_filestat_get", p, h, False)
    e.call(abi, "fd_close", fd)
    return e


def ep_read_ro(eid, rng, abi):
    """read / pread / seek on a file of the shared tree (contents and sizes known)"""
    e = Ep(eid, "fd_read/pread/seek on ro %s" % abi)
    rel = rng.choice(["ro/a.txt", "ro/big.bin", "ro/dir1/inner.bin", "ro/lnk"])
    fdp = open_file(e, rng, abi, rel, 0, R_READ | R_SEEK | R_TELL, 0)
    fd = "@%d" % fdp
    for _ in range(rng.randrange(1, 4)):
        r = e.alloc(8, 8, rng)
        e.fill(r, 8)
        e.call(abi, "fd_seek", fd, rng.choice([0, 3, 0x0102, 0x010203, 0x01020304, 0x0102030405060708 >> rng.choice([0, 8, 16, 24])]), WHENCE[abi][rng.choice(["set", "end", "cur"])], r)
        e.ld(8, r, "fd_seek", abi, "newoffset")
        segs = []
        for _ in range(rng.choice([1, 2, 3])):
            n = rng.choice([1, 2, 7, 258, 300, 1000])
            b = e.alloc(n + 4, 1)
            e.fill(b, n + 4, 0xEE)
            segs.append((b, n))
        iv = e.iovs(segs, rng)
        r = e.alloc(4, 4, rng)
        e.fill(r, 4)
        if rng.random() < 0.5:
            e.call(abi, "fd_read", fd, iv, len(segs), r)
            e.ld(4, r, "fd_read", abi, "nread")
        else:
            e.call(abi, "fd_pread", fd, iv, len(segs), rng.choice([0, 5, 258, 70000]), r)
            e.ld(4, r, "fd_pread", abi, "nread")
        for b, n in segs:
            e.raw(b, n + 4, "fd_read", abi, "buffer")
        r = e.alloc(8, 8, rng)
        e.fill(r, 8)
        e.call(abi, "fd_tell", fd, r)
        e.ld(8, r, "fd_tell", abi, "offset")
    e.call(abi, "fd_close", fd)
    return e


def ep_readdir(eid, rng, abi):
    e = Ep(eid, "fd_readdir %s" % abi)
    rel = rng.choice(["ro/dir1", "ro/dir1", "ro", "ro/emptydir", "ro/dir1/sub"])
    fdp = open_file(e, rng, abi, rel, O_DIRECTORY, R_READ | (1 << 14), 0)
    fd = "@%d" % fdp
    n = rng.choice([0, 23, 24, 25, 48, 60, 200, 512, 4096])
    buf = e.alloc(n + 8, 8, rng)
    used = e.alloc(4, 4, rng)
    e.fill(buf, n + 8)
    e.fill(used, 4)
    e.call(abi, "fd_readdir", fd, buf, n, 0, used)
    lab = e.label()
    e.cmds.append("dirents %d %d %s" % (buf, used, lab))
    e.fields.append({"label": lab, "fn": "fd_readdir", "abi": abi, "field": "dirent", "w": 8, "kind": "dirents"})
    e.raw(buf + n, 8, "fd_readdir", abi, "beyond-buffer")
    if n >= 24:
        # resume after the first entry with the cookie the first call returned (loaded as a u64 through the accessor)
        n2 = rng.choice([24, 100, 4096])
        buf2 = e.alloc(n2 + 8, 8, rng)
        used2 = e.alloc(4, 4, rng)
        e.fill(buf2, n2 + 8)
        e.fill(used2, 4)
        e.call(abi, "fd_readdir", fd, buf2, n2, "#%d" % buf, used2)
        lab = e.label()
        e.cmds.append("dirents %d %d %s" % (buf2, used2, lab))
        e.fields.append({"label": lab, "fn": "fd_readdir", "abi": abi, "field": "dirent(resumed)", "w": 8, "kind": "dirents"})
    e.call(abi, "fd_close", fd)
    return e


def ep_clock(eid, rng, abi):
    e = Ep(eid, "clock_time_get / clock_res_get %s" % abi)
    for cid in (0, 1, 2, 3, rng.choice([4, 7, 255])):
        r = e.alloc(8, 8, rng)
        e.fill(r, 8)
        lo = e.aux("now " + str(cid) + " %s") if cid < 4 else None
        e.call(abi, "clock_time_get", cid, rng.choice([0, 1, 1000, 1 << 40]), r)
        hi = e.aux("now " + str(cid) + " %s") if cid < 4 else None
        if cid < 4:
            e.ld(8, r, "clock_time_get", abi, "time(clock %d)" % cid, kind="clock", window=(lo, hi))
        else:
            e.ld(8, r, "clock_time_get", abi, "time(clock %d)" % cid)
        r = e.alloc(8, 8, rng)
        e.fill(r, 8)
        e.call(abi, "clock_res_get", cid, r)
        e.ld(8, r, "clock_res_get", abi, "resolution(clock %d)" % cid)
    return e


def ep_random(eid, rng, abi):
    e = Ep(eid, "random_get %s" % abi)
    n = rng.choice([0, 1, 16, 255, 256, 257, 600])
    b = e.alloc(n + 8, 1)
    e.fill(b, n + 8, 0x5A)
    e.call(abi, "random_get", b, n)
    e.raw(b, n + 8, "random_get", abi, "buffer", kind="random", length=n)
    return e


def ep_links(eid, rng, abi):
    e = Ep(eid, "path_readlink / path_symlink / poll_oneoff %s" % abi)
    for rel in (rng.choice(["ro/lnk", "ro/dlnk", "ro/dangling"]), rng.choice(["ro/a.txt", "ro/missing"])):
        pa, pl = e.path(rel)
        n = rng.choice([0, 1, 3, 5, 64])
        b = e.alloc(n + 4, 1)
        r = e.alloc(4, 4, rng)
        e.fill(b, n + 4)
        e.fill(r, 4)
        e.call(abi, "path_readlink", 3, pa, pl, b, n, r)
        e.ld(4, r, "path_readlink", abi, "bufused")
        e.raw(b, n + 4, "path_readlink", abi, "buffer")
    name = "rw/sl%d" % rng.randrange(1000)
    oa, ol = e.path("seed.txt")
    na, nl = e.path(name)
    e.call(abi, "path_symlink", oa, ol, 3, na, nl)
    b = e.alloc(16, 1)
    r = e.alloc(4, 4, rng)
    e.fill(b, 16)
    e.fill(r, 4)
    e.call(abi, "path_readlink", 3, na, nl, b, 12, r)
    e.ld(4, r, "path_readlink", abi, "bufused")
    e.raw(b, 16, "path_readlink", abi, "buffer")
    e.call(abi, "path_unlink_file", 3, na, nl)
    e.call(abi, "poll_oneoff", e.alloc(48, 8), e.alloc(32, 8), 1, e.alloc(4, 4))
    return e


MAKERS = [("open_fdstat", ep_open_fdstat, 5), ("hopen_fdstat", ep_hopen_fdstat, 3), ("path_filestat", ep_path_filestat, 4), ("fd_filestat", ep_fd_filestat, 3),
          ("io", ep_io, 4), ("read_ro", ep_read_ro, 3), ("readdir", ep_readdir, 3), ("clock", ep_clock, 1), ("random", ep_random, 1), ("links", ep_links, 1),
          ("prestat", ep_prestat, 1)]


def scenario(rng, n_random):
    """-> (args, env, [episodes])"""
    words = ["prog", "-v", "x", "--long-option=value", "", "a b", "été", "0123456789" * 7]
    args = [words[0]] + [rng.choice(words[1:]) for _ in range(rng.randrange(1, 6))]
    env = ["K%d=%s" % (i, rng.choice(["", "1", "some value", "x" * rng.randrange(1, 90)])) for i in range(rng.randrange(1, 5))]
    eps = []
    # systematic part: every maker in both ABIs
    for abi in ABIS:
        eps.append(ep_args(len(eps), rng, abi, args, env))
        for _, mk, _w in MAKERS:
            eps.append(mk(len(eps), rng, abi))
    # the directed fdstat cases: every single fdflag, on both ABIs (fs_flags is the only 16-bit field of the ABI)
    for abi in ABIS:
        for fl in (FD_APPEND, FD_NONBLOCK, FD_SYNC, FD_APPEND | FD_NONBLOCK | FD_DSYNC):
            e = Ep(len(eps), "path_open(fdflags=%d) + fd_fdstat_get %s" % (fl, abi))
            fdp = open_file(e, rng, abi, "rw/flags", O_CREAT, R_READ | R_WRITE, fl)
            fdstat(e, rng, abi, "@%d" % fdp)
            e.call(abi, "fd_close", "@%d" % fdp)
            eps.append(e)
    pool = [m for m in MAKERS for _ in range(m[2])]
    for _ in range(n_random):
        _, mk, _w = rng.choice(pool)
        eps.append(mk(len(eps), rng, rng.choice(ABIS)))
    return args, env, eps


# ----------------------------------------------------------------------------- running and judging

def run(exe, root, cmds, args, env, timeout=600):
    """-> (exit status, {label: value}, stderr tail)"""
    argv = [exe, root] + list(args) + ["--"] + list(env)
    p = subprocess.run(argv, input=("\n".join(cmds) + "\n").encode(), stdout=subprocess.PIPE, stderr=subprocess.PIPE, timeout=timeout)
    out = {}
    for line in p.stdout.decode("latin-1").splitlines():
        k, _, v = line.partition("=")
        out[k] = v
    return p.returncode, out, p.stderr.decode("latin-1")[-400:]


def palindromic(v, w):
    b = (v & ((1 << (8 * w)) - 1)).to_bytes(w, "little")
    return b == b[::-1]


HOST_IX = {"dev": 0, "ino": 1, "nlink": 2, "size": 3}


def host_value(hline, name):
    """the harness's stat line -> the values a correct host may store for the field"""
    if hline is None or hline == "fail":
        return None
    t = [int(x) for x in hline.split()]
    if name in HOST_IX:
        v = t[HOST_IX[name]]
        return [v & ((1 << 64) - 1)]
    i = {"atim": 4, "mtim": 6, "ctim": 8}[name]
    return [t[i] * 10 ** 9 + t[i + 1], t[i] * 10 ** 9]


def canonical(ep, out):
    """-> [(label, fn, abi, field, canonical text, distinguishing)] for the fields of one episode from one build's output;
    a label missing from the output (the build died before) gives the text `<missing>`"""
    res = []
    for f in ep["fields"]:
        kind, lab = f["kind"], f["label"]
        if kind == "aux":
            continue
        if kind == "dirents":
            keys = [k for k in out if k.startswith(lab + ".")]
            if not keys:
                res.append((lab, f["fn"], f["abi"], f["field"], "<missing>", False))
                continue
            def order(k):
                t = k[len(lab) + 1:]
                return (0, int(t)) if t.isdigit() else (1, 0) if t == "used" else (2, 0)
            for k in sorted(keys, key=order):
                t = k[len(lab) + 1:]
                v = out[k]
                dist = False
                if t.isdigit():
                    parts = v.split(" ")
                    dist = any(not palindromic(int(parts[i]), w) for i, w in ((0, 8), (1, 8), (2, 4)))
                elif t == "used":
                    dist = not palindromic(int(v.split()[0]), 4)
                res.append((k, f["fn"], f["abi"], f["field"] + "." + t, v, dist))
            continue
        if lab not in out:
            res.append((lab, f["fn"], f["abi"], f["field"], "<missing>", False))
            continue
        v = out[lab]
        if kind in ("errno", "val"):
            res.append((lab, f["fn"], f["abi"], f["field"], v, kind == "val" and not palindromic(int(v), f["w"])))
        elif kind == "raw":
            res.append((lab, f["fn"], f["abi"], f["field"], v, False))
        elif kind == "host":
            hls = f["host"][0] if isinstance(f["host"][0], list) else [f["host"][0]]
            hv = None
            iv = int(v)
            for hl in hls:
                cand = host_value(out.get(hl), f["host"][1])
                if cand is not None and (hv is None or iv in cand):
                    hv = cand
            if hv is not None and iv in hv:
                res.append((lab, f["fn"], f["abi"], f["field"], "host" + ("" if iv == hv[0] else "(seconds)"), not palindromic(iv, f["w"])))
            else:
                res.append((lab, f["fn"], f["abi"], f["field"], v, not palindromic(iv, f["w"])))
        elif kind == "clock":
            lo, hi = out.get(f["window"][0]), out.get(f["window"][1])
            iv = int(v)
            if lo not in (None, "fail") and hi not in (None, "fail") and int(lo) - 10 ** 7 <= iv <= int(hi) + 10 ** 7:
                # precision: the host may round down to its resolution; 10 ms of slack
                res.append((lab, f["fn"], f["abi"], f["field"], "between the host's readings before and after", not palindromic(iv, 8)))
            else:
                # not comparable as a number between two runs: keep only its magnitude (a byte-reversed clock reading has
                # all 8 bytes significant)
                res.append((lab, f["fn"], f["abi"], f["field"], "outside the host's readings; %d significant bytes" % ((iv.bit_length() + 7) // 8), True))
        elif kind == "random":
            n = f["length"]
            b = bytes.fromhex(v)
            body, guard = b[:n], b[n:]
            txt = "guard=%s" % guard.hex()
            if n >= 16:
                txt += " changed=%d" % (body != b"\x5a" * n)
            res.append((lab, f["fn"], f["abi"], f["field"], txt, False))
    return res


def compare(ep, out_le, out_be):
    """-> (rows of the LE build, [(label, fn, abi, field, le text, be text)] differences)"""
    cl, cb = canonical(ep, out_le), canonical(ep, out_be)
    dl = {r[0]: r for r in cl}
    db = {r[0]: r for r in cb}
    diffs = []
    for k in list(dl) + [k for k in db if k not in dl]:
        a, b = dl.get(k), db.get(k)
        ta = a[4] if a else "<absent>"
        tb = b[4] if b else "<absent>"
        if ta != tb:
            r = a or b
            diffs.append((k, r[1], r[2], r[3], ta, tb))
    return cl, diffs
