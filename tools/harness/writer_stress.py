"""writer_stress — step `w9` of Model.Pool with REAL overlap: the real `wasmCWriteImplementationFile` (static, c.c, #included
from the scratch copy of /repo) is called by T threads AT THE SAME TIME on disjoint file indices of one module that the
real reader has read, exactly with the arguments a worker passes (`-f 1`: file i = function ID i), all threads released
together by a barrier.

Why: in the real pool the hand-off protocol lets the producer publish the next task only when some worker signals
`produce` at the top of its loop, so on an idle machine most tasks run one after the other and a race between two
executions of the writer shows up in a minority of runs.  Here every execution overlaps with T-1 others, so
 * under ThreadSanitizer (the harness is built with -fsanitize=thread) any object shared by two executions and written
   by one of them is reported, and
 * the files written are compared byte for byte with what the real `w2c2 -t 1 -f 1` writes for the same module.
Both are judged against the property itself (C09: any thread count gives byte-identical files); the Lean side states the
same as `workers_share_no_mutable_static_state` over the regenerated table of static objects.
"""
import os
import re
import shutil
import subprocess

import opmods

HARNESS_C = r'''
/* in-process harness: the real file writer of c.c called concurrently */
#include <stdio.h>
#include <string.h>
#include <stdlib.h>
#include <pthread.h>
#include "c.c"
#define main w2c2_main
#include "main.c"
#undef main

static WasmModuleReader reader;
static WasmFunctionIDs ids;
static pthread_barrier_t barrier;
static int nthreads = 1;
static int prettyFlag = 0, multiFlag = 0;
static int failed = 0;
static const char* modName = "m";
static char hdrName[300] = "m.h";

static void* work(void* arg) {
    size_t j = (size_t)arg;
    size_t i;
    pthread_barrier_wait(&barrier);
    for (i = j; i < ids.length; i += (size_t)nthreads) {
        if (!wasmCWriteImplementationFile(reader.module, modName, hdrName, NULL, 's', (U32)i, 1, (U32)i, ids,
                                          prettyFlag != 0, false, multiFlag != 0)) {
            failed = 1;
        }
    }
    return NULL;
}

int main(int argc, char** argv) {
    pthread_t th[64];
    int t;
    WasmModuleReader empty = emptyWasmModuleReader;
    if (argc < 5) { fprintf(stderr, "usage: harness module.wasm T pretty multi\n"); return 2; }
    nthreads = atoi(argv[2]); prettyFlag = atoi(argv[3]); multiFlag = atoi(argv[4]);
    if (nthreads < 1 || nthreads > 64) return 2;
    if (argc > 5 && strlen(argv[5]) < 200) { modName = argv[5]; sprintf(hdrName, "%s.h", modName); }
    reader = empty;
    if (!readWasmBinary(argv[1], &reader, false)) return 3;
    ids = wasmSortedFunctionIDs(reader.module->functions);
    pthread_barrier_init(&barrier, NULL, (unsigned)nthreads);
    for (t = 0; t < nthreads; t++) pthread_create(&th[t], NULL, work, (void*)(size_t)t);
    for (t = 0; t < nthreads; t++) pthread_join(th[t], NULL);
    printf("done %lu %d\n", (unsigned long)ids.length, failed);
    return failed ? 4 : 0;
}
'''


def build(repo_copy, workdir, name="writer_stress"):
    """-> (exe, 'clang+tsan' | 'gcc+tsan' | 'gcc')  (falls back to an uninstrumented build: files are still compared)"""
    src = os.path.join(workdir, name + ".c")
    open(src, "w").write(HARNESS_C)
    d = os.path.join(repo_copy, "w2c2")
    others = [os.path.join(d, f) for f in sorted(os.listdir(d))
              if f.endswith(".c") and not f.endswith("_test.c") and f not in ("test.c", "c.c", "main.c")]
    exe = os.path.join(workdir, name)
    err = ""
    for cc, san, tag in (("clang", ["-fsanitize=thread"], "clang+tsan"), ("gcc", ["-fsanitize=thread"], "gcc+tsan"), ("gcc", [], "gcc")):
        if shutil.which(cc) is None:
            continue
        p = subprocess.run([cc, "-O1", "-g", "-w", "-fno-omit-frame-pointer"] + san + opmods.W2C2_DEFS + ["-I", d, src] + others +
                           ["-o", exe, "-lpthread", "-lm"], stdout=subprocess.PIPE, stderr=subprocess.PIPE, text=True)
        if p.returncode == 0:
            return exe, tag
        err += f"{tag}: {p.stderr[-500:]}\n"
    raise RuntimeError("writer-stress harness build failed:\n" + err)


def parse_reports(stderr):
    out = []
    for block in re.split(r"(?m)^={10,}$", stderr):
        m = re.search(r"WARNING: ThreadSanitizer: ([^\n(]+)", block)
        if not m:
            continue
        frames = re.findall(r"#\d+ (\w+) [^\n]*?/w2c2/(\w+\.[ch]):(\d+)", block)
        if not frames:
            continue
        loc = re.search(r"Location is ([^\n]+)", block)
        out.append((m.group(1).strip(), "%s %s:%s" % frames[0], loc.group(1)[:120] if loc else ""))
    return out


def run(exe, workdir, tag, wasm, threads, pretty=False, multi=False, timeout=300, name="m"):
    """-> {rc, reports, files {s%010u.c: bytes}}; `name` = module name as w2c2 derives it from the file name (m.wasm -> m)"""
    d = os.path.join(workdir, "ws_" + tag)
    shutil.rmtree(d, ignore_errors=True)
    os.makedirs(d)
    open(os.path.join(d, "m.wasm"), "wb").write(wasm)
    env = dict(os.environ)
    env["TSAN_OPTIONS"] = "halt_on_error=0:report_signal_unsafe=0:exitcode=0:history_size=4"
    try:
        p = subprocess.run([exe, "m.wasm", str(threads), "1" if pretty else "0", "1" if multi else "0", name], cwd=d,
                           stdout=subprocess.PIPE, stderr=subprocess.PIPE, env=env, timeout=timeout)
        rc, err = p.returncode, p.stderr.decode("latin-1")
    except subprocess.TimeoutExpired:
        rc, err = "timeout", ""
    files = {f: open(os.path.join(d, f), "rb").read() for f in sorted(os.listdir(d)) if re.fullmatch(r"s\d{10}\.c", f)}
    shutil.rmtree(d, ignore_errors=True)
    return {"rc": rc, "reports": parse_reports(err), "files": files, "stderr_tail": err[-1200:]}
