"""sha1_harness — correspondence `sha1-spec`: the real SHA-1 of w2c2/sha1.c (SHA1Init/Update/Final, built from the scratch copy of the
source tree with ASan+UBSan) against hashlib.sha1 (OpenSSL), on

  * every length 0..300 and every multiple of 64 (± 1) up to `maxlen`, random bytes (+ all-zero, all-0xff for the block boundaries);
  * for each message: ONE SHA1Update call (what SHA1() — and hence reader.c's function hashing — does) and several splits: at every
    position around block boundaries for the short ones, random cut sets for the long ones (a context that already holds 1..63
    bytes when a long update arrives).

A crash / sanitizer report of the code under test is an answer (`crash`), not a tool failure."""
import hashlib
import os
import subprocess

HERE = os.path.dirname(os.path.abspath(__file__))


def build(repo_copy, d):
    exe = os.path.join(d, "sha1_harness")
    cmd = ["gcc", "-O1", "-g", "-w", "-fsanitize=address,undefined", "-fno-sanitize-recover=all", "-I", os.path.join(repo_copy, "w2c2"),
           os.path.join(HERE, "sha1_harness.c"), "-o", exe]
    p = subprocess.run(cmd, stdout=subprocess.PIPE, stderr=subprocess.PIPE, text=True)
    if p.returncode != 0:
        raise RuntimeError("sha1 harness does not build: " + p.stderr[-600:])
    return exe


def cases(rng, maxlen=4096, extra_random=200):
    """[(message bytes, cuts list | None)]"""
    lens = list(range(0, 301))
    for k in range(5, maxlen // 64 + 1):
        lens += [64 * k - 1, 64 * k, 64 * k + 1]
    out = []
    for n in lens:
        msgs = [bytes(rng.getrandbits(8) for _ in range(n))]
        if n and n % 64 == 0:
            msgs += [bytes(n), b"\xff" * n]
        for msg in msgs:
            out.append((msg, None))
            if n <= 300:
                cutsets = [[c] for c in sorted(set(x for x in (1, 55, 56, 63, 64, 65, 127, 128, 129, n - 64, n - 1) if 0 < x < n))]
            else:
                cutsets = []
            for _ in range(2):
                k = rng.randint(1, 4)
                cutsets.append(sorted(rng.randint(0, n) for _ in range(k)))
            for cs in cutsets:
                out.append((msg, cs))
    for _ in range(extra_random):
        n = rng.choice((rng.randint(0, 700), 64 * rng.randint(1, 40), 64 * rng.randint(1, 40) + rng.choice((-1, 1))))
        msg = bytes(rng.getrandbits(8) for _ in range(n))
        out.append((msg, None))
        out.append((msg, sorted(rng.randint(0, n) for _ in range(rng.randint(1, 5)))))
    return out


def run(exe, cs):
    """→ [(message, cuts, real digest | 'crash: …', reference digest)] for the cases that differ, and the number run"""
    lines = []
    for msg, cuts in cs:
        lines.append("%s %s" % (msg.hex() or "-", ",".join(str(c) for c in cuts) if cuts else "-"))
    env = dict(os.environ, ASAN_OPTIONS="detect_leaks=0:abort_on_error=0", UBSAN_OPTIONS="print_stacktrace=0")
    p = subprocess.run([exe], input="\n".join(lines) + "\n", stdout=subprocess.PIPE, stderr=subprocess.PIPE, text=True, env=env, timeout=600)
    got = p.stdout.split("\n")
    bad = []
    for k, (msg, cuts) in enumerate(cs):
        want = hashlib.sha1(msg).hexdigest()
        g = got[k].strip() if k < len(got) and got[k].strip() else None
        if g is None:
            san = [l for l in p.stderr.splitlines() if "ERROR" in l or "runtime error" in l]
            bad.append((msg, cuts, "crash: rc=%r %s" % (p.returncode, (san[0] if san else p.stderr.strip()[-200:])[:200]), want))
            break
        if g != want:
            bad.append((msg, cuts, g, want))
    return bad, len(cs)
