/* array_harness — in-process tie of Model.Array to the REAL arrayEnsureCapacity (array.h + array.c of the scratch
 * copy of /repo), built with AddressSanitizer.  Line protocol (same as `readerdriver arr`):
 *     arr <itemSize> <length_1> ... <length_k>   ->   <capacity>:<preserved> ...  [OVERFLOW]
 * Starting from an empty array each length is reserved in turn; afterwards the bytes of the slots filled so far are
 * checked (realloc must have kept them) and the bytes of slots 0 .. length-1 are written.  Whether that write fits
 * the block that was really allocated is decided by malloc_usable_size-independent means: every line runs in a forked
 * child under ASan; a heap-buffer-overflow makes the child exit non-zero and the parent appends `OVERFLOW`. */
#include <stdio.h>
#include <stdlib.h>
#include <string.h>
#include <unistd.h>
#include <sys/wait.h>
#include "array.h"

static unsigned char mark(size_t slot, size_t k) { return (unsigned char) (slot * 31u + k * 7u + 1u); }

int main(void) {
    static char line[1 << 16];
    while (fgets(line, sizeof line, stdin)) {
        char* tok = strtok(line, " \n");
        size_t itemSize, filled = 0, capacity = 0;
        void* items = NULL;
        pid_t pid;
        if (tok == NULL || strcmp(tok, "arr") != 0) { puts("err unknown-command"); fflush(stdout); continue; }
        tok = strtok(NULL, " \n");
        itemSize = (size_t) strtoull(tok ? tok : "0", NULL, 10);
        fflush(stdout);
        pid = fork();
        if (pid != 0) {
            int status = 0;
            waitpid(pid, &status, 0);
            if (!(WIFEXITED(status) && WEXITSTATUS(status) == 0)) printf("OVERFLOW");
            putchar('\n');
            fflush(stdout);
            continue;
        }
        while ((tok = strtok(NULL, " \n")) != NULL) {
            size_t length = (size_t) strtoull(tok, NULL, 10), slot, k;
            int preserved = 1;
            unsigned char* bytes;
            if (!arrayEnsureCapacity(&items, length, &capacity, itemSize)) { printf("FAIL"); break; }
            bytes = items;
            for (slot = 0; slot < filled; slot++)
                for (k = 0; k < itemSize; k++)
                    if (bytes[slot * itemSize + k] != mark(slot, k)) preserved = 0;
            printf("%lu:%d ", (unsigned long) capacity, preserved);
            fflush(stdout);
            for (slot = 0; slot < length; slot++)          /* ASan aborts here when the block is too small */
                for (k = 0; k < itemSize; k++)
                    bytes[slot * itemSize + k] = mark(slot, k);
            if (length > filled) filled = length;
        }
        fflush(stdout);
        _exit(0);
    }
    return 0;
}
