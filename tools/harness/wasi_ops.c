/*
 * wasi-ops harness (C12, C13): executes WASI call histories on
 *   mode "real": the REAL /repo/wasi/wasi.c (compiled separately from the scratch copy with the
 *                CMake defines and linked in), called through prototypes with the WebAssembly
 *                import types (i64 -> U64), exactly as w2c2-generated code calls them;
 *   mode "twin": a reference executor that performs the corresponding raw POSIX calls
 *                (open/read/write/pread/pwrite/lseek/fstat/close) and stores results the way the
 *                WASI specification lays them out.
 *
 * Input (stdin):   H <id> / one command per line / E        (a history)
 * Output (stdout): H <id> / one result line per command / E ok | E died <kind> <detail>
 * Every history runs in a forked child with a fresh temp root (cwd), a fresh descriptor
 * table, and descriptors 0-2 bound to regular files `stdin.txt` (16 bytes), `stdout.txt`,
 * `stderr.txt`.  The pre-opened directory is `sb` (relative to the temp root) = WASI fd 3.
 * A sanitizer abort kills only the child; the parent classifies the ASan/UBSan log
 * (argv[3] = log path prefix given to ASAN_OPTIONS/UBSAN_OPTIONS log_path).
 *
 * Commands:
 *   poke <addr> <hex>            write guest memory            -> ok
 *   mkfile <relpath> <hex|->     create host file (setup)       -> ok | fail
 *   mkdir <relpath>              create host directory (setup)  -> ok | fail
 *   cat <relpath>                                               -> file <size> [<off>:<hex of nonzero run>]... | nofile
 *   ls <relpath>                                                -> ls <sorted names> | nodir
 *   <abi> <call> <args...>       abi = p1 | un ; args decimal   -> r <errno> [<addr>:<hex>]...   (changed guest bytes)
 *                                                                 twin: `r skip` for calls it does not implement
 */
#define _GNU_SOURCE 1
#include <dirent.h>
#include <errno.h>
#include <fcntl.h>
#include <signal.h>
#include <stdio.h>
#include <stdlib.h>
#include <string.h>
#include <sys/stat.h>
#include <sys/types.h>
#include <sys/uio.h>
#include <sys/wait.h>
#include <unistd.h>

#include "wasi/wasi.h"

/* ---- the imports, declared with the WebAssembly types of the WASI witx (i32 -> U32, i64 -> U64) ---- */
#define DECL2(ret, name, params) \
    ret wasi_snapshot_preview1__##name params; \
    ret wasi_unstable__##name params;
DECL2(U32, fd_write, (void*, U32, U32, U32, U32))
DECL2(U32, fd_pwrite, (void*, U32, U32, U32, U64, U32))
DECL2(U32, fd_read, (void*, U32, U32, U32, U32))
DECL2(U32, fd_pread, (void*, U32, U32, U32, U64, U32))
DECL2(U32, fd_seek, (void*, U32, U64, U32, U32))
DECL2(U32, fd_tell, (void*, U32, U32))
DECL2(U32, fd_readdir, (void*, U32, U32, U32, U64, U32))
DECL2(U32, fd_close, (void*, U32))
DECL2(U32, fd_fdstat_get, (void*, U32, U32))
DECL2(U32, fd_datasync, (void*, U32))
DECL2(U32, fd_sync, (void*, U32))
DECL2(U32, fd_prestat_get, (void*, U32, U32))
DECL2(U32, fd_prestat_dir_name, (void*, U32, U32, U32))
DECL2(U32, path_open, (void*, U32, U32, U32, U32, U32, U64, U64, U32, U32))
DECL2(U32, fd_filestat_get, (void*, U32, U32))
DECL2(U32, path_filestat_get, (void*, U32, U32, U32, U32, U32))
DECL2(U32, path_rename, (void*, U32, U32, U32, U32, U32, U32))
DECL2(U32, path_unlink_file, (void*, U32, U32, U32))
DECL2(U32, path_remove_directory, (void*, U32, U32, U32))
DECL2(U32, path_create_directory, (void*, U32, U32, U32))
DECL2(U32, path_symlink, (void*, U32, U32, U32, U32, U32))
DECL2(U32, path_readlink, (void*, U32, U32, U32, U32, U32, U32))
DECL2(U32, fd_filestat_set_size, (void*, U32, U64))
DECL2(U32, fd_fdstat_set_flags, (void*, U32, U32))

#define MEMSIZE 65536u
static wasmMemory guest;
static U8* shadow;
static FILE* out;

wasmMemory* wasiMemory(void* instance) { (void)instance; return &guest; }
void trap(Trap t) { fprintf(stderr, "trap %d\n", (int)t); abort(); }

/* canonical stand-ins for host-determined filestat fields (see normaliseFilestat) */
#define CANON_DEV   0x1111111111111111ull
#define CANON_INO   0x2222222222222222ull
#define CANON_ATIM  0x3333333333333333ull
#define CANON_MTIM  0x4444444444444444ull
#define CANON_CTIM  0x5555555555555555ull
#define CANON_DIRNLINK 0x66ull
#define CANON_DIRSIZE  0x7777ull

static U64 ld64(U32 a) { U64 v; memcpy(&v, guest.data + a, 8); return v; }
static U32 ld32(U32 a) { U32 v; memcpy(&v, guest.data + a, 4); return v; }
static void st64(U32 a, U64 v) { memcpy(guest.data + a, &v, 8); }
static void st32(U32 a, U32 v) { memcpy(guest.data + a, &v, 4); }

static int hexval(int c) {
    if (c >= '0' && c <= '9') return c - '0';
    if (c >= 'a' && c <= 'f') return c - 'a' + 10;
    if (c >= 'A' && c <= 'F') return c - 'A' + 10;
    return -1;
}
static size_t unhex(const char* s, U8* dst, size_t cap) {
    size_t n = 0;
    if (!strcmp(s, "-")) return 0;
    while (s[0] && s[1] && n < cap) { dst[n++] = (U8)(hexval(s[0]) * 16 + hexval(s[1])); s += 2; }
    return n;
}

static void printDiff(void) {
    U32 i = 0;
    while (i < MEMSIZE) {
        if (guest.data[i] != shadow[i]) {
            U32 j = i;
            fprintf(out, " %u:", i);
            while (j < MEMSIZE && guest.data[j] != shadow[j]) { fprintf(out, "%02x", guest.data[j]); shadow[j] = guest.data[j]; j++; }
            i = j;
        } else i++;
    }
}

static U64 tsns(struct timespec t) { return (U64)t.tv_sec * 1000000000ull + (U64)t.tv_nsec; }

/* Replace host-determined fields by canonical constants IF they equal what an independent
 * stat reports, using the layout of the WASI specification (witx):
 *   preview1: dev 0 ino 8 filetype 16 nlink(u64) 24 size 32 atim 40 mtim 48 ctim 56  (64 bytes)
 *   unstable: dev 0 ino 8 filetype 16 nlink(u32) 20 size 24 atim 32 mtim 40 ctim 48  (56 bytes) */
static void normaliseFilestat(int unstable, U32 p, const struct stat* st) {
    U32 onl = unstable ? 20 : 24, osz = unstable ? 24 : 32, oat = unstable ? 32 : 40, omt = unstable ? 40 : 48, oct = unstable ? 48 : 56;
    if (p + 64 > MEMSIZE) return;
    if (ld64(p) == (U64)st->st_dev) st64(p, CANON_DEV);
    if (ld64(p + 8) == (U64)st->st_ino) st64(p + 8, CANON_INO);
    if (ld64(p + oat) == tsns(st->st_atim)) st64(p + oat, CANON_ATIM);
    if (ld64(p + omt) == tsns(st->st_mtim)) st64(p + omt, CANON_MTIM);
    if (ld64(p + oct) == tsns(st->st_ctim)) st64(p + oct, CANON_CTIM);
    if (S_ISDIR(st->st_mode)) {
        if (unstable) { if (ld32(p + onl) == (U32)st->st_nlink) st32(p + onl, (U32)CANON_DIRNLINK); }
        else { if (ld64(p + onl) == (U64)st->st_nlink) st64(p + onl, CANON_DIRNLINK); }
        if (ld64(p + osz) == (U64)st->st_size) st64(p + osz, CANON_DIRSIZE);
    }
}

/* ------------------------------------------------------------------ setup / observation commands */

static void cmdCat(const char* path) {
    int fd = open(path, O_RDONLY);
    struct stat st;
    off_t pos = 0;
    if (fd < 0 || fstat(fd, &st) != 0 || !S_ISREG(st.st_mode)) { if (fd >= 0) close(fd); fprintf(out, "nofile\n"); return; }
    fprintf(out, "file %llu", (unsigned long long)st.st_size);
    while (pos < st.st_size) {
        off_t d = lseek(fd, pos, SEEK_DATA), h;
        static U8 buf[65536];
        if (d < 0) break;
        h = lseek(fd, d, SEEK_HOLE);
        if (h < 0) h = st.st_size;
        pos = d;
        while (pos < h) {
            ssize_t n = pread(fd, buf, sizeof buf < (size_t)(h - pos) ? sizeof buf : (size_t)(h - pos), pos), i = 0;
            if (n <= 0) { pos = h; break; }
            while (i < n) {
                if (buf[i]) {
                    ssize_t j = i;
                    fprintf(out, " %llu:", (unsigned long long)(pos + i));
                    while (j < n && buf[j]) { fprintf(out, "%02x", buf[j]); j++; }
                    /* a run crossing the buffer end is printed as two items; canonicalised by the reader */
                    i = j;
                } else i++;
            }
            pos += n;
        }
    }
    close(fd);
    fprintf(out, "\n");
}

static int cmpstr(const void* a, const void* b) { return strcmp(*(char* const*)a, *(char* const*)b); }
static void cmdLs(const char* path) {
    DIR* d = opendir(path);
    struct dirent* e;
    char* names[4096];
    int n = 0, i;
    if (!d) { fprintf(out, "nodir\n"); return; }
    while ((e = readdir(d)) && n < 4096) {
        if (!strcmp(e->d_name, ".") || !strcmp(e->d_name, "..")) continue;
        names[n++] = strdup(e->d_name);
    }
    closedir(d);
    qsort(names, n, sizeof names[0], cmpstr);
    fprintf(out, "ls");
    for (i = 0; i < n; i++) { fprintf(out, " %s", names[i]); free(names[i]); }
    fprintf(out, "\n");
}

static void cmdMkfile(const char* path, const char* hex) {
    static U8 buf[1 << 16];
    size_t n = unhex(hex, buf, sizeof buf);
    int fd = open(path, O_WRONLY | O_CREAT | O_TRUNC, 0644);
    if (fd < 0 || write(fd, buf, n) != (ssize_t)n) { fprintf(out, "fail\n"); if (fd >= 0) close(fd); return; }
    close(fd);
    fprintf(out, "ok\n");
}

/* ------------------------------------------------------------------ real mode */

static unsigned long long A[12];
static int nA;

#define CALL(abi, name, args) ((abi) ? wasi_unstable__##name args : wasi_snapshot_preview1__##name args)

static int realCall(int un, const char* c, U32* res) {
    void* I = NULL;
#define a(i) ((U32)A[i])
#define q(i) ((U64)A[i])
    if (!strcmp(c, "fd_write") && nA == 4) *res = CALL(un, fd_write, (I, a(0), a(1), a(2), a(3)));
    else if (!strcmp(c, "fd_pwrite") && nA == 5) *res = CALL(un, fd_pwrite, (I, a(0), a(1), a(2), q(3), a(4)));
    else if (!strcmp(c, "fd_read") && nA == 4) *res = CALL(un, fd_read, (I, a(0), a(1), a(2), a(3)));
    else if (!strcmp(c, "fd_pread") && nA == 5) *res = CALL(un, fd_pread, (I, a(0), a(1), a(2), q(3), a(4)));
    else if (!strcmp(c, "fd_seek") && nA == 4) *res = CALL(un, fd_seek, (I, a(0), q(1), a(2), a(3)));
    else if (!strcmp(c, "fd_tell") && nA == 2) *res = CALL(un, fd_tell, (I, a(0), a(1)));
    else if (!strcmp(c, "fd_readdir") && nA == 5) *res = CALL(un, fd_readdir, (I, a(0), a(1), a(2), q(3), a(4)));
    else if (!strcmp(c, "fd_close") && nA == 1) *res = CALL(un, fd_close, (I, a(0)));
    else if (!strcmp(c, "fd_fdstat_get") && nA == 2) *res = CALL(un, fd_fdstat_get, (I, a(0), a(1)));
    else if (!strcmp(c, "fd_datasync") && nA == 1) *res = CALL(un, fd_datasync, (I, a(0)));
    else if (!strcmp(c, "fd_sync") && nA == 1) *res = CALL(un, fd_sync, (I, a(0)));
    else if (!strcmp(c, "fd_prestat_get") && nA == 2) *res = CALL(un, fd_prestat_get, (I, a(0), a(1)));
    else if (!strcmp(c, "fd_prestat_dir_name") && nA == 3) *res = CALL(un, fd_prestat_dir_name, (I, a(0), a(1), a(2)));
    else if (!strcmp(c, "path_open") && nA == 9) *res = CALL(un, path_open, (I, a(0), a(1), a(2), a(3), a(4), q(5), q(6), a(7), a(8)));
    else if (!strcmp(c, "fd_filestat_get") && nA == 2) {
        *res = CALL(un, fd_filestat_get, (I, a(0), a(1)));
        if (*res == 0) {
            WasiFileDescriptor d; struct stat st; int ok = 0;
            if (wasiFileDescriptorGet(a(0), &d)) ok = d.fd >= 0 ? fstat(d.fd, &st) == 0 : (d.path && stat(d.path, &st) == 0);
            if (ok) normaliseFilestat(un, a(1), &st);
        }
    }
    else if (!strcmp(c, "path_filestat_get") && nA == 5) {
        *res = CALL(un, path_filestat_get, (I, a(0), a(1), a(2), a(3), a(4)));
        if (*res == 0 && (U64)a(2) + a(3) <= MEMSIZE && a(3) > 0 && a(3) < PATH_MAX) {
            WasiFileDescriptor d; struct stat st; char path[2 * PATH_MAX + 2];
            if (wasiFileDescriptorGet(a(0), &d) && d.path) {
                if (guest.data[a(2)] == '/') path[0] = 0; else { strcpy(path, d.path); strcat(path, "/"); }
                strncat(path, (char*)guest.data + a(2), a(3));
                if (stat(path, &st) == 0) normaliseFilestat(un, a(4), &st);
            }
        }
    }
    else if (!strcmp(c, "path_rename") && nA == 6) *res = CALL(un, path_rename, (I, a(0), a(1), a(2), a(3), a(4), a(5)));
    else if (!strcmp(c, "path_unlink_file") && nA == 3) *res = CALL(un, path_unlink_file, (I, a(0), a(1), a(2)));
    else if (!strcmp(c, "path_remove_directory") && nA == 3) *res = CALL(un, path_remove_directory, (I, a(0), a(1), a(2)));
    else if (!strcmp(c, "path_create_directory") && nA == 3) *res = CALL(un, path_create_directory, (I, a(0), a(1), a(2)));
    else if (!strcmp(c, "path_symlink") && nA == 5) *res = CALL(un, path_symlink, (I, a(0), a(1), a(2), a(3), a(4)));
    else if (!strcmp(c, "path_readlink") && nA == 6) *res = CALL(un, path_readlink, (I, a(0), a(1), a(2), a(3), a(4), a(5)));
    else if (!strcmp(c, "fd_filestat_set_size") && nA == 2) *res = CALL(un, fd_filestat_set_size, (I, a(0), q(1)));
    else if (!strcmp(c, "fd_fdstat_set_flags") && nA == 2) *res = CALL(un, fd_fdstat_set_flags, (I, a(0), a(1)));
    else return 0;
    return 1;
#undef a
#undef q
}

/* ---- descriptor-table invariant, observed on the REAL table after every call (WASIOPS_TABLECHECK=1):
 *   stale:<n>     entry n stores a native descriptor that is not open
 *   alias:<m>,<n> two live entries store the same native descriptor
 *   retarget:<n>  the open file behind entry n changed although n was not closed
 * (what a descriptor denotes may change only by its own fd_close; distinct live descriptors never
 * share a native open file).  Reported as ` !<what>` tokens appended to the result line. */
#define TC_MAX 256
static struct { int seen; dev_t dev; ino_t ino; } tcId[TC_MAX];
static void tableCheck(void) {
    U32 i, j;
    WasiFileDescriptor d[TC_MAX]; int live[TC_MAX];
    for (i = 0; i < TC_MAX; i++) {
        live[i] = wasiFileDescriptorGet(i, &d[i]) ? 1 : 0;
        if (!live[i] || d[i].fd < 0) { tcId[i].seen = 0; continue; }
        {
            struct stat st;
            if (fstat(d[i].fd, &st) != 0) { fprintf(out, " !stale:%u", i); continue; }
            if (!tcId[i].seen) { tcId[i].seen = 1; tcId[i].dev = st.st_dev; tcId[i].ino = st.st_ino; }
            else if (tcId[i].dev != st.st_dev || tcId[i].ino != st.st_ino) fprintf(out, " !retarget:%u", i);
        }
        for (j = 0; j < i; j++)
            if (live[j] && d[j].fd >= 0 && d[j].fd == d[i].fd) fprintf(out, " !alias:%u,%u", j, i);
    }
}

/* ------------------------------------------------------------------ twin mode (raw POSIX) */

#define TW_MAX 4096
static struct { int fd; char* dirpath; int open; } tw[TW_MAX];
static U32 twN;

static int twRaw;                     /* host errno behind the last twin error (printed as ` !errno:<n>`) */
static U32 twErrno(int e) {           /* WASI witx numbering, written independently of wasi.c */
    twRaw = e;
    switch (e) {
    case 0: return 0; case E2BIG: return 1; case EACCES: return 2; case EAGAIN: return 6; case EBADF: return 8;
    case EBUSY: return 10; case ECHILD: return 12; case EDOM: return 18; case EEXIST: return 20; case EFAULT: return 21;
    case EFBIG: return 22; case EINTR: return 27; case EINVAL: return 28; case EIO: return 29; case EISDIR: return 31;
    case ELOOP: return 32; case EMFILE: return 33; case EMLINK: return 34; case ENAMETOOLONG: return 37;
    case ENFILE: return 41; case ENODEV: return 43; case ENOENT: return 44; case ENOEXEC: return 45; case ENOMEM: return 48;
    case ENOSPC: return 51; case ENOSYS: return 52; case ENOTDIR: return 54; case ENOTEMPTY: return 55; case ENOTTY: return 59;
    case ENXIO: return 60; case EOVERFLOW: return 61; case EPERM: return 63; case EPIPE: return 64; case ERANGE: return 68;
    case EROFS: return 69; case ESPIPE: return 70; case ESRCH: return 71; case ETXTBSY: return 74; case EXDEV: return 75;
    default: return 28;
    }
}

static int twLive(U32 fd) { return fd < twN && tw[fd].open; }

/* gather the iovec array (count pairs of LE u32 at ptr + 8k) */
static int twIovTotal(U32 iovs, U32 cnt, size_t* total) {
    U32 k; size_t t = 0;
    for (k = 0; k < cnt; k++) {
        U64 p = (U64)iovs + 8ull * k;
        if (p + 8 > MEMSIZE) return 0;
        if ((U64)ld32((U32)p) + ld32((U32)p + 4) > MEMSIZE) return 0;
        t += ld32((U32)p + 4);
    }
    *total = t;
    return 1;
}

static int twinCall(int un, const char* c, U32* res) {
#define a(i) ((U32)A[i])
#define q(i) ((U64)A[i])
    if ((!strcmp(c, "fd_write") && nA == 4) || (!strcmp(c, "fd_pwrite") && nA == 5)) {
        int pos = c[3] == 'p'; U32 resp = pos ? a(4) : a(3), k; size_t total, o = 0; U8* buf; ssize_t n;
        if (!twLive(a(0)) || tw[a(0)].fd < 0) { *res = 8; return 1; }
        if (!twIovTotal(a(1), a(2), &total)) return 0;
        if (a(2) > (U32)sysconf(_SC_IOV_MAX)) { *res = 28; return 1; }   /* writev/pwritev: EINVAL beyond IOV_MAX */
        buf = malloc(total + 1);
        for (k = 0; k < a(2); k++) { U32 p = a(1) + 8 * k; memcpy(buf + o, guest.data + ld32(p), ld32(p + 4)); o += ld32(p + 4); }
        n = pos ? pwrite(tw[a(0)].fd, buf, total, (off_t)q(3)) : write(tw[a(0)].fd, buf, total);
        free(buf);
        if (n < 0) { *res = twErrno(errno); return 1; }
        st32(resp, (U32)n); *res = 0; return 1;
    }
    if ((!strcmp(c, "fd_read") && nA == 4) || (!strcmp(c, "fd_pread") && nA == 5)) {
        int pos = c[3] == 'p'; U32 resp = pos ? a(4) : a(3), k; size_t total, o = 0; U8* buf; ssize_t n;
        if (!twLive(a(0)) || tw[a(0)].fd < 0) { *res = 8; return 1; }
        if (!twIovTotal(a(1), a(2), &total)) return 0;
        if (a(2) > (U32)sysconf(_SC_IOV_MAX)) { *res = 28; return 1; }
        buf = malloc(total + 1);
        if (total == 0) {      /* a zero-length vectored read: 0 after the access-mode check, also on a directory */
            struct iovec z; z.iov_base = buf; z.iov_len = 0;
            n = pos ? preadv(tw[a(0)].fd, &z, 1, (off_t)q(3)) : readv(tw[a(0)].fd, &z, 1);
        }
        else n = pos ? pread(tw[a(0)].fd, buf, total, (off_t)q(3)) : read(tw[a(0)].fd, buf, total);
        if (n < 0) { *res = twErrno(errno); free(buf); return 1; }
        for (k = 0; k < a(2) && o < (size_t)n; k++) {
            U32 p = a(1) + 8 * k; size_t l = ld32(p + 4);
            if (l > (size_t)n - o) l = (size_t)n - o;
            memcpy(guest.data + ld32(p), buf + o, l); o += l;
        }
        free(buf);
        st32(resp, (U32)n); *res = 0; return 1;
    }
    if ((!strcmp(c, "fd_seek") && nA == 4) || (!strcmp(c, "fd_tell") && nA == 2)) {
        int tell = c[3] == 't'; int wh; off_t r; U32 resp = tell ? a(1) : a(3);
        if (tell) wh = SEEK_CUR;
        else if (!un) wh = a(2) == 0 ? SEEK_SET : a(2) == 1 ? SEEK_CUR : a(2) == 2 ? SEEK_END : -1;   /* preview1: set cur end */
        else wh = a(2) == 0 ? SEEK_CUR : a(2) == 1 ? SEEK_END : a(2) == 2 ? SEEK_SET : -1;          /* unstable: cur end set */
        if (!twLive(a(0)) || tw[a(0)].fd < 0) { *res = 8; return 1; }
        if (wh < 0) { *res = 28; return 1; }
        r = lseek(tw[a(0)].fd, tell ? 0 : (off_t)q(1), wh);
        if (r == (off_t)-1) { *res = twErrno(errno); return 1; }
        st64(resp, (U64)r); *res = 0; return 1;
    }
    if (!strcmp(c, "fd_close") && nA == 1) {
        if (!twLive(a(0))) { *res = 8; return 1; }
        if (tw[a(0)].fd >= 0 && close(tw[a(0)].fd) != 0) { *res = twErrno(errno); return 1; }
        tw[a(0)].open = 0; tw[a(0)].fd = -1;
        *res = 0; return 1;
    }
    if (!strcmp(c, "path_open") && nA == 9) {
        char path[PATH_MAX * 2]; int flags, fd; U64 rights = q(5); int rd, wr; size_t dl;
        if (!twLive(a(0)) || !tw[a(0)].dirpath) { *res = 8; return 1; }
        if ((U64)a(2) + a(3) > MEMSIZE || a(3) == 0 || a(3) >= PATH_MAX) return 0;
        if (guest.data[a(2)] == '/') return 0;
        dl = strlen(tw[a(0)].dirpath);
        memcpy(path, tw[a(0)].dirpath, dl); path[dl] = '/'; memcpy(path + dl + 1, guest.data + a(2), a(3)); path[dl + 1 + a(3)] = 0;
        if (strlen(path) != dl + 1 + a(3)) return 0;      /* embedded NUL: not a POSIX path */
        rd = (rights & ((1u << 1) | (1u << 14))) != 0;                       /* fd_read | fd_readdir */
        wr = (rights & ((1u << 0) | (1u << 6) | (1u << 8) | (1u << 22))) != 0; /* datasync | write | allocate | filestat_set_size */
        flags = wr ? (rd ? O_RDWR : O_WRONLY) : O_RDONLY;
        if (a(4) & 1) flags |= O_CREAT;
        if (a(4) & 2) flags |= O_DIRECTORY;
        if (a(4) & 4) flags |= O_EXCL;
        if (a(4) & 8) flags |= O_TRUNC;
        if (a(7) & 1) flags |= O_APPEND;
        if (a(7) & 2) flags |= O_DSYNC;
        if (a(7) & 4) flags |= O_NONBLOCK;
        if (a(7) & 16) flags |= O_SYNC;
        fd = open(path, flags, 0644);
        if (fd < 0) { *res = twErrno(errno); return 1; }
        if (twN >= TW_MAX) return 0;
        tw[twN].fd = fd; tw[twN].open = 1; tw[twN].dirpath = strdup(path);
        st32(a(8), twN); twN++;
        *res = 0; return 1;
    }
    if ((!strcmp(c, "path_unlink_file") && nA == 3) || (!strcmp(c, "path_rename") && nA == 6)) {
        /* unlink(2) / rename(2) on paths relative to the directory descriptors (relative guest paths only) */
        int ren = c[5] == 'r'; char p1[PATH_MAX * 2], p2[PATH_MAX * 2]; int k, r;
        U32 fds[2], ptr[2], len[2]; char* dst[2];
        fds[0] = a(0); ptr[0] = a(1); len[0] = a(2); dst[0] = p1; dst[1] = p2;
        if (ren) { fds[1] = a(3); ptr[1] = a(4); len[1] = a(5); }
        for (k = 0; k < (ren ? 2 : 1); k++) if (!twLive(fds[k]) || !tw[fds[k]].dirpath) { *res = 8; return 1; }
        for (k = 0; k < (ren ? 2 : 1); k++) {
            size_t dl = strlen(tw[fds[k]].dirpath);
            if ((U64)ptr[k] + len[k] > MEMSIZE || len[k] == 0 || len[k] >= PATH_MAX || guest.data[ptr[k]] == '/') return 0;
            if (memchr(guest.data + ptr[k], 0, len[k])) return 0;
            memcpy(dst[k], tw[fds[k]].dirpath, dl); dst[k][dl] = '/'; memcpy(dst[k] + dl + 1, guest.data + ptr[k], len[k]); dst[k][dl + 1 + len[k]] = 0;
        }
        r = ren ? rename(p1, p2) : unlink(p1);
        *res = r == 0 ? 0 : twErrno(errno);
        return 1;
    }
    if (!strcmp(c, "fd_filestat_get") && nA == 2) {
        struct stat st; U32 p = a(1); int r;
        if (!twLive(a(0))) { *res = 8; return 1; }
        r = tw[a(0)].fd >= 0 ? fstat(tw[a(0)].fd, &st) : stat(tw[a(0)].dirpath, &st);
        if (r != 0) { *res = twErrno(errno); return 1; }
        if ((U64)p + 64 > MEMSIZE) return 0;
        {
            U8 ft = S_ISCHR(st.st_mode) ? 2 : S_ISDIR(st.st_mode) ? 3 : S_ISREG(st.st_mode) ? 4 : S_ISLNK(st.st_mode) ? 7 : S_ISBLK(st.st_mode) ? 1 : 0;
            U32 size = un ? 56 : 64;
            memset(guest.data + p, 0, size);
            st64(p, (U64)st.st_dev); st64(p + 8, (U64)st.st_ino); guest.data[p + 16] = ft;
            if (un) { st32(p + 20, (U32)st.st_nlink); st64(p + 24, (U64)st.st_size); st64(p + 32, tsns(st.st_atim)); st64(p + 40, tsns(st.st_mtim)); st64(p + 48, tsns(st.st_ctim)); }
            else { st64(p + 24, (U64)st.st_nlink); st64(p + 32, (U64)st.st_size); st64(p + 40, tsns(st.st_atim)); st64(p + 48, tsns(st.st_mtim)); st64(p + 56, tsns(st.st_ctim)); }
            normaliseFilestat(un, p, &st);
        }
        *res = 0; return 1;
    }
    return 0;
#undef a
#undef q
}

/* ------------------------------------------------------------------ one history in a child */

static void runHistory(char** lines, int n, int twin, int outfd) {
    char root[64];
    int i, fd;
    int tablecheck = getenv("WASIOPS_TABLECHECK") != NULL;
    alarm(30);          /* a history must never block (FIFOs/pipes are opened non-blocking) */
    snprintf(root, sizeof root, "h-%d", (int)getpid());
    if (mkdir(root, 0755) != 0 || chdir(root) != 0) _exit(97);
    if (mkdir("sb", 0755) != 0) _exit(97);
    out = fdopen(outfd, "w");
    /* descriptors 0-2: regular files */
    fd = open("stdin.txt", O_WRONLY | O_CREAT, 0644);
    if (fd < 0 || write(fd, "0123456789abcdef", 16) != 16) _exit(97);
    close(fd);
    fd = open("stdin.txt", O_RDONLY); if (fd != 0) { dup2(fd, 0); close(fd); }
    fd = open("stdout.txt", O_WRONLY | O_CREAT, 0644); if (fd != 1) { dup2(fd, 1); close(fd); }
    fd = open("stderr.txt", O_WRONLY | O_CREAT, 0644); if (fd != 2) { dup2(fd, 2); close(fd); }

    guest.data = calloc(MEMSIZE, 1);
    guest.size = MEMSIZE; guest.pages = 1; guest.maxPages = 1; guest.shared = false;
    shadow = calloc(MEMSIZE, 1);
    if (twin) {
        for (i = 0; i < 3; i++) { tw[i].fd = i; tw[i].open = 1; tw[i].dirpath = NULL; }
        tw[3].fd = -1; tw[3].open = 1; tw[3].dirpath = strdup("sb");
        twN = 4;
    } else {
        static char* noargs[] = { NULL };
        U32 pre = 0;
        if (!wasiInit(0, noargs, noargs)) _exit(98);
        if (!wasiFileDescriptorAdd(-1, "sb", &pre) || pre != 3) _exit(98);
    }
    for (i = 0; i < n; i++) {
        char* w[16]; int nw = 0; char* p = strtok(lines[i], " \n");
        while (p && nw < 16) { w[nw++] = p; p = strtok(NULL, " \n"); }
        if (nw == 0) { fprintf(out, "err empty\n"); fflush(out); continue; }
        if (!strcmp(w[0], "poke") && nw == 3) {
            U32 addr = (U32)strtoul(w[1], NULL, 10); size_t len = strlen(w[2]) / 2;
            if ((U64)addr + len > MEMSIZE) fprintf(out, "fail\n");
            else { unhex(w[2], guest.data + addr, len); memcpy(shadow + addr, guest.data + addr, len); fprintf(out, "ok\n"); }
        } else if (!strcmp(w[0], "mkfile") && nw == 3) cmdMkfile(w[1], w[2]);
        else if (!strcmp(w[0], "mkdir") && nw == 2) fprintf(out, mkdir(w[1], 0755) == 0 ? "ok\n" : "fail\n");
        else if (!strcmp(w[0], "mkfifo") && nw == 2) {
            /* a FIFO both ends of which stay open (keep-alive descriptor ≥ 220), so that open never blocks */
            int k = -1;
            if (mkfifo(w[1], 0644) == 0) { int t = open(w[1], O_RDWR | O_NONBLOCK); if (t >= 0) { k = fcntl(t, F_DUPFD, 220); close(t); } }
            fprintf(out, k >= 0 ? "ok\n" : "fail\n");
        } else if (!strcmp(w[0], "pipestdio") && nw == 1) {
            /* descriptors 0-2 become non-blocking pipe ends: 0 reads "pipedata", 1 and 2 write; other ends stay open */
            int a[2], b[2], c[2], okp = pipe(a) == 0 && pipe(b) == 0 && pipe(c) == 0;
            if (okp) {
                int k;
                okp = write(a[1], "pipedata", 8) == 8;
                fcntl(a[1], F_DUPFD, 230); fcntl(b[0], F_DUPFD, 230); fcntl(c[0], F_DUPFD, 230);
                dup2(a[0], 0); dup2(b[1], 1); dup2(c[1], 2);
                close(a[0]); close(a[1]); close(b[0]); close(b[1]); close(c[0]); close(c[1]);
                for (k = 0; k < 3; k++) fcntl(k, F_SETFL, fcntl(k, F_GETFL) | O_NONBLOCK);
            }
            fprintf(out, okp ? "ok\n" : "fail\n");
        }
        else if (!strcmp(w[0], "cat") && nw == 2) cmdCat(w[1]);
        else if (!strcmp(w[0], "ls") && nw == 2) cmdLs(w[1]);
        else if ((!strcmp(w[0], "p1") || !strcmp(w[0], "un")) && nw >= 2) {
            int un = w[0][0] == 'u', k, ok; U32 res = 0;
            nA = nw - 2;
            for (k = 0; k < nA && k < 12; k++) A[k] = strtoull(w[2 + k], NULL, 10);
            fflush(out);
            twRaw = 0;
            ok = twin ? twinCall(un, w[1], &res) : realCall(un, w[1], &res);
            if (!ok) { if (twin) fprintf(out, "r skip"); else fprintf(out, "err unknown-call"); }
            else fprintf(out, "r %u", res);
            printDiff();
            if (twin && ok && res != 0 && twRaw != 0) fprintf(out, " !errno:%d", twRaw);
            if (!twin && tablecheck) tableCheck();
            fprintf(out, "\n");
        } else fprintf(out, "err unknown-command\n");
        fflush(out);
    }
    fflush(out);
    _exit(0);
}

static void rmTree(const char* path) {
    DIR* d = opendir(path);
    struct dirent* e;
    if (d) {
        while ((e = readdir(d))) {
            char sub[4096]; struct stat st;
            if (!strcmp(e->d_name, ".") || !strcmp(e->d_name, "..")) continue;
            snprintf(sub, sizeof sub, "%s/%s", path, e->d_name);
            if (lstat(sub, &st) == 0 && S_ISDIR(st.st_mode)) rmTree(sub); else unlink(sub);
        }
        closedir(d);
    }
    rmdir(path);
}

static void classify(const char* logprefix, pid_t pid, int status, FILE* o) {
    char path[4096], buf[8192]; const char* kind = "unknown"; char detail[200] = ""; FILE* f; size_t n = 0;
    const char* sfx[2] = { "", "" };
    int t;
    (void)sfx;
    buf[0] = 0;
    /* ASan honours log_path; gcc's UBSan runtime writes to fd 2 = the child's stderr.txt */
    for (t = 0; t < 2; t++) {
        if (t == 0) snprintf(path, sizeof path, "%s.%d", logprefix, (int)pid);
        else snprintf(path, sizeof path, "h-%d/stderr.txt", (int)pid);
        f = fopen(path, "r");
        if (f) {
            /* stderr.txt may be long (tracing build: one line per call); a UBSan report is at its end */
            if (t == 1 && fseek(f, 0, SEEK_END) == 0) {
                long len = ftell(f), room = (long)(sizeof buf - 1 - n);
                fseek(f, len > room ? len - room : 0, SEEK_SET);
            }
            n += fread(buf + n, 1, sizeof buf - 1 - n, f); buf[n] = 0; fclose(f); if (t == 0) unlink(path);
        }
    }
    if (strstr(buf, "attempting double-free")) kind = "doubleFree";
    else if (strstr(buf, "heap-use-after-free")) kind = "useAfterFree";
    else if (strstr(buf, "SEGV on unknown address 0x000000000")) kind = "nullDeref";
    else if (strstr(buf, "null pointer")) kind = "nullDeref";
    else if (strstr(buf, "heap-buffer-overflow") || strstr(buf, "stack-buffer-overflow") || strstr(buf, "global-buffer-overflow")) kind = "outOfBounds";
    else if (strstr(buf, "SEGV")) kind = "segv";
    else if (strstr(buf, "runtime error")) kind = "ubsan";
    else if (WIFSIGNALED(status) && WTERMSIG(status) == SIGSEGV) kind = "segv";
    {
        /* first stack frame inside wasi.c, for the report */
        char* p = strstr(buf, "wasi.c:");
        if (p) { size_t k = 0; while (p[k] && p[k] != '\n' && p[k] != ' ' && p[k] != ')' && k < sizeof detail - 1) { detail[k] = p[k]; k++; } detail[k] = 0; }
    }
    fprintf(o, "E died %s %s status=%d\n", kind, detail[0] ? detail : "-", status);
}

int main(int argc, char** argv) {
    int twin; const char* base; const char* logprefix;
    static char line[1 << 18];
    char** lines = NULL; int n = 0, cap = 0, inH = 0;
    if (argc < 4) { fprintf(stderr, "usage: wasi_ops real|twin <scratch dir> <sanitizer log prefix>\n"); return 2; }
    twin = !strcmp(argv[1], "twin"); base = argv[2]; logprefix = argv[3];
    if (chdir(base) != 0) { perror("chdir"); return 2; }
    signal(SIGPIPE, SIG_IGN);
    while (fgets(line, sizeof line, stdin)) {
        if (line[0] == 'H' && line[1] == ' ') { fputs(line, stdout); inH = 1; n = 0; continue; }
        if (line[0] == 'E' && (line[1] == '\n' || line[1] == 0)) {
            int pfd[2]; pid_t pid; int status = 0; char buf[65536]; ssize_t r;
            fflush(stdout);
            if (pipe(pfd) != 0) { perror("pipe"); return 2; }
            pid = fork();
            if (pid == 0) { close(pfd[0]); { int hi = fcntl(pfd[1], F_DUPFD, 200); close(pfd[1]); runHistory(lines, n, twin, hi); } }
            close(pfd[1]);
            while ((r = read(pfd[0], buf, sizeof buf)) > 0) fwrite(buf, 1, (size_t)r, stdout);
            close(pfd[0]);
            waitpid(pid, &status, 0);
            if (WIFEXITED(status) && WEXITSTATUS(status) == 0) fputs("E ok\n", stdout);
            else if (WIFEXITED(status) && (WEXITSTATUS(status) == 97 || WEXITSTATUS(status) == 98)) { fprintf(stdout, "E setup-failed %d\n", WEXITSTATUS(status)); }
            else classify(logprefix, pid, status, stdout);
            fflush(stdout);
            if (!getenv("WASIOPS_KEEP")) { char root[64]; snprintf(root, sizeof root, "h-%d", (int)pid); rmTree(root); }
            { int i; for (i = 0; i < n; i++) free(lines[i]); }
            n = 0; inH = 0;
            continue;
        }
        if (!inH) continue;
        if (n == cap) { cap = cap ? cap * 2 : 64; lines = realloc(lines, cap * sizeof *lines); }
        lines[n++] = strdup(line);
    }
    return 0;
}
