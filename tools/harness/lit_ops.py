"""literal harness — calls the REAL static function wasmCWriteLiteral (by #include-ing c.c from the
scratch copy) for each requested constant and prints the text it writes; then the texts are
compiled by gcc/clang in one translation unit and the resulting bit patterns are dumped (the real
round trip of the property)."""
import os
import subprocess

SRC = r'''
#include "c.c"
int main(void) {
  static char line[256];
  StringBuilder sb;
  while (fgets(line, sizeof line, stdin)) {
    char ty[8]; unsigned long long bits; WasmValue v; WasmValueType t;
    if (sscanf(line, "lit %7s %llx", ty, &bits) != 2) { puts("err parse"); continue; }
    memset(&v, 0, sizeof v);
    if (!strcmp(ty, "i32")) { t = wasmValueTypeI32; v.i32 = (I32)(U32)bits; }
    else if (!strcmp(ty, "i64")) { t = wasmValueTypeI64; v.i64 = (I64)bits; }
    else if (!strcmp(ty, "f32")) { t = wasmValueTypeF32; v.i32 = (I32)(U32)bits; }
    else { t = wasmValueTypeF64; v.i64 = (I64)bits; }
    if (!stringBuilderInitialize(&sb)) { puts("err alloc"); continue; }
    if (!wasmCWriteLiteral(&sb, t, v)) { puts("err write"); continue; }
    printf("text %s\n", sb.string);
    stringBuilderFree(&sb);
  }
  return 0;
}
'''


def build(repo_copy, workdir, cc="gcc"):
    import opmods
    src = os.path.join(workdir, "litops.c")
    open(src, "w").write(SRC)
    others = [os.path.join(repo_copy, "w2c2", f) for f in sorted(os.listdir(os.path.join(repo_copy, "w2c2")))
              if f.endswith(".c") and not f.endswith("_test.c") and f not in ("test.c", "c.c", "main.c")]
    exe = os.path.join(workdir, "litops")
    p = subprocess.run([cc, "-O1", "-w"] + opmods.W2C2_DEFS + ["-I", os.path.join(repo_copy, "w2c2"), src] + others +
                       ["-o", exe, "-lm", "-lpthread"], stdout=subprocess.PIPE, stderr=subprocess.PIPE, text=True)
    if p.returncode != 0:
        raise RuntimeError("literal harness build failed:\n" + p.stderr[-3000:])
    return exe


def texts(exe, cases):
    """cases: [(ty, bits)] → [text]"""
    inp = "".join("lit %s %x\n" % (t, b) for t, b in cases)
    p = subprocess.run([exe], input=inp, stdout=subprocess.PIPE, stderr=subprocess.PIPE, text=True, timeout=900)
    out = p.stdout.splitlines()
    if len(out) != len(cases):
        raise RuntimeError(f"literal harness answered {len(out)} for {len(cases)}: rc={p.returncode} {p.stderr[-300:]}")
    return out


def compile_roundtrip(repo_copy, workdir, cases, lits, cc="gcc", copts=("-O0",), tag=""):
    """Compile `T a[] = { lit, … }` exactly as emitted into assignments and dump the bits."""
    CT = {"i32": "U32", "i64": "U64", "f32": "F32", "f64": "F64"}
    src = os.path.join(workdir, f"rt{tag}.c")
    with open(src, "w") as f:
        f.write('#include <stdio.h>\n#include <string.h>\n#include "w2c2_base.h"\nvoid trap(Trap t){(void)t;}\n')
        # one function per 500 constants: a single function with tens of thousands of volatile blocks makes clang -O2 take
        # more than half an hour (super-linear); the statements and their order are unchanged
        CH = 500
        nparts = (len(cases) + CH - 1) // CH
        for k in range(nparts):
            f.write(f"static void part{k}(void){{\n")
            for (t, b), lit in list(zip(cases, lits))[k * CH:(k + 1) * CH]:
                w = 32 if t in ("i32", "f32") else 64
                f.write(f"{{ volatile {CT[t]} v; v = {lit}; {'U32' if w == 32 else 'U64'} r; {CT[t]} c = v; memcpy(&r, &c, sizeof r); printf(\"%llx\\n\", (unsigned long long)r); }}\n")
            f.write("}\n")
        f.write("int main(void){\n")
        for k in range(nparts):
            f.write(f"part{k}();\n")
        f.write("return 0;}\n")
    exe = os.path.join(workdir, f"rt{tag}")
    p = subprocess.run([cc] + list(copts) + ["-w", "-I", os.path.join(repo_copy, "w2c2"), src, "-o", exe, "-lm"],
                       stdout=subprocess.PIPE, stderr=subprocess.PIPE, text=True)
    if p.returncode != 0:
        raise RuntimeError(f"round-trip compile failed ({cc}):\n" + p.stderr[-2000:])
    out = subprocess.run([exe], stdout=subprocess.PIPE, text=True, timeout=600).stdout.split()
    return [int(x, 16) for x in out]
