"""Valid modules that make the translator reserve many array slots at once or grow its arrays far:
name sections naming many functions (dense / sparse / unordered / duplicate names, with module and local names),
deep operand stacks and many params/locals (type stack), deep nesting and large br_table (label stack), many
types / imports / globals / exports / element entries / data segments.  Built with the wasmgen AST; every module is
valid by construction (checked once against V8 by `selfcheck`)."""
import wasmgen.wasm_ast as A
from wasmgen import encode

G_OPTS = [["-g"], ["-g", "-p", "-m"], ["-g", "-f", "5", "-t", "2"], ["-g", "-t", "1", "-f", "1"]]
PLAIN_OPTS = [[], ["-p"], ["-t", "2", "-f", "3"], ["-m", "-f", "1"]]


def _funcs_module(n, nimports=0):
    m = A.Module()
    m.types = [A.FuncType([A.I32], [A.I32])]
    m.imports = [A.Import(b"env", b"imp%d" % i, "func", 0) for i in range(nimports)]
    m.funcs = [A.Function(0, [], [A.Instr("local.get", 0), A.Instr("i32.const", i + 1), A.Instr("i32.add")]) for i in range(n)]
    m.exports = [A.Export(b"f%d" % i, "func", nimports + i) for i in range(min(n, 40))]
    return m


def named(rng, n, nimports, style):
    """module with `nimports + n` functions and a name section written in `style`"""
    m = _funcs_module(n, nimports)
    total = nimports + n
    idx = list(range(total))
    if style == "dense":
        pass
    elif style == "sparse":
        idx = [i for i in idx if i % 3 == 0 or i == total - 1]
    elif style == "last-only":
        idx = [total - 1]
    elif style == "unordered":
        rng.shuffle(idx)
    names = [(i, b"fn_%d_%s" % (i, b"x" * (i % 7))) for i in idx]
    if style == "duplicates":
        names = [(i, b"same_%d" % (i % 4)) for i in idx]
    local_names = [(nimports + f, [(0, b"arg%d" % f)]) for f in range(0, n, 2)] if style != "last-only" else None
    m.customs = [A.CustomSection(b"name", A.NameSection(b"mod" if style != "sparse" else None, names, local_names), 12)]
    return encode(m)


def deep_stack(depth, nparams, nlocals):
    """one function with many params and locals that pushes `depth` operands before folding them"""
    m = A.Module()
    m.types = [A.FuncType([A.I32] * nparams, [A.I32])]
    body = [A.Instr("i32.const", i) for i in range(depth)] + [A.Instr("i32.add")] * (depth - 1)
    body = [A.Instr("local.get", nparams - 1), A.Instr("drop")] + body
    locals_ = [(nlocals // 4 + 1, vt) for vt in (A.I32, A.I64, A.F32, A.F64)]
    m.funcs = [A.Function(0, locals_, body)]
    m.exports = [A.Export(b"deep", "func", 0)]
    return encode(m)


def deep_nesting(depth, table):
    """`depth` nested blocks around a br_table with `table` targets"""
    m = A.Module()
    m.types = [A.FuncType([A.I32], [])]
    inner = [A.Instr("local.get", 0), A.Instr("br_table", [i % depth for i in range(table)], 0)]
    for _ in range(depth):
        inner = [A.Instr("block", None, body=inner)]
    m.funcs = [A.Function(0, [], inner)]
    m.exports = [A.Export(b"nest", "func", 0)]
    return encode(m)


def many_entities(n):
    """n types / imported functions / globals / exports / element entries / data segments"""
    m = A.Module()
    vts = [A.I32, A.I64, A.F32, A.F64]
    m.types = [A.FuncType([vts[i % 4]] * (i % 5), [vts[(i // 4) % 4]] if i % 3 else []) for i in range(n)]
    m.imports = [A.Import(b"host", b"h%d" % i, "func", i % n) for i in range(n // 2)]
    m.imports += [A.Import(b"host", b"g%d" % i, "global", A.GlobalType(A.I32, False)) for i in range(n // 4)]
    void = len(m.types)
    m.types.append(A.FuncType([], []))
    m.funcs = [A.Function(void, [], []) for _ in range(n)]
    m.tables = [A.TableType(A.Limits(n, None))]
    m.mems = [A.Limits(1, None)]
    m.globals = [A.Global(A.GlobalType(vts[i % 4], i % 2 == 0), A.const(vts[i % 4], i)) for i in range(n)]
    nf = n // 2 + n
    m.exports = [A.Export(b"e%d" % i, "func", i % nf) for i in range(n)] + \
                [A.Export(b"glob%d" % i, "global", n // 4 + i) for i in range(0, n, 3)]
    m.elems = [A.ElemSegment(0, A.Instr("i32.const", 0), [i % nf for i in range(n)])]
    m.datas = [A.DataSegment("active", bytes([i & 255] * (i % 9 + 1)), A.Instr("i32.const", 16 * i)) for i in range(n)]
    return encode(m)


def modules(rng, tier):
    """[(label, bytes, [option lists])]"""
    out = []
    sizes = [(9, 0), (12, 0), (33, 3), (300, 7)] if tier == "quick" else [(9, 0), (10, 2), (12, 0), (33, 3), (300, 7), (3000, 40), (8000, 1)]
    for n, ni in sizes:
        for style in ("dense", "sparse", "last-only", "unordered", "duplicates"):
            if tier == "quick" and n > 40 and style in ("last-only", "duplicates"):
                continue
            if n > 3000 and style not in ("dense", "sparse"):       # the Lean model's de-duplication is quadratic
                continue
            opts = G_OPTS[: (2 if n > 40 else 4)] + [[]]
            out.append((f"named:{n}+{ni}:{style}", named(rng, n, ni, style), opts))
    for depth, np_, nl in ([(40, 30, 50), (600, 3, 400)] if tier == "quick" else [(40, 30, 50), (600, 3, 400), (5000, 100, 4000)]):
        out.append((f"deep-stack:{depth}:{np_}:{nl}", deep_stack(depth, np_, nl), PLAIN_OPTS[:2] + [["-g"]]))
    for depth, table in ([(60, 300)] if tier == "quick" else [(60, 300), (300, 5000)]):
        out.append((f"deep-nesting:{depth}:{table}", deep_nesting(depth, table), PLAIN_OPTS[:2] + [["-g", "-t", "2", "-f", "1"]]))
    for n in ([200] if tier == "quick" else [200, 2000]):
        out.append((f"many-entities:{n}", many_entities(n), PLAIN_OPTS + [["-g"]]))
    return out


def selfcheck():
    import random
    from wasmgen import v8
    bad = [lab for lab, data, _ in modules(random.Random(1), "thorough") if not v8.validate(data)]
    return bad


if __name__ == "__main__":
    print("invalid according to V8:", selfcheck())
