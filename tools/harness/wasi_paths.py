"""wasi_paths — build and drive tools/harness/wasi_paths.c (real side of the C14/C15 ties).

The harness #includes the REAL wasi/wasi.c of a scratch copy of /repo and is compiled with
ASan+UBSan (no recovery): a memory error or signed overflow inside the real code kills it.
`Harness.ask(line)` returns the answer line, or `crash <sanitizer summary>` after which the
process is restarted transparently (state such as preopened descriptors is lost — callers
that keep sessions check for the `crash` prefix).
"""
import os
import re
import subprocess

HERE = os.path.dirname(os.path.abspath(__file__))
SRC = os.path.join(HERE, "wasi_paths.c")

# the HAS_* definitions wasi/CMakeLists.txt derives on this platform (glibc, Linux)
DEFS = ["-DHAS_UNISTD=1", "-DHAS_SYSUIO=1", "-DHAS_SYSTIME=1", "-DHAS_SYSRESOURCE=1", "-DHAS_STRNDUP=1",
        "-DHAS_FCNTL=1", "-DHAS_LSTAT=1", "-DHAS_GETENTROPY=1", "-DHAS_TIMESPEC=1", "-DWASM_THREADS_PTHREADS"]


def build(repo_copy, workdir, sanitize=True, cc="gcc", extra_defs=(), suffix=""):
    """extra_defs: e.g. ["-DWASI_FALLBACK_TIMERS_ENABLED=1"] builds the library's fallback-timer configuration"""
    exe = os.path.join(workdir, "wasi_paths" + ("_san" if sanitize else "") + suffix)
    cmd = [cc, "-O1", "-g", "-fno-strict-aliasing", "-fno-omit-frame-pointer", "-w"] + DEFS + list(extra_defs)
    if sanitize:
        cmd += ["-fsanitize=address,undefined", "-fno-sanitize-recover=all"]
    cmd += ["-I", os.path.join(repo_copy, "wasi"), "-I", os.path.join(repo_copy, "w2c2"),
            SRC, os.path.join(repo_copy, "wasi", "mac.c"), "-o", exe, "-lpthread", "-lm"]
    p = subprocess.run(cmd, stdout=subprocess.PIPE, stderr=subprocess.PIPE, text=True)
    if p.returncode != 0:
        raise RuntimeError("wasi_paths harness build failed:\n" + p.stderr[-3000:])
    return exe


ENV = {"ASAN_OPTIONS": "detect_leaks=0:abort_on_error=0:allocator_may_return_null=1:detect_stack_use_after_return=0",
       "UBSAN_OPTIONS": "print_stacktrace=0:halt_on_error=1"}


def _summary(stderr):
    m = re.search(r"ERROR: AddressSanitizer: ([\w-]+)", stderr)
    if m:
        w = re.search(r"(READ|WRITE) of size (\d+)", stderr)
        f = re.search(r"#\d+ 0x[0-9a-f]+ in (\w+) [^\n]*wasi\.c:(\d+)", stderr)
        return "asan:" + m.group(1) + ((":" + w.group(1).lower() + w.group(2)) if w else "") + \
               ((":" + f.group(1) + ":" + f.group(2)) if f else "")
    m = re.search(r"([\w./]+):(\d+):\d+: runtime error: ([^\n]*)", stderr)
    if m:
        return "ubsan:" + os.path.basename(m.group(1)) + ":" + m.group(2) + ":" + m.group(3)[:80].replace(" ", "_")
    return "died:" + stderr[-200:].replace("\n", " ").replace(" ", "_")


class Harness:
    def __init__(self, exe):
        self.exe = exe
        self.p = None
        self.crashes = 0
        self._start()

    def _start(self):
        env = dict(os.environ)
        env.update(ENV)
        self.p = subprocess.Popen([self.exe], stdin=subprocess.PIPE, stdout=subprocess.PIPE,
                                  stderr=subprocess.PIPE, text=True, bufsize=1, env=env)

    def ask(self, line):
        try:
            self.p.stdin.write(line + "\n")
            self.p.stdin.flush()
            out = self.p.stdout.readline()
        except BrokenPipeError:
            out = ""
        if out == "":
            try:
                self.p.stdin.close()
            except Exception:
                pass
            err = self.p.stderr.read()
            self.p.wait()
            self.crashes += 1
            self._start()
            return "crash " + _summary(err)
        return out.rstrip("\n")

    def batch(self, lines):
        return [self.ask(l) for l in lines]

    def close(self):
        try:
            self.p.stdin.close()
            self.p.wait(timeout=10)
        except Exception:
            self.p.kill()


def batch_once(exe, lines, timeout=900):
    """Non-interactive: feed all lines; on a crash at line k record it and continue after it."""
    env = dict(os.environ)
    env.update(ENV)
    out = []
    i = 0
    while i < len(lines):
        p = subprocess.run([exe], input="\n".join(lines[i:]) + "\n", stdout=subprocess.PIPE,
                           stderr=subprocess.PIPE, text=True, timeout=timeout, env=env)
        got = p.stdout.splitlines()
        out += got[:len(lines) - i]
        i += len(got)
        if i < len(lines):
            out.append("crash " + _summary(p.stderr))
            i += 1
    return out[:len(lines)]


def hexs(b):
    return b.hex() if b else "-"


def unhexs(s):
    return b"" if s == "-" else bytes.fromhex(s)
