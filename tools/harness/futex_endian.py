"""futex_endian — build and drive tools/harness/futex_endian.c: the real futex runtime little-endian and forced big-endian."""
import os
import subprocess

HERE = os.path.dirname(os.path.abspath(__file__))


def build(repo_copy, workdir, big_endian, cc="gcc"):
    exe = os.path.join(workdir, "futex_endian_be" if big_endian else "futex_endian_le")
    cmd = [cc, "-O1", "-g", "-w", "-DWASM_THREADS_PTHREADS"] + (["-DWASM_ENDIAN=WASM_BIG_ENDIAN"] if big_endian else [])
    cmd += ["-I", os.path.join(repo_copy, "w2c2"), "-I", os.path.join(repo_copy, "futex"), os.path.join(HERE, "futex_endian.c")]
    cmd += [os.path.join(repo_copy, "futex", f) for f in ("futex.c", "list.c", "map.c")] + ["-o", exe, "-lpthread", "-lm"]
    p = subprocess.run(cmd, stdout=subprocess.PIPE, stderr=subprocess.PIPE, text=True)
    if p.returncode != 0:
        raise RuntimeError("futex_endian build failed:\n" + p.stderr[-2000:])
    return exe


def bswap(v, width):
    return int.from_bytes(v.to_bytes(width, "little"), "big")


def cases(rng, n_random, n_threaded):
    """[dict(kind, w64, addr, cell, expect, spec)] — spec: wait with timeout 0 returns 2 if equal else 1"""
    out = []
    vals32 = [0x11223344, 0x00000001, 0x80000000, 0x01020304, 0xAABBCCDD, 0x11111111, 0]
    vals64 = [0x1122334455667788, 0x0000000000000001, 0x0102030405060708, 0x00000000AABBCCDD, 0x1111111111111111, 0]
    for _ in range(n_random):
        vals32.append(rng.randrange(1 << 32))
        vals64.append(rng.randrange(1 << 64))
    for w64, vals in ((0, vals32), (1, vals64)):
        width = 8 if w64 else 4
        for i, v in enumerate(vals):
            addr = 64 + 8 * (i % 500)
            for e in (v, v ^ 1, bswap(v, width), v ^ (1 << (8 * width - 1))):
                mask = (1 << (8 * width)) - 1
                out.append({"kind": "w", "w64": w64, "addr": addr, "cell": v, "expect": e,
                            "spec": [2 if (e & mask) == (v & mask) else 1]})
    for i in range(n_threaded):
        w64 = i % 2
        v = rng.choice(vals64[:3]) if w64 else rng.choice(vals32[:4])
        out.append({"kind": "n", "w64": w64, "addr": 8000 + 8 * i, "cell": v, "expect": v, "spec": [1, 0]})
    return out


def run(exe, cs):
    inp = "".join(("w %d %d %x %x\n" % (c["w64"], c["addr"], c["cell"], c["expect"])) if c["kind"] == "w"
                  else ("n %d %d %x\n" % (c["w64"], c["addr"], c["cell"])) for c in cs)
    p = subprocess.run([exe], input=inp, stdout=subprocess.PIPE, stderr=subprocess.PIPE, text=True, timeout=300)
    if p.returncode != 0:
        raise RuntimeError(f"futex_endian exited {p.returncode}: {p.stdout[-200:]} {p.stderr[-400:]}")
    return [[int(x) for x in ln.split()] for ln in p.stdout.splitlines()]
