"""mem-ops — the real DEFINE_LOAD*/STORE*/ATOMIC_* functions of w2c2_base.h (compiled from a
scratch copy, little-endian build and forced `-DWASM_ENDIAN=WASM_BIG_ENDIAN` build) on the same
request lines as the Lean driver:
    f <body:le|be> <host> <name> <memhex> <ty:hex>…  ->  val <ty> <hex> mem <hex> | void mem <hex>
"""
import os
import subprocess
import sys

sys.path.insert(0, os.path.join(os.path.dirname(os.path.abspath(__file__)), "..", "extract"))
import gen_loadstore as gl  # noqa: E402

CT = {"u32": "U32", "u64": "U64", "f32": "F32", "f64": "F64"}


def signatures():
    """name -> (param types after addr, result type or None, access width in bytes)"""
    sig = {}
    import re
    for n in gl.PLAIN[0]:
        t = n[:3]
        w = 1 if "8" in n[8:] else 2 if "16" in n else 4 if ("32" in n[8:] or t in ("i32", "f32")) else 8
        if n in ("i64_load", "f64_load"):
            w = 8
        if n in ("i32_load", "f32_load"):
            w = 4
        sig[n] = ([], {"i32": "u32", "i64": "u64", "f32": "f32", "f64": "f64"}[t], w)
    for n in gl.PLAIN[1]:
        t = n[:3]
        w = 1 if n.endswith("8") else 2 if n.endswith("16") else 4 if (n.endswith("32") or t in ("i32", "f32")) else 8
        sig[n] = ([{"i32": "u32", "i64": "u64", "f32": "f32", "f64": "f64"}[t]], None, w)
    def width(n):
        m = re.search(r"(?:load|store|rmw)(8|16|32)?", n)
        if m and m.group(1):
            return int(m.group(1)) // 8
        return 4 if n.startswith("i32") else 8
    for n in gl.ATOMIC_LOADS:
        sig[n] = ([], "u32" if n.startswith("i32") else "u64", width(n))
    for n in gl.ATOMIC_STORES:
        sig[n] = (["u32" if n.startswith("i32") else "u64"], None, width(n))
    for n in gl.rmw_names():
        t = "u32" if n.startswith("i32") else "u64"
        sig[n] = ([t, t] if "cmpxchg" in n else [t], t, width(n))
    return sig


SRC = r'''
#include <stdio.h>
#include <string.h>
#include <stdlib.h>
#include "w2c2_base.h"
void trap(Trap t) { printf("trap %d\n", (int)t); exit(3); }
typedef union { U32 u32; U64 u64; F32 f32; F64 f64; U32 b32; U64 b64; } V;
static int hexv(char c) { return c <= '9' ? c - '0' : (c | 32) - 'a' + 10; }
static void printmem(wasmMemory* m) { U32 i; printf(" mem "); for (i = 0; i < m->size; i++) printf("%02x", m->data[i]); printf("\n"); }
int main(void) {
  static char line[4096]; static U8 data[1024];
  while (fgets(line, sizeof line, stdin)) {
    char* w[10]; int n = 0; char* p = strtok(line, " \n");
    while (p && n < 10) { w[n++] = p; p = strtok(NULL, " \n"); }
    if (n < 5 || strcmp(w[0], "f")) { puts("err unknown-command"); continue; }
    const char* name = w[3]; size_t len = strlen(w[4]) / 2; size_t i;
    wasmMemory mem; memset(&mem, 0, sizeof mem); mem.data = data; mem.size = (U32)len; mem.pages = 1; mem.maxPages = 1;
#ifdef WASM_MUTEX_TYPE
    pthread_mutex_init(&mem.mutex, NULL); mem.shared = getenv("MEMOPS_UNSHARED") ? false : true;   /* atomic accesses are valid on unshared memories too */
#endif
    for (i = 0; i < len; i++) data[i] = (U8)(hexv(w[4][2*i]) * 16 + hexv(w[4][2*i+1]));
    V a[4]; int na = n - 5;
    for (i = 0; i < (size_t)na && i < 4; i++) { char* c = strchr(w[5 + i], ':'); unsigned long long b = strtoull(c + 1, NULL, 16);
      memset(&a[i], 0, sizeof a[i]); if (!strncmp(w[5+i], "u32", 3) || !strncmp(w[5+i], "f32", 3)) a[i].b32 = (U32)b; else a[i].b64 = b; }
    V r; memset(&r, 0, sizeof r);
@@DISPATCH@@
    puts("err unknown-op");
  }
  return 0;
}
'''


def build(repo_copy, workdir, big_endian=False, cc="gcc", extra=(), tag=""):
    sig = signatures()
    disp = []
    for n, (ps, rt, w) in sig.items():
        args = "".join(f", a[{i + 1}].{t}" for i, t in enumerate(ps))
        if rt:
            fmt = {"u32": '"val u32 %x", r.b32', "u64": '"val u64 %llx", r.b64', "f32": '"val f32 %x", r.b32', "f64": '"val f64 %llx", r.b64'}[rt]
            disp.append(f'    if (!strcmp(name, "{n}")) {{ r.{rt} = {n}(&mem, a[0].u64{args}); printf({fmt}); printmem(&mem); continue; }}\n')
        else:
            disp.append(f'    if (!strcmp(name, "{n}")) {{ {n}(&mem, a[0].u64{args}); printf("void"); printmem(&mem); continue; }}\n')
    src = os.path.join(workdir, ("memops_be" if big_endian else "memops") + tag + ".c")
    exe = os.path.join(workdir, ("memops_be" if big_endian else "memops") + tag)
    open(src, "w").write(SRC.replace("@@DISPATCH@@", "".join(disp)))
    cmd = [cc, "-O1", "-w", "-fno-strict-aliasing", "-DWASM_THREADS_PTHREADS", "-I", os.path.join(repo_copy, "w2c2"), src, "-o", exe, "-lm", "-lpthread"]
    if big_endian:
        cmd[1:1] = ["-DWASM_ENDIAN=WASM_BIG_ENDIAN"]
    cmd[1:1] = list(extra)
    p = subprocess.run(cmd, stdout=subprocess.PIPE, stderr=subprocess.PIPE, text=True)
    if p.returncode != 0:
        raise RuntimeError("mem harness build failed:\n" + p.stderr[-3000:])
    return exe


PRELUDE_OLD_GCC = """/* makes the compiler identify itself as GCC 4.7: w2c2_base.h then selects its portable mask-and-shift byte swaps
   (the branch for compilers without bswap intrinsics) instead of __builtin_bswap*; the system headers are included first, under the
   compiler's real identity (their include guards keep them from being read again) */
#include <stddef.h>
#include <math.h>
#include <string.h>
#include <stdlib.h>
#include <stdint.h>
#include <stdbool.h>
#include <assert.h>
#include <errno.h>
#include <endian.h>
#include <float.h>
#include <limits.h>
#include <stdio.h>
#include <pthread.h>
#undef __GNUC__
#undef __GNUC_MINOR__
#undef __clang__
#define __GNUC__ 4
#define __GNUC_MINOR__ 7
"""


def build_be_plain(repo_copy, workdir):
    """forced big-endian build with the PORTABLE swap macros; raises if the preprocessor did not select them"""
    pre = os.path.join(workdir, "prelude_gcc47.h")
    open(pre, "w").write(PRELUDE_OLD_GCC)
    probe = os.path.join(workdir, "swap_probe.c")
    open(probe, "w").write('#include "w2c2_base.h"\nPROBE swapU64(v)\n')
    p = subprocess.run(["gcc", "-E", "-P", "-w", "-include", pre, "-DWASM_ENDIAN=WASM_BIG_ENDIAN", "-I", os.path.join(repo_copy, "w2c2"), probe],
                       stdout=subprocess.PIPE, stderr=subprocess.PIPE, text=True)
    line = [l for l in p.stdout.splitlines() if l.startswith("PROBE")]
    if p.returncode != 0 or not line or "__builtin_bswap" in line[0] or ">>" not in line[0]:
        raise RuntimeError("portable swap macros not selected by the prelude: " + (line[0] if line else p.stderr[-500:]))
    return build(repo_copy, workdir, big_endian=True, extra=("-include", pre), tag="_plain")


def gen_cases(rng, names, n_random, aligned_only=False, memlen=24):
    sig = signatures()
    cases = []
    for n in names:
        ps, rt, w = sig[n]
        addrs = list(range(0, memlen - w + 1))
        if aligned_only:
            addrs = [a for a in addrs if a % w == 0]
        for k in range(n_random):
            mem = bytes(rng.getrandbits(8) if rng.random() < 0.8 else rng.choice([0, 0xff, 0x80, 0x7f]) for _ in range(memlen))
            a = rng.choice(addrs) if k >= 4 else [addrs[0], addrs[-1], addrs[len(addrs) // 2], addrs[1 % len(addrs)]][k]
            vals = []
            for t in ps:
                wbits = 32 if t in ("u32", "f32") else 64
                r = rng.random()
                if "cmpxchg" in n and len(vals) == 0 and r < 0.6:
                    # expected: often equal to the cell (possibly with garbage in the high bits)
                    cell = int.from_bytes(mem[a:a + w], "little")
                    v = cell | ((rng.getrandbits(wbits) >> (8 * w) << (8 * w)) if w * 8 < wbits and rng.random() < 0.5 else 0)
                else:
                    v = rng.choice([0, 1, (1 << wbits) - 1, 1 << (wbits - 1), 0x80, 0xff, 0x8000, 0xffff, 0x80000000, 0xffffffff]) if r < 0.35 else rng.getrandbits(wbits)
                vals.append((t, v & ((1 << wbits) - 1)))
            cases.append((n, mem, a, vals))
    return cases


def line_for(case, body, host="le"):
    n, mem, a, vals = case
    return "f %s %s %s %s u64:%x %s" % (body, host, n, mem.hex(), a, " ".join("%s:%x" % (t, v) for t, v in vals))
