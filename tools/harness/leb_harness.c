/* leb_harness — in-process tie of Model.Leb to the REAL decoders: #includes leb128.h / buffer.h of the
 * scratch copy of /repo (-I<repo>/w2c2).  Line protocol (same as `readerdriver`):
 *     leb <u32|i32|u64|i64> <hex bytes | ->   ->   <bits hex> <count> <ub> <bytes left>
 * `ub` is always printed as 0 here; the UBSan build (-fsanitize=undefined, recoverable) is run with
 * -DMARK_LINES, which writes "LINE <n>\n" to stderr before each call so that the runtime's reports can be
 * attributed to the input line that caused them, and handles every line in a forked child (UBSan reports a
 * source location only once per process; a crash only loses that line: the parent prints `crash <status>`).
 * The buffer handed to the decoder is an exact-size malloc block, so that an over-read is visible to ASan. */
#include <stdio.h>
#include <stdlib.h>
#include <string.h>
#ifdef MARK_LINES
#include <unistd.h>
#include <sys/wait.h>
#endif
#include "leb128.h"

static int hexv(int c) {
    if (c >= '0' && c <= '9') return c - '0';
    if (c >= 'a' && c <= 'f') return c - 'a' + 10;
    if (c >= 'A' && c <= 'F') return c - 'A' + 10;
    return -1;
}

int main(void) {
    static char line[1 << 16];
    unsigned long lineNo = 0;
    while (fgets(line, sizeof line, stdin)) {
        char cmd[16], kind[16];
        static char hex[1 << 16];
        size_t n = 0, i, hl;
        U8* data;
        Buffer buffer;
        size_t count = 0;
        lineNo++;
        if (sscanf(line, "%15s %15s %65535s", cmd, kind, hex) != 3 || strcmp(cmd, "leb") != 0) {
            puts("err unknown-command");
            continue;
        }
        hl = strcmp(hex, "-") == 0 ? 0 : strlen(hex);
        n = hl / 2;
        data = malloc(n ? n : 1);
        for (i = 0; i < n; i++) {
            data[i] = (U8) (hexv(hex[2 * i]) * 16 + hexv(hex[2 * i + 1]));
        }
        if (n == 0) {
            /* an empty buffer: a zero-size block, any read is out of bounds */
            free(data);
            data = malloc(0);
        }
        buffer.data = data;
        buffer.length = n;
#ifdef MARK_LINES
        fprintf(stderr, "LINE %lu\n", lineNo);
        fflush(stdout);
        {
            pid_t pid = fork();
            if (pid != 0) {
                int status = 0;
                waitpid(pid, &status, 0);
                if (!(WIFEXITED(status) && WEXITSTATUS(status) == 0)) {
                    printf("crash %d\n", status);
                }
                free(data);
                continue;
            }
        }
#endif
        if (strcmp(kind, "u32") == 0) {
            U32 r = 0;
            count = leb128ReadU32(&buffer, &r);
            printf("%lx", (unsigned long) r);
        } else if (strcmp(kind, "i32") == 0) {
            I32 r = 0;
            count = leb128ReadI32(&buffer, &r);
            printf("%lx", (unsigned long) (U32) r);
        } else if (strcmp(kind, "u64") == 0) {
            U64 r = 0;
            count = leb128ReadU64(&buffer, &r);
            printf("%llx", (unsigned long long) r);
        } else if (strcmp(kind, "i64") == 0) {
            I64 r = 0;
            count = leb128ReadI64(&buffer, &r);
            printf("%llx", (unsigned long long) (U64) r);
        } else {
            puts("err bad-kind");
            free(data);
            continue;
        }
        /* the decoder must have advanced the buffer by exactly `count` */
        if ((size_t) (buffer.data - data) != count || buffer.length + count != n) {
            printf(" INCONSISTENT-ADVANCE");
        }
        printf(" %lu 0 %lu\n", (unsigned long) count, (unsigned long) buffer.length);
        free(data);
#ifdef MARK_LINES
        fflush(stdout);
        _exit(0);
#endif
    }
    return 0;
}
