"""bufread — the translator's reading of f32.const / f64.const immediates (buffer.h bufferReadF32 / bufferReadF64), run
in-process in the little-endian configuration and in the FORCED big-endian configuration (-DWASM_ENDIAN=WASM_BIG_ENDIAN on
this little-endian host: the memcpy assembles the little-endian value, the big-endian reassignment must then be exactly
one byte reversal of the full width — the image of what a big-endian host turns into the little-endian reading)."""
import os
import subprocess

SRC = r'''
#include <stdio.h>
#include <string.h>
#include <stdlib.h>
#include "buffer.h"
int main(void) {
  char line[256];
  while (fgets(line, sizeof line, stdin)) {
    char kind[8]; char hex[64]; U8 bytes[32]; size_t n, i;
    if (sscanf(line, "%7s %63s", kind, hex) != 2) { printf("bad\n"); continue; }
    n = strlen(hex) / 2;
    for (i = 0; i < n; i++) { unsigned v; sscanf(hex + 2 * i, "%2x", &v); bytes[i] = (U8) v; }
    {
      Buffer b; b.data = bytes; b.length = n;
      if (!strcmp(kind, "f32")) { I32 r = 0x55555555; bool ok = bufferReadF32(&b, &r);
        printf("%d %x rest %lu adv %ld\n", (int) ok, (unsigned) r, (unsigned long) b.length, (long) (b.data - bytes)); }
      else { I64 r = 0x5555555555555555LL; bool ok = bufferReadF64(&b, &r);
        printf("%d %llx rest %lu adv %ld\n", (int) ok, (unsigned long long) r, (unsigned long) b.length, (long) (b.data - bytes)); }
    }
    fflush(stdout);
  }
  return 0;
}
'''


def build(repo_copy, workdir, big_endian, cc="gcc"):
    src = os.path.join(workdir, "bufread.c")
    exe = os.path.join(workdir, "bufread_be" if big_endian else "bufread_le")
    open(src, "w").write(SRC)
    cmd = [cc, "-O1", "-w", "-fno-strict-aliasing", "-I", os.path.join(repo_copy, "w2c2"), src, "-o", exe]
    if big_endian:
        cmd[1:1] = ["-DWASM_ENDIAN=WASM_BIG_ENDIAN"]
    p = subprocess.run(cmd, stdout=subprocess.PIPE, stderr=subprocess.PIPE, text=True)
    if p.returncode != 0:
        raise RuntimeError("bufread harness build failed:\n" + p.stderr[-2000:])
    return exe


def cases(rng, n_random):
    out = []
    for kind, w in (("f32", 4), ("f64", 8)):
        pats = [bytes(range(1, w + 1)), bytes(w), b"\xff" * w, bytes([0] * (w - 1) + [0x80]), bytes([0x80] + [0] * (w - 1)),
                bytes([1] + [0] * (w - 1)), bytes([0] * (w - 1) + [1]), bytes([0xAA, 0x55] * (w // 2)),
                bytes([0] * (w // 2) + [0xFF] * (w // 2)), bytes([0xFF] * (w // 2) + [0] * (w // 2))]
        pats += [bytes(rng.randrange(256) for _ in range(w)) for _ in range(n_random)]
        for p in pats:
            out.append((kind, p + bytes(rng.randrange(256) for _ in range(rng.randrange(0, 4)))))
        for short in range(0, w):                       # too short: must fail and leave everything alone
            out.append((kind, bytes(rng.randrange(256) for _ in range(short))))
    return out


def expect(kind, data, big_endian):
    w = 4 if kind == "f32" else 8
    if len(data) < w:
        return "0 %x rest %d adv 0" % (0x55555555 if w == 4 else 0x5555555555555555, len(data))
    v = int.from_bytes(data[:w], "big" if big_endian else "little")
    return "1 %x rest %d adv %d" % (v, len(data) - w, w)


def run(exe, cs):
    inp = "".join("%s %s\n" % (k, d.hex() if d else "-") for k, d in cs)
    p = subprocess.run([exe], input=inp, stdout=subprocess.PIPE, stderr=subprocess.PIPE, text=True, timeout=300)
    out = p.stdout.splitlines()
    if len(out) != len(cs):
        raise RuntimeError("bufread harness answered %d of %d: %s" % (len(out), len(cs), p.stderr[-300:]))
    return out
