/* reader_dump — the REAL reader (reader.c and everything it needs, linked from a scratch copy of /repo)
 * behind the line protocol of `readerdriver`:
 *     read <debug 0|1> <strict 0|1> <hex bytes>  ->  canonical dump of the WasmModule | err <code>
 * The file image is an exact-size malloc block (an over-read is visible to ASan).  `strict` is ignored here:
 * whether `-((I64)1 << 63)` was executed is decided by the UBSan build from its stderr.  That build
 * (-DMARK_LINES) writes "LINE <n>" to stderr before each case and handles the case in a forked child: UBSan
 * reports a source location once per process only, and a crash then loses just that case (`crash <status>`). */
#include <stdio.h>
#include <stdlib.h>
#include <string.h>
#ifdef MARK_LINES
#include <unistd.h>
#include <sys/wait.h>
#endif
#include "reader.h"

static int hexv(int c) {
    if (c >= '0' && c <= '9') return c - '0';
    if (c >= 'a' && c <= 'f') return c - 'a' + 10;
    if (c >= 'A' && c <= 'F') return c - 'A' + 10;
    return -1;
}

static void hexOut(const unsigned char* p, size_t n) {
    size_t i;
    if (n == 0) { putchar('-'); return; }
    for (i = 0; i < n; i++) printf("%02x", p[i]);
}

static void cstrOut(const char* s) {
    if (s == NULL) { putchar('~'); return; }
    hexOut((const unsigned char*) s, strlen(s));
}

static const char* vtName(WasmValueType t) {
    switch (t) {
        case wasmValueTypeI32: return "i32";
        case wasmValueTypeI64: return "i64";
        case wasmValueTypeF32: return "f32";
        case wasmValueTypeF64: return "f64";
        default: return "?";
    }
}

static void vtList(const WasmValueType* ts, U32 n) {
    U32 i;
    if (n == 0) { putchar('-'); return; }
    for (i = 0; i < n; i++) printf("%s%s", i ? "," : "", vtName(ts[i]));
}

static void dump(const WasmModule* m, const U8* base, size_t n) {
    U32 i, j;
    size_t k;
    printf("ok len=%lu;types=%u", (unsigned long) m->length, m->functionTypes.count);
    for (i = 0; i < m->functionTypes.count; i++) {
        const WasmFunctionType t = m->functionTypes.functionTypes[i];
        printf(";T "); vtList(t.parameterTypes, t.parameterCount); putchar('>'); vtList(t.resultTypes, t.resultCount);
    }
    printf(";fimp=%lu", (unsigned long) m->functionImports.length);
    for (k = 0; k < m->functionImports.length; k++) {
        const WasmFunctionImport x = m->functionImports.imports[k];
        printf(";FI "); cstrOut(x.module); putchar(' '); cstrOut(x.name); printf(" %u", x.functionTypeIndex);
    }
    printf(";gimp=%lu", (unsigned long) m->globalImports.length);
    for (k = 0; k < m->globalImports.length; k++) {
        const WasmGlobalImport x = m->globalImports.imports[k];
        printf(";GI "); cstrOut(x.module); putchar(' '); cstrOut(x.name);
        printf(" %s %d", vtName(x.globalType.valueType), x.globalType.mutable ? 1 : 0);
    }
    printf(";mimp=%lu", (unsigned long) m->memoryImports.length);
    for (k = 0; k < m->memoryImports.length; k++) {
        const WasmMemoryImport x = m->memoryImports.imports[k];
        printf(";MI "); cstrOut(x.module); putchar(' '); cstrOut(x.name); printf(" %u %u %d", x.min, x.max, x.shared ? 1 : 0);
    }
    printf(";timp=%lu", (unsigned long) m->tableImports.length);
    for (k = 0; k < m->tableImports.length; k++) {
        const WasmTableImport x = m->tableImports.imports[k];
        printf(";TI "); cstrOut(x.module); putchar(' '); cstrOut(x.name); printf(" %u %u %d", x.min, x.max, x.shared ? 1 : 0);
    }
    printf(";funcs=%u", m->functions.count);
    for (i = 0; i < m->functions.count; i++) {
        const WasmFunction f = m->functions.functions[i];
        printf(";F ti=%u exp=", f.functionTypeIndex); cstrOut(f.exportName);
        printf(" start=%lu hash=", (unsigned long) f.start);
        for (j = 0; j < SHA1_DIGEST_LENGTH; j++) printf("%02x", f.hash[j]);
        printf(" locals=");
        if (f.localsDeclarations.declarationCount == 0) putchar('-');
        for (j = 0; j < f.localsDeclarations.declarationCount; j++) {
            printf("%s%u:%s", j ? "," : "", f.localsDeclarations.declarations[j].count,
                   vtName(f.localsDeclarations.declarations[j].type));
        }
        printf(" code="); hexOut(f.code.data, f.code.length);
    }
    printf(";tables=%u", m->tables.count);
    for (i = 0; i < m->tables.count; i++) {
        printf(";TB %u %u %d", m->tables.tables[i].min, m->tables.tables[i].max, m->tables.tables[i].shared ? 1 : 0);
    }
    printf(";mems=%u", m->memories.count);
    for (i = 0; i < m->memories.count; i++) {
        printf(";MM %u %u %d", m->memories.memories[i].min, m->memories.memories[i].max, m->memories.memories[i].shared ? 1 : 0);
    }
    printf(";globals=%u", m->globals.count);
    for (i = 0; i < m->globals.count; i++) {
        const WasmGlobal g = m->globals.globals[i];
        printf(";G %s %d ", vtName(g.type.valueType), g.type.mutable ? 1 : 0); hexOut(g.init.data, g.init.length);
    }
    printf(";exports=%u", m->exports.count);
    for (i = 0; i < m->exports.count; i++) {
        const WasmExport x = m->exports.exports[i];
        printf(";X "); cstrOut(x.name); printf(" %d %u", (int) x.kind, x.index);
    }
    if (m->hasStartFunction) printf(";start=%u", m->startFunctionIndex); else printf(";start=~");
    printf(";elems=%u", m->elementSegments.count);
    for (i = 0; i < m->elementSegments.count; i++) {
        const WasmElementSegment e = m->elementSegments.elementSegments[i];
        printf(";E %u ", e.tableIndex); hexOut(e.offset.data, e.offset.length); putchar(' ');
        if (e.functionIndexCount == 0) putchar('-');
        for (j = 0; j < e.functionIndexCount; j++) printf("%s%u", j ? "," : "", e.functionIndices[j]);
    }
    printf(";datas=%u", m->dataSegments.count);
    for (i = 0; i < m->dataSegments.count; i++) {
        const WasmDataSegment d = m->dataSegments.dataSegments[i];
        printf(";D %u %d ", d.memoryIndex, d.passive ? 1 : 0);
        hexOut(d.offset.data, d.offset.length); putchar(' '); hexOut(d.bytes.data, d.bytes.length);
    }
    printf(";dbg=%lu", (unsigned long) m->debugSections.length);
    for (k = 0; k < m->debugSections.length; k++) {
        const WasmDebugSection s = m->debugSections.debugSections[k];
        size_t left = (size_t) ((base + n) - s.buffer.data);
        printf(";DS "); cstrOut(s.name);
        printf(" %lu %lu", (unsigned long) s.buffer.length, (unsigned long) (s.buffer.length < left ? s.buffer.length : left));
    }
    printf(";fnames=%lu", (unsigned long) m->functionNames.length);
    for (k = 0; k < m->functionNames.length; k++) {
        printf(";FN "); cstrOut(m->functionNames.names[k]);
    }
    putchar('\n');
}

int main(void) {
    size_t cap = 1 << 20;
    char* line = malloc(cap);
    unsigned long lineNo = 0;
    while (1) {
        size_t len = 0;
        int c;
        char* p;
        int debug;
        size_t n, i;
        U8* data;
        WasmModuleReader reader = emptyWasmModuleReader;
        WasmModuleReaderError* error = NULL;
        while ((c = getchar()) != EOF && c != '\n') {
            if (len + 2 > cap) { cap *= 2; line = realloc(line, cap); }
            line[len++] = (char) c;
        }
        if (c == EOF && len == 0) break;
        line[len] = '\0';
        lineNo++;
        if (strncmp(line, "read ", 5) != 0 || len < 9) { puts("err unknown-command"); fflush(stdout); continue; }
        debug = line[5] == '1';
        p = line + 9;
        if (strcmp(p, "-") == 0) p += 1;
        n = strlen(p) / 2;
        data = malloc(n);
        for (i = 0; i < n; i++) data[i] = (U8) (hexv(p[2 * i]) * 16 + hexv(p[2 * i + 1]));
#ifdef MARK_LINES
        fprintf(stderr, "LINE %lu\n", lineNo);
        fflush(stdout);
        {
            pid_t pid = fork();
            if (pid != 0) {
                int status = 0;
                waitpid(pid, &status, 0);
                if (!(WIFEXITED(status) && WEXITSTATUS(status) == 0)) {
                    printf("crash %d\n", status);
                    fflush(stdout);
                }
                free(data);
                continue;
            }
        }
#endif
        reader.buffer.data = data;
        reader.buffer.length = n;
        reader.debug = debug;
        wasmModuleRead(&reader, &error);
        if (error != NULL) {
            printf("err %d\n", (int) error->code);
        } else {
            dump(reader.module, data, n);
        }
        fflush(stdout);
#ifdef MARK_LINES
        _exit(0);
#endif
        /* the module keeps pointers into `data`; nothing is freed (the process is short-lived) */
    }
    return 0;
}
