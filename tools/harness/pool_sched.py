"""pool_sched — real-side helpers for the C09 pool / partition / split tie.

  * builds the real `w2c2` (scratch copy of /repo) and the deterministic scheduler shim of tools/sched as
    `libsched_preload.so`; runs `w2c2` under `LD_PRELOAD` with a seeded schedule incl. spurious wake-ups;
  * generates small modules with several functions (some with byte-identical bodies) and reference modules
    sharing none / some / all bodies (tools/wasmgen AST + encoder);
  * reads back what w2c2 wrote: which function definitions are in which file, in which order;
  * computes, independently of w2c2, the SHA-1 of every code entry (what reader.c hashes).
"""
import hashlib
import os
import re
import subprocess
import sys

HERE = os.path.dirname(os.path.abspath(__file__))
TOOLS = os.path.dirname(HERE)
sys.path.insert(0, TOOLS)

from wasmgen import wasm_ast as A, encode   # noqa: E402

SCHED_DIR = os.path.join(TOOLS, "sched")


def build_shim(workdir):
    p = subprocess.run(["make", "-s", "-f", os.path.join(SCHED_DIR, "Makefile"), "S=" + SCHED_DIR, "libsched_preload.so"],
                       cwd=workdir, stdout=subprocess.PIPE, stderr=subprocess.STDOUT, text=True)
    so = os.path.join(workdir, "libsched_preload.so")
    if p.returncode != 0 or not os.path.exists(so):
        raise RuntimeError("scheduler shim build failed: " + p.stdout[-1500:])
    return so


# ----------------------------------------------------------------------------- modules

def body(k, variant=0):
    """a small function body, distinct for distinct (k, variant)"""
    ins = [A.Instr("local.get", 0), A.Instr("i32.const", k * 7 + 1), A.Instr("i32.add")]
    for _ in range(variant):
        ins += [A.Instr("i32.const", 3), A.Instr("i32.mul")]
    return ins


def make_module(body_keys):
    """module with one function per key; equal keys = byte-identical bodies.  key = (k, variant)"""
    m = A.Module()
    m.types = [A.FuncType([A.I32], [A.I32])]
    m.funcs = [A.Function(0, [], body(*key)) for key in body_keys]
    m.exports = [A.Export(b"f%d" % i, "func", i) for i in range(len(body_keys))]
    return encode(m)


def leb_u(data, pos):
    v = 0
    shift = 0
    while True:
        b = data[pos]
        pos += 1
        v |= (b & 0x7f) << shift
        shift += 7
        if not b & 0x80:
            return v, pos


def code_hashes(wasm):
    """SHA-1 (hex) of every code entry (locals + body, without the size prefix), in function-index order."""
    pos = 8
    while pos < len(wasm):
        sid = wasm[pos]
        size, pos = leb_u(wasm, pos + 1)
        if sid == 10:
            n, p = leb_u(wasm, pos)
            out = []
            for _ in range(n):
                sz, p = leb_u(wasm, p)
                out.append(hashlib.sha1(wasm[p:p + sz]).hexdigest())
                p += sz
            return out
        pos += size
    return []


# ----------------------------------------------------------------------------- running w2c2

def run_w2c2(w2c2, wasm_path, outdir, opts, shim=None, seed=None, spurious=20, schedule=None, timeout=30):
    """Run w2c2 in `outdir` (created empty).  Returns dict(rc, stderr, files{name: bytes}, trace[(token, op)],
    verdict, schedule)."""
    os.makedirs(outdir, exist_ok=True)
    env = dict(os.environ)
    tr = os.path.join(outdir, ".sched_trace")
    so = os.path.join(outdir, ".sched_out")
    if shim:
        env.update({"LD_PRELOAD": shim, "SCHED_ENABLE": "1", "SCHED_TRACE": tr, "SCHED_OUT": so,
                    "SCHED_MAX_STEPS": "200000"})
        if schedule is not None:
            env.update({"SCHED_SCHEDULE": schedule, "SCHED_STRICT": "1", "SCHED_FALLBACK": "stop"})
        else:
            env.update({"SCHED_SEED": str(seed), "SCHED_FALLBACK": "random", "SCHED_SPURIOUS_WEIGHT": str(spurious)})
    try:
        p = subprocess.run([w2c2] + list(opts) + [wasm_path, "m.c"], cwd=outdir, env=env, stdout=subprocess.PIPE,
                           stderr=subprocess.PIPE, timeout=timeout)
        rc, err = p.returncode, p.stderr.decode("latin1")[-600:]
    except subprocess.TimeoutExpired:
        rc, err = "timeout", f"no exit within {timeout} s (threads blocked forever?)"
    res = {"rc": rc, "stderr": err, "files": {}, "trace": [], "verdict": None, "schedule": None}
    for f in sorted(os.listdir(outdir)):
        if f.startswith("."):
            continue
        with open(os.path.join(outdir, f), "rb") as fh:
            res["files"][f] = fh.read()
    if shim:
        if os.path.exists(tr):
            for line in open(tr):
                m = re.match(r"sched:\s+\d+\s+T(\d+)\s+(\S+)\s+(\S+)", line)
                if m:
                    res["trace"].append((int(m.group(1)), m.group(2), m.group(3)))
        if os.path.exists(so):
            for line in open(so):
                if line.startswith("verdict "):
                    res["verdict"] = line.split(None, 1)[1].strip()
                elif line.startswith("schedule"):
                    res["schedule"] = line[len("schedule"):].strip()
    return res


FUNC_DEF = re.compile(rb"^[A-Za-z_][A-Za-z0-9_ \*]*\bf(\d+)\([^;{]*\)\s*\{\s*$", re.M)


def functions_in(text):
    """indices of the function DEFINITIONS `… f<idx>(…) {` in a generated C file, in order"""
    return [int(m.group(1)) for m in FUNC_DEF.finditer(text)]


def normalise_ops(trace):
    """[(thread, token, op)] of ONE pool invocation → (tokens, ops) for the model: create/start dropped,
    mutex/condvar ids replaced by their roles (the condvar the workers wait on = consume)."""
    consume = None
    for t, tok, op in trace:
        if t != 0 and op.startswith("cond_wait:"):
            consume = op.split(":")[1]
            break
    if consume is None:
        for t, tok, op in trace:          # nobody ever waited on it: it is the one the producer signals/broadcasts
            if t == 0 and (op.startswith("signal:") or op.startswith("broadcast:")):
                consume = op.split(":")[1]
                break
    toks, ops = [], []
    for t, tok, op in trace:
        if op in ("create", "start"):
            continue
        parts = op.split(":")
        kind = parts[0]
        if kind in ("signal", "broadcast", "cond_wait", "spurious-wake"):
            role = "consume" if parts[1] == consume else "produce"
            name = kind if kind == "spurious-wake" else f"{kind}:{role}"
        elif kind == "join":
            name = "join:" + parts[1].lstrip("t")
        else:
            name = kind
        toks.append(tok)
        ops.append(name)
    return toks, ops
