/* imm_harness — in-process tie of Model.Instr to the REAL immediate readers and the real locals lookup: compiled
 * together with instruction.c of the scratch copy of /repo (-I<repo>/w2c2; instruction.h, valuetype.h, locals.h are
 * #included).  Line protocol (same as `readerdriver`, Driver/ReaderImm.lean):
 *     imm <reader[/case]> <hex|->          -> ok <value>... rest=<bytes left> | fail
 *     blocktype <hex|->                    -> ok none|i32|i64|f32|f64 rest=<n> | fail
 *     locals <count:type,...|-> <index>    -> i32|i64|f32|f64 | none
 * The buffer handed to a reader is an exact-size malloc block (an over-read is visible to ASan). */
#include <stdio.h>
#include <stdlib.h>
#include <string.h>
#include "instruction.h"
#include "valuetype.h"
#include "locals.h"
#include "opcode.h"

static int hexv(int c) {
    if (c >= '0' && c <= '9') return c - '0';
    if (c >= 'a' && c <= 'f') return c - 'a' + 10;
    if (c >= 'A' && c <= 'F') return c - 'A' + 10;
    return -1;
}

static const char* vtName(WasmValueType t) {
    switch (t) {
        case wasmValueTypeI32: return "i32";
        case wasmValueTypeI64: return "i64";
        case wasmValueTypeF32: return "f32";
        case wasmValueTypeF64: return "f64";
        default: return "?";
    }
}

static int vtOf(const char* s, WasmValueType* t) {
    if (!strcmp(s, "i32")) { *t = wasmValueTypeI32; return 1; }
    if (!strcmp(s, "i64")) { *t = wasmValueTypeI64; return 1; }
    if (!strcmp(s, "f32")) { *t = wasmValueTypeF32; return 1; }
    if (!strcmp(s, "f64")) { *t = wasmValueTypeF64; return 1; }
    return 0;
}

static void leBytes(unsigned long long v, int n) {
    int k;
    for (k = 0; k < n; k++) printf("%02x", (unsigned) ((v >> (8 * k)) & 0xFF));
}

static void imm(const char* name, Buffer* b) {
    if (!strcmp(name, "wasmLocalInstructionRead")) {
        WasmLocalInstruction r;
        if (!wasmLocalInstructionRead(b, &r)) { puts("fail"); return; }
        printf("ok %u", r.localIndex);
    } else if (!strcmp(name, "wasmGlobalInstructionRead")) {
        WasmGlobalInstruction r;
        if (!wasmGlobalInstructionRead(b, &r)) { puts("fail"); return; }
        printf("ok %u", r.globalIndex);
    } else if (!strcmp(name, "wasmConstInstructionRead/wasmOpcodeI32Const")) {
        WasmConstInstruction r;
        if (!wasmConstInstructionRead(b, wasmOpcodeI32Const, &r)) { puts("fail"); return; }
        printf("ok %d", (int) r.value.i32);
    } else if (!strcmp(name, "wasmConstInstructionRead/wasmOpcodeI64Const")) {
        WasmConstInstruction r;
        if (!wasmConstInstructionRead(b, wasmOpcodeI64Const, &r)) { puts("fail"); return; }
        printf("ok %lld", (long long) r.value.i64);
    } else if (!strcmp(name, "wasmConstInstructionRead/wasmOpcodeF32Const")) {
        WasmConstInstruction r;
        if (!wasmConstInstructionRead(b, wasmOpcodeF32Const, &r)) { puts("fail"); return; }
        printf("ok "); leBytes((U32) r.value.i32, 4);
    } else if (!strcmp(name, "wasmConstInstructionRead/wasmOpcodeF64Const")) {
        WasmConstInstruction r;
        if (!wasmConstInstructionRead(b, wasmOpcodeF64Const, &r)) { puts("fail"); return; }
        printf("ok "); leBytes((U64) r.value.i64, 8);
    } else if (!strcmp(name, "wasmMemoryArgumentInstructionRead")) {
        WasmMemoryArgumentInstruction r;
        if (!wasmMemoryArgumentInstructionRead(b, &r)) { puts("fail"); return; }
        printf("ok %u %u", r.align, r.offset);
    } else if (!strcmp(name, "wasmCallInstructionRead")) {
        WasmCallInstruction r;
        if (!wasmCallInstructionRead(b, &r)) { puts("fail"); return; }
        printf("ok %u", r.funcIndex);
    } else if (!strcmp(name, "wasmCallIndirectInstructionRead")) {
        WasmCallIndirectInstruction r;
        if (!wasmCallIndirectInstructionRead(b, &r)) { puts("fail"); return; }
        printf("ok %u %u", r.functionTypeIndex, r.tableIndex);
    } else if (!strcmp(name, "wasmBranchInstructionRead")) {
        WasmBranchInstruction r;
        if (!wasmBranchInstructionRead(b, &r)) { puts("fail"); return; }
        printf("ok %u", r.labelIndex);
    } else if (!strcmp(name, "wasmBranchTableInstructionRead")) {
        WasmBranchTableInstruction r;
        U32 k;
        if (!wasmBranchTableInstructionRead(b, &r)) { puts("fail"); return; }
        printf("ok %u", r.labelIndexCount);
        for (k = 0; k < r.labelIndexCount; k++) printf(" %u", r.labelIndices[k]);
        printf(" %u", r.defaultLabelIndex);
        wasmBranchTableInstructionFree(r);
    } else if (!strcmp(name, "wasmMemoryInstructionRead")) {
        WasmMemoryInstruction r;
        if (!wasmMemoryInstructionRead(b, &r)) { puts("fail"); return; }
        printf("ok %u", r.memoryIndex);
    } else if (!strcmp(name, "wasmMemoryCopyInstructionRead")) {
        WasmMemoryCopyInstruction r;
        if (!wasmMemoryCopyInstructionRead(b, &r)) { puts("fail"); return; }
        printf("ok %u %u", r.memoryIndex1, r.memoryIndex2);
    } else if (!strcmp(name, "wasmMemoryInitInstructionRead")) {
        WasmMemoryInitInstruction r;
        if (!wasmMemoryInitInstructionRead(b, &r)) { puts("fail"); return; }
        printf("ok %u %u", r.dataSegmentIndex, r.memoryIndex);
    } else {
        puts("err unknown-reader");
        return;
    }
    printf(" rest=%lu\n", (unsigned long) b->length);
}

int main(void) {
    static char line[1 << 17];
    while (fgets(line, sizeof line, stdin)) {
        static char cmd[32], a1[1 << 16], a2[1 << 16];
        int nf = sscanf(line, "%31s %65535s %65535s", cmd, a1, a2);
        if (nf >= 2 && (!strcmp(cmd, "imm") || !strcmp(cmd, "blocktype"))) {
            const char* hex = !strcmp(cmd, "imm") ? a2 : a1;
            size_t hl, n, i;
            U8* data;
            Buffer buffer;
            if (!strcmp(cmd, "imm") && nf != 3) { puts("err bad-line"); continue; }
            hl = strcmp(hex, "-") == 0 ? 0 : strlen(hex);
            n = hl / 2;
            data = malloc(n ? n : 1);
            for (i = 0; i < n; i++) data[i] = (U8) (hexv(hex[2 * i]) * 16 + hexv(hex[2 * i + 1]));
            if (n == 0) { free(data); data = malloc(1); buffer.data = data + 1; } else buffer.data = data;
            buffer.length = n;
            if (!strcmp(cmd, "imm")) {
                imm(a1, &buffer);
            } else {
                WasmValueType t = wasmValueTypeI32;
                WasmValueType* r = &t;
                if (!wasmReadBlockType(&buffer, &r)) puts("fail");
                else printf("ok %s rest=%lu\n", r == NULL ? "none" : vtName(*r), (unsigned long) buffer.length);
            }
            free(data);
        } else if (nf == 3 && !strcmp(cmd, "locals")) {
            WasmLocalsDeclaration decls[256];
            WasmLocalsDeclarations ds;
            WasmValueType t;
            U32 count = 0;
            int bad = 0;
            if (strcmp(a1, "-") != 0) {
                char* tok = strtok(a1, ",");
                while (tok && count < 256) {
                    char ty[16];
                    unsigned long c;
                    if (sscanf(tok, "%lu:%15s", &c, ty) != 2 || !vtOf(ty, &decls[count].type)) { bad = 1; break; }
                    decls[count].count = (U32) c;
                    count++;
                    tok = strtok(NULL, ",");
                }
            }
            if (bad) { puts("err bad-locals"); continue; }
            ds.declarations = decls;
            ds.declarationCount = count;
            if (wasmLocalsDeclarationsGetType(ds, (U32) strtoul(a2, NULL, 10), &t)) puts(vtName(t));
            else puts("none");
        } else {
            puts("err unknown-command");
        }
        fflush(stdout);
    }
    return 0;
}
