/* futex_timeout.c — which absolute deadline does a finite-timeout memory.atomic.wait hand to pthread_cond_timedwait?
 * The REAL futex.c/list.c/map.c + w2c2_base.h (-DWASM_THREADS_PTHREADS) are linked with
 *   -Wl,--wrap=clock_gettime,--wrap=pthread_cond_timedwait
 * so that wasmCondRelativeWait reads a clock value chosen by the test and its deadline is recorded instead of slept on
 * (the wrapped timedwait returns ETIMEDOUT at once: no real time passes whatever the timeout).
 * stdin:  <now_sec> <now_nsec> <timeout_ns> <wait64:0|1>        stdout:  <deadline_sec> <deadline_nsec> <wait result> <timedwait calls>
 */
#include <errno.h>
#include <pthread.h>
#include <stdio.h>
#include <stdlib.h>
#include <time.h>
#include "w2c2_base.h"

void trap(Trap t) { printf("trap %d\n", (int)t); fflush(stdout); _Exit(3); }

static struct timespec fakeNow, seen;
static int calls;

int __wrap_clock_gettime(clockid_t clk, struct timespec *ts) { (void)clk; *ts = fakeNow; return 0; }

int __wrap_pthread_cond_timedwait(pthread_cond_t *c, pthread_mutex_t *m, const struct timespec *abstime) {
    (void)c; (void)m;
    seen = *abstime;
    calls++;
    return ETIMEDOUT;
}

int main(void) {
    static wasmMemory mem;
    long long s, ns, t;
    int w64;
    mem.data = calloc(65536, 1);
    mem.size = 65536; mem.pages = 1; mem.maxPages = 1; mem.shared = true;
    if (!WASM_MUTEX_INIT(&mem.mutex)) return 2;
    while (scanf("%lld %lld %lld %d", &s, &ns, &t, &w64) == 4) {
        U32 r;
        fakeNow.tv_sec = (time_t)s; fakeNow.tv_nsec = (long)ns;
        seen.tv_sec = -1; seen.tv_nsec = -1; calls = 0;
        r = wasmMemoryAtomicWait(&mem, 64, 0, (I64)t, w64 ? true : false);     /* cell 0 == expected 0: blocks */
        printf("%lld %lld %u %d\n", (long long)seen.tv_sec, (long long)seen.tv_nsec, r, calls);
    }
    return 0;
}
