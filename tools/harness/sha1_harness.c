/* sha1_harness — calls the REAL SHA1Init / SHA1Update / SHA1Final of w2c2/sha1.c (static functions: the file is #included from the
 * scratch copy of the source tree given with -I) on messages read from stdin.
 * One request per line:  <hex message | -> <cut,cut,… | ->      cuts = ascending byte positions at which the message is split
 * into separate SHA1Update calls ("-" = one call, exactly what SHA1() does).  Answer: 40 hex digits. */
#include <stdio.h>
#include <stdlib.h>
#include <string.h>
#include "sha1.c"

static int hexval(int c) { return c <= '9' ? c - '0' : (c | 32) - 'a' + 10; }

int main(void) {
    static char line[1 << 20];
    while (fgets(line, sizeof line, stdin)) {
        char *sp = strchr(line, ' ');
        size_t n, k, pos = 0;
        U8 *msg;
        U8 digest[SHA1_DIGEST_LENGTH];
        SHA1_CTX ctx;
        char *cuts;
        if (!sp) { puts("err"); fflush(stdout); continue; }
        *sp = 0;
        cuts = sp + 1;
        n = strcmp(line, "-") == 0 ? 0 : strlen(line) / 2;
        msg = (U8*)malloc(n ? n : 1);          /* exact size: an over-read is an ASan report */
        for (k = 0; k < n; k++) msg[k] = (U8)(hexval(line[2 * k]) * 16 + hexval(line[2 * k + 1]));
        SHA1Init(&ctx);
        if (cuts[0] != '-') {
            char *p = cuts;
            while (*p && *p != '\n') {
                size_t c = (size_t)strtoul(p, &p, 10);
                if (c < pos || c > n) { pos = n + 1; break; }
                SHA1Update(&ctx, msg + pos, c - pos);
                pos = c;
                if (*p == ',') p++;
            }
        }
        if (pos > n) { puts("err"); fflush(stdout); free(msg); continue; }
        SHA1Update(&ctx, msg + pos, n - pos);
        SHA1Final(digest, &ctx);
        for (k = 0; k < SHA1_DIGEST_LENGTH; k++) printf("%02x", digest[k]);
        printf("\n");
        fflush(stdout);
        free(msg);
    }
    return 0;
}
