"""files_obs — observation side of C20: runs the REAL translator under strace in generated,
populated directory trees and snapshots them; plus an in-process harness that calls the real
static functions `cleanImplementationFiles` (main.c), `wasmCWriteImplementationFile` (c.c) and
the dirname/basename the translator was built with.

Nothing here knows what the translator *should* do: expectations come from the Lean model
through `filesdriver` (see tools/checks/c20.py).
"""
import hashlib
import os
import re
import shutil
import subprocess
import sys

HERE = os.path.dirname(os.path.abspath(__file__))
sys.path.insert(0, os.path.join(HERE, ".."))

W2C2_DEFS = ["-DHAS_PTHREAD=1", "-DHAS_UNISTD=1", "-DHAS_GETOPT=1", "-DHAS_STRDUP=1", "-DHAS_GLOB=1"]
STRACE_CALLS = "openat,open,creat,unlink,unlinkat,rename,renameat,renameat2,rmdir,mkdir,mkdirat,chdir,fchdir,truncate,ftruncate,link,linkat,symlink,symlinkat,chmod,fchmodat"
OLD_TIME = 1_000_000_000          # mtime given to every pre-existing file (2001): any write is visible

HARNESS_C = r'''
/* in-process harness for C20: calls the REAL static functions of main.c / c.c */
#include <stdio.h>
#include <string.h>
#include <stdlib.h>
#include <fcntl.h>
#include <glob.h>
#include "c.c"
/* the listing the REAL cleanImplementationFiles works on: its own glob() call (whatever pattern / flags it passes) goes
   through this recorder, so the order of the entries it visits is observed, not re-derived */
static char* obs_order = NULL; static size_t obs_len = 0, obs_cap = 0; static int obs_calls = 0;
static void obs_add(const char* s, size_t n) {
    if (obs_len + n + 1 > obs_cap) { obs_cap = 2 * (obs_len + n + 1); obs_order = realloc(obs_order, obs_cap); if (!obs_order) abort(); }
    memcpy(obs_order + obs_len, s, n); obs_len += n; obs_order[obs_len] = 0;
}
static int obs_glob(const char* pattern, int flags, int (*errfunc)(const char*, int), glob_t* g) {
    int r = glob(pattern, flags, errfunc, g);
    obs_calls++;
    if (r == 0) {
        size_t i;
        for (i = 0; i < g->gl_pathc; i++) {
            const char* q = g->gl_pathv[i]; char hx[3];
            if (i) obs_add(",", 1);
            if (!*q) obs_add("-", 1);
            for (; *q; q++) { sprintf(hx, "%02x", (unsigned char)*q); obs_add(hx, 2); }
        }
    }
    return r;
}
#define glob obs_glob
#define main w2c2_main
#include "main.c"
#undef main
#undef glob

static int unhex(const char* h, char* out, size_t cap) {
    size_t n = 0;
    if (strcmp(h, "-") == 0) { out[0] = 0; return 1; }
    while (h[0] && h[1]) {
        unsigned v;
        if (n + 1 >= cap || sscanf(h, "%2x", &v) != 1) return 0;
        out[n++] = (char)v; h += 2;
    }
    out[n] = 0;
    return 1;
}
static void puthex(const char* s) {
    if (!*s) { fputs("-", stdout); }
    for (; *s; s++) printf("%02x", (unsigned char)*s);
}
int main(void) {
    static char line[70000];
    static char a[33000], b[33000];
    static WasmModule module;
    int home = open(".", O_RDONLY);
    while (fgets(line, sizeof line, stdin)) {
        char* w[4]; int n = 0; char* p = strtok(line, " \n");
        while (p && n < 4) { w[n++] = p; p = strtok(NULL, " \n"); }
        if (n == 2 && !strcmp(w[0], "clean") && unhex(w[1], a, sizeof a)) {
            if (chdir(a) != 0) { puts("err chdir"); fflush(stdout); continue; }
            cleanImplementationFiles();
            if (fchdir(home) != 0) return 3;
            puts("ok");
        } else if (n == 2 && !strcmp(w[0], "cleanobs") && unhex(w[1], a, sizeof a)) {
            /* like `clean`, and reports the listing (glob order) the function iterated over: `ok <calls> <hex,hex,…|->` */
            if (chdir(a) != 0) { puts("err chdir"); fflush(stdout); continue; }
            obs_len = 0; obs_calls = 0; if (obs_order) obs_order[0] = 0;
            cleanImplementationFiles();
            if (fchdir(home) != 0) return 3;
            printf("ok %d %s\n", obs_calls, obs_len ? obs_order : "-");
        } else if (n == 4 && !strcmp(w[0], "impl") && unhex(w[1], a, sizeof a)) {
            WasmFunctionIDs ids = emptyWasmFunctionIDs;
            bool r;
            if (chdir(a) != 0) { puts("err chdir"); fflush(stdout); continue; }
            r = wasmCWriteImplementationFile(&module, "m", "m.h", NULL, (char)atoi(w[2]),
                                             (U32)strtoul(w[3], NULL, 10), 1, 0, ids, false, false, false);
            if (fchdir(home) != 0) return 3;
            puts(r ? "ok" : "fail");
        } else if (n == 2 && !strcmp(w[0], "dirname") && unhex(w[1], a, sizeof a)) {
            strcpy(b, dirname(a)); puthex(b); putchar('\n');
        } else if (n == 2 && !strcmp(w[0], "basename") && unhex(w[1], a, sizeof a)) {
            strcpy(b, basename(a)); puthex(b); putchar('\n');
        } else {
            puts("err unknown-command");
        }
        fflush(stdout);
    }
    return 0;
}
'''


def hx(b):
    return b.hex() if b else "-"


def unhx(s):
    return b"" if s == "-" else bytes.fromhex(s)


# ----------------------------------------------------------------------------- builds

def _sources(repo_copy, skip=()):
    d = os.path.join(repo_copy, "w2c2")
    return [os.path.join(d, f) for f in sorted(os.listdir(d))
            if f.endswith(".c") and not f.endswith("_test.c") and f != "test.c" and f not in skip]


def build_all(repo_copy, workdir, cc="gcc"):
    """Builds (in parallel) w2c2 with and without libgen and the in-process harness with and
    without libgen.  Returns dict name -> exe path."""
    src = os.path.join(workdir, "files_harness.c")
    with open(src, "w") as f:
        f.write(HARNESS_C)
    jobs = {}
    for lg in (1, 0):
        defs = W2C2_DEFS + [f"-DHAS_LIBGEN={lg}"]
        exe = os.path.join(workdir, f"w2c2_lg{lg}")
        jobs[f"w2c2_lg{lg}"] = (exe, [cc, "-O0", "-w"] + defs + _sources(repo_copy) + ["-o", exe, "-lpthread", "-lm"])
        exe = os.path.join(workdir, f"fh_lg{lg}")
        jobs[f"fh_lg{lg}"] = (exe, [cc, "-O0", "-w", "-I" + os.path.join(repo_copy, "w2c2")] + defs + [src]
                              + _sources(repo_copy, skip=("main.c", "c.c")) + ["-o", exe, "-lpthread", "-lm"])
    procs = {k: subprocess.Popen(cmd, stdout=subprocess.PIPE, stderr=subprocess.PIPE, text=True) for k, (_, cmd) in jobs.items()}
    out = {}
    for k, p in procs.items():
        _, err = p.communicate()
        if p.returncode != 0:
            raise RuntimeError(f"build of {k} failed:\n" + err[-3000:])
        out[k] = jobs[k][0]
    return out


def harness_lines(exe, lines, cwd):
    p = subprocess.run([exe], input=("\n".join(lines) + "\n").encode(), stdout=subprocess.PIPE, stderr=subprocess.PIPE,
                       cwd=cwd, timeout=600)
    out = p.stdout.decode("ascii", "replace").splitlines()
    if p.returncode != 0 or len(out) != len(lines):
        raise RuntimeError(f"files harness answered {len(out)} lines for {len(lines)} (rc {p.returncode}): {p.stderr[-500:]!r}")
    return out


# ----------------------------------------------------------------------------- module facts

def _leb(b, i):
    r = 0
    s = 0
    while True:
        x = b[i]
        i += 1
        r |= (x & 0x7f) << s
        s += 7
        if not x & 0x80:
            return r, i


def function_hashes(wasm):
    """SHA-1 of every code entry (locals + body), as reader.c computes it."""
    i = 8
    res = []
    while i < len(wasm):
        sid = wasm[i]
        size, j = _leb(wasm, i + 1)
        if sid == 10:
            n, k = _leb(wasm, j)
            for _ in range(n):
                sz, k = _leb(wasm, k)
                res.append(hashlib.sha1(wasm[k:k + sz]).digest())
                k += sz
        i = j + size
    return res


def split_counts(mod_hashes, ref_hashes):
    """(static, dynamic) lengths after wasmSplitStaticAndDynamicFunctions (sorted merge = multiset min)."""
    if ref_hashes is None:
        return len(mod_hashes), 0
    from collections import Counter
    a, b = Counter(mod_hashes), Counter(ref_hashes)
    st = sum(min(a[h], b[h]) for h in a)
    return st, len(mod_hashes) - st


# ----------------------------------------------------------------------------- directory trees

def put(path, kind, rng=None, targets=None):
    """Create one entry.  kinds: f de dn lf ld lx.  Returns the link target (bytes) for links."""
    if kind == "f":
        with open(path, "wb") as f:
            f.write(b"pre-existing " + os.path.basename(path) + b"\n")
        os.utime(path, ns=(OLD_TIME * 10**9, OLD_TIME * 10**9))
    elif kind == "de":
        os.mkdir(path)
    elif kind == "dn":
        os.mkdir(path)
        put(os.path.join(path, b"inner.c"), "f")
    elif kind in ("lf", "ld", "lx"):
        tdir, n = targets
        t = os.path.join(tdir, b"t%d" % n)
        if kind == "lf":
            put(t, "f")
        elif kind == "ld":
            os.mkdir(t)
        os.symlink(t, path)
        return t
    else:
        raise ValueError(kind)
    return None


def snapshot(root):
    """{relative path (bytes): ('f', size, sha256, mtime_ns) | ('d',) | ('l', target)} without following links."""
    res = {}

    def walk(d, rel):
        with os.scandir(d) as it:
            for e in it:
                r = rel + b"/" + e.name if rel else e.name
                if e.is_symlink():
                    res[r] = ("l", os.readlink(e.path))
                elif e.is_dir(follow_symlinks=False):
                    res[r] = ("d",)
                    walk(e.path, r)
                else:
                    st = e.stat(follow_symlinks=False)
                    with open(e.path, "rb") as f:
                        h = hashlib.sha256(f.read()).hexdigest()
                    res[r] = ("f", st.st_size, h, st.st_mtime_ns)
    walk(root, b"")
    return res


def diff(before, after):
    created = {p for p in after if p not in before}
    deleted = {p for p in before if p not in after}
    modified = {p for p in after if p in before and after[p] != before[p]}
    return created, deleted, modified


# ----------------------------------------------------------------------------- strace

_STR = re.compile(r'"((?:\\x[0-9a-f]{2})*)"(\.\.\.)?')


def _unx(s):
    return bytes(int(s[i + 2:i + 4], 16) for i in range(0, len(s), 4))


def parse_strace(text):
    """[(pid, syscall, [string args], flags text, ret int, errno|None)] in completion order."""
    pending = {}
    out = []
    for line in text.splitlines():
        m = re.match(r"^(\d+)\s+(.*)$", line)
        if not m:
            continue
        pid, rest = m.group(1), m.group(2)
        if rest.startswith("+++") or rest.startswith("---"):
            continue
        if rest.endswith("<unfinished ...>"):
            pending[pid] = rest[:-len("<unfinished ...>")]
            continue
        m2 = re.match(r"^<\.\.\. (\w+) resumed>(.*)$", rest)
        if m2:
            rest = pending.pop(pid, m2.group(1) + "(") + m2.group(2)
        if re.match(r"^\?\?\?\(\)\s+=\s+\?", rest):
            continue        # strace's placeholder for a task that exited before its syscall could be decoded (no syscall was made)
        m3 = re.match(r"^(\w+)\((.*)\)\s+=\s+(-?\d+|\?)(?:\s+(E\w+))?", rest)
        if not m3:
            raise RuntimeError("cannot parse strace line: " + line[:200])
        name, args, ret, err = m3.groups()
        strs = []
        for s in _STR.finditer(args):
            if s.group(2):
                raise RuntimeError("strace truncated a string: " + line[:200])
            strs.append(_unx(s.group(1)))
        out.append((pid, name, strs, args, -1 if ret == "?" else int(ret), err))
    return out


WRITE_FLAGS = ("O_WRONLY", "O_RDWR", "O_CREAT", "O_TRUNC", "O_APPEND", "O_TMPFILE")


def classify(calls):
    """strace records → [(kind, path, ok, raw)] with kind in
       read | write | unlink | rmdir | chdir | other-mutation."""
    res = []
    for pid, name, strs, args, ret, err in calls:
        ok = ret >= 0
        if name in ("openat", "open", "creat"):
            if name == "openat" and not args.startswith("AT_FDCWD"):
                res.append(("other-mutation", strs[0] if strs else b"", ok, f"{name}({args})"))
                continue
            wr = name == "creat" or any(f in args for f in WRITE_FLAGS)
            res.append(("write" if wr else "read", strs[0], ok, f"{name}({args})"))
        elif name == "unlink":
            res.append(("unlink", strs[0], ok, f"{name}({args}) = {ret} {err or ''}"))
        elif name == "rmdir":
            res.append(("rmdir", strs[0], ok, f"{name}({args})"))
        elif name == "chdir":
            res.append(("chdir", strs[0], ok, f"{name}({args})"))
        else:
            res.append(("other-mutation", strs[0] if strs else b"", ok, f"{name}({args})"))
    return res


def run_traced(exe, argv, cwd, trace_file, timeout=120):
    """Run exe argv (bytes args) in cwd under strace.  Returns (rc, stderr, classified calls)."""
    cmd = [b"strace", b"-f", b"-xx", b"-s", b"70000", b"-e", b"trace=" + STRACE_CALLS.encode(), b"-o",
           trace_file.encode() if isinstance(trace_file, str) else trace_file, exe.encode() if isinstance(exe, str) else exe] + list(argv)
    p = subprocess.run(cmd, cwd=cwd, stdout=subprocess.PIPE, stderr=subprocess.PIPE, timeout=timeout)
    with open(trace_file, "r", errors="replace") as f:
        calls = parse_strace(f.read())
    return p.returncode, p.stderr.decode("utf-8", "replace"), classify(calls)


def rmtree(path):
    shutil.rmtree(path, ignore_errors=True)
