"""Build and run tools/harness/leb_harness.c against a scratch copy of /repo."""
import os
import re
import subprocess

HERE = os.path.dirname(os.path.abspath(__file__))


def build(repo, outdir):
    """Returns (plain exe, ASan exe [one process, aborts on the first error], UBSan exe [one forked child per line])."""
    src = os.path.join(HERE, "leb_harness.c")
    inc = ["-I" + os.path.join(repo, "w2c2")]
    plain = os.path.join(outdir, "leb_harness")
    asan = os.path.join(outdir, "leb_harness_asan")
    ubsan = os.path.join(outdir, "leb_harness_ubsan")
    for exe, flags in ((plain, ["-O1"]),
                       (asan, ["-O1", "-g", "-fsanitize=address", "-fno-omit-frame-pointer"]),
                       (ubsan, ["-O1", "-g", "-DMARK_LINES", "-fsanitize=undefined", "-fsanitize-recover=undefined"])):
        p = subprocess.run(["gcc", "-w"] + flags + inc + ["-o", exe, src], stdout=subprocess.PIPE, stderr=subprocess.STDOUT, text=True)
        if p.returncode != 0:
            raise RuntimeError("leb_harness build failed: " + p.stdout[-1500:])
    return plain, asan, ubsan


def run_asan(exe, lines):
    """Returns (answers, fatal) — fatal = (index of the offending line, first ASan line) or None."""
    env = dict(os.environ)
    env["ASAN_OPTIONS"] = "detect_leaks=0"
    p = subprocess.run([exe], input="\n".join(lines) + "\n", stdout=subprocess.PIPE, stderr=subprocess.PIPE, text=True, timeout=1800, env=env)
    out = p.stdout.splitlines()
    if p.returncode == 0 and len(out) == len(lines):
        return out, None
    msg = [ln for ln in p.stderr.splitlines() if "ERROR: AddressSanitizer" in ln or "SUMMARY" in ln]
    return out, (len(out), (msg[0] if msg else f"exit status {p.returncode}")[:300])


def run_plain(exe, lines):
    p = subprocess.run([exe], input="\n".join(lines) + "\n", stdout=subprocess.PIPE, stderr=subprocess.PIPE, text=True, timeout=900)
    out = p.stdout.splitlines()
    if p.returncode != 0 or len(out) != len(lines):
        raise RuntimeError(f"leb_harness: rc={p.returncode}, {len(out)} answers for {len(lines)} lines; {p.stderr[-500:]}")
    return out


def run_ubsan(exe, lines):
    """Returns (answers, {line index (0-based): [ubsan message, …]}, fatal or None)."""
    env = dict(os.environ)
    env["ASAN_OPTIONS"] = "detect_leaks=0:abort_on_error=0"
    env["UBSAN_OPTIONS"] = "print_stacktrace=0"
    p = subprocess.run([exe], input="\n".join(lines) + "\n", stdout=subprocess.PIPE, stderr=subprocess.PIPE, text=True, timeout=1800, env=env)
    reports = {}
    cur = None
    fatal = None
    for ln in p.stderr.splitlines():
        m = re.match(r"LINE (\d+)$", ln)
        if m:
            cur = int(m.group(1)) - 1
            continue
        if "runtime error:" in ln:
            reports.setdefault(cur, []).append(re.sub(r"^.*?/w2c2/", "", ln.strip()))
        elif "ERROR: AddressSanitizer" in ln:
            fatal = (cur, ln.strip())
    return p.stdout.splitlines(), reports, fatal
