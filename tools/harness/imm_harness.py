"""Build and run tools/harness/imm_harness.c (the real instruction.c / instruction.h / valuetype.h / locals.h of a scratch
copy of /repo) and generate its cases."""
import os
import subprocess

HERE = os.path.dirname(os.path.abspath(__file__))

READERS = {   # reader -> list of field kinds (u = u32, s32, s64, f32, f64, vec = count + that many u32)
    "wasmLocalInstructionRead": ["u"], "wasmGlobalInstructionRead": ["u"],
    "wasmConstInstructionRead/wasmOpcodeI32Const": ["s32"], "wasmConstInstructionRead/wasmOpcodeI64Const": ["s64"],
    "wasmConstInstructionRead/wasmOpcodeF32Const": ["f32"], "wasmConstInstructionRead/wasmOpcodeF64Const": ["f64"],
    "wasmMemoryArgumentInstructionRead": ["u", "u"], "wasmCallInstructionRead": ["u"],
    "wasmCallIndirectInstructionRead": ["u", "u"], "wasmBranchInstructionRead": ["u"],
    "wasmBranchTableInstructionRead": ["vec", "u"], "wasmMemoryInstructionRead": ["u"],
    "wasmMemoryCopyInstructionRead": ["u", "u"], "wasmMemoryInitInstructionRead": ["u", "u"],
}


def build(repo, outdir, sanitize=True):
    src = os.path.join(HERE, "imm_harness.c")
    inc = ["-I" + os.path.join(repo, "w2c2")]
    exe = os.path.join(outdir, "imm_harness")
    flags = ["-O1", "-g", "-fsanitize=address,undefined", "-fno-sanitize-recover=all", "-fno-omit-frame-pointer"] if sanitize else ["-O1"]
    p = subprocess.run(["gcc", "-w"] + flags + inc + ["-o", exe, src, os.path.join(repo, "w2c2", "instruction.c")],
                       stdout=subprocess.PIPE, stderr=subprocess.STDOUT, text=True)
    if p.returncode != 0:
        raise RuntimeError("imm_harness build failed: " + p.stdout[-1500:])
    return exe


def run(exe, lines):
    env = dict(os.environ)
    env["ASAN_OPTIONS"] = "detect_leaks=0"
    p = subprocess.run([exe], input="\n".join(lines) + "\n", stdout=subprocess.PIPE, stderr=subprocess.PIPE, text=True,
                       timeout=900, env=env)
    out = p.stdout.splitlines()
    if p.returncode != 0 or len(out) != len(lines):
        k = len(out)
        raise RuntimeError(f"imm_harness: rc={p.returncode}, {len(out)} answers for {len(lines)} lines; failing line "
                           f"`{lines[k] if k < len(lines) else '?'}`; {p.stderr[-600:]}")
    return out


def cases(rng, tier):
    """[(kind, line)]: immediates of every reader in minimal / maximal / random padding with random tails, every
    truncation of them, random bytes; block types; locals vectors with zero-count groups everywhere x indices."""
    from wasmgen import leb_u, leb_s
    out = []
    n = 40 if tier == "quick" else 600

    def field(kind, pad):
        if kind == "u":
            v = rng.choice((0, 1, 2, 63, 64, 127, 128, 255, 16383, 16384, (1 << 32) - 1, 1 << 31, rng.getrandbits(32), rng.getrandbits(rng.randint(1, 32))))
            m = len(leb_u(v))
            return leb_u(v, {"min": m, "max": 5, "two": max(m, 2)}.get(pad) or rng.randint(m, 5))
        if kind in ("s32", "s64"):
            bits = 32 if kind == "s32" else 64
            v = rng.choice((0, -1, 63, 64, -64, -65, (1 << (bits - 1)) - 1, -(1 << (bits - 1)),
                            rng.getrandbits(bits) - (1 << (bits - 1)), rng.getrandbits(rng.randint(1, bits - 1)) * rng.choice((1, -1))))
            m = len(leb_s(v, bits))
            mx = 5 if bits == 32 else 10
            return leb_s(v, bits, {"min": m, "max": mx, "two": max(m, 2)}.get(pad) or rng.randint(m, mx))
        if kind == "f32":
            return bytes(rng.getrandbits(8) for _ in range(4))
        if kind == "f64":
            return bytes(rng.getrandbits(8) for _ in range(8))
        if kind == "vec":
            k = rng.choice((0, 1, 2, 3, 7, 40))
            m = len(leb_u(k))
            cnt = leb_u(k, {"min": m, "max": 5, "two": 2}.get(pad) or rng.randint(m, 5))
            return cnt + b"".join(field("u", pad) for _ in range(k))
        raise AssertionError(kind)
    for name, kinds in READERS.items():
        for pad in ("min", "max", "two") + ("rnd",) * n:
            enc = b"".join(field(k, pad) for k in kinds)
            tail = bytes(rng.getrandbits(8) for _ in range(rng.choice((0, 0, 1, 3))))
            out.append(("imm-valid", f"imm {name} {(enc + tail).hex() or '-'}"))
            if pad != "rnd" or rng.random() < 0.3:
                for cut in range(len(enc)):
                    out.append(("imm-truncated", f"imm {name} {enc[:cut].hex() or '-'}"))
        for _ in range(n):
            bs = bytes(rng.choice((0x80, 0xFF, 0x00, 0x7F, rng.getrandbits(8))) for _ in range(rng.randint(0, 12)))
            if name == "wasmBranchTableInstructionRead" and bs and (bs[0] & 0x80):
                bs = bytes([bs[0] & 0x3F]) + bs[1:]       # keep the count (and the calloc) small
            out.append(("imm-random", f"imm {name} {bs.hex() or '-'}"))
    for b in range(256):
        out.append(("blocktype", "blocktype %02x" % b))
        out.append(("blocktype", "blocktype %02x7f" % (b | 0x80)))
        out.append(("blocktype", "blocktype %02x00ff" % (b | 0x80)))
    out.append(("blocktype", "blocktype -"))
    types = ("i32", "i64", "f32", "f64")
    for _ in range(60 if tier == "quick" else 1500):
        k = rng.randint(0, 6)
        groups = [(rng.choice((0, 0, 1, 1, 2, 3, 5)), rng.choice(types)) for _ in range(k)]
        if groups and rng.random() < 0.4:
            groups[0] = (0, groups[0][1])
        if rng.random() < 0.05:
            groups.append(((1 << 32) - 1 - sum(c for c, _ in groups), rng.choice(types)))     # up to the limit
        spec = ",".join("%d:%s" % g for g in groups) or "-"
        total = sum(c for c, _ in groups)
        for idx in sorted(x for x in set(list(range(0, min(total, 12) + 2)) + [total - 1 if total else 0, total, total + 1, (1 << 32) - 1]) if x < (1 << 32)):
            out.append(("locals", f"locals {spec} {idx}"))
    for spec in ("0:i64,1:i32", "0:i64,0:f32,1:i32,0:f64,2:f64,0:i32", "1:i32,0:i64", "0:i32", "0:i64,0:i64"):
        for idx in range(5):
            out.append(("locals", f"locals {spec} {idx}"))
    return out
