"""futex_history — is one observed execution of wait/notify/store operations explained by the specification?

The harness (futex_sched.c) reports for every operation its invocation and response time in scheduler steps
(`ev=`), its return value (`res=`) and the executed schedule (`sched=`, which shows when a timeout fired).
`explain(...)` searches for a LINEARISATION in the sense of the threads proposal (Spec/Futex.lean):

  store            one atomic point inside [inv, resp];
  notify(a,n) = r  one atomic point: r = min(n, |queue(a)|) waiters leave the queue of a (any r of them) and
                   will return 0;
  wait = 1         one atomic point at which the cell differs from the expected value;
  wait = 0         an atomic point at which the cell equals the expected value (the agent joins queue(a));
                   some later notify point removes it, before its response;
  wait = 2         such a point, and later — not before its timeout fired (`<tid>t` token) — a point at which
                   it leaves the queue by itself, not having been removed by any notify;
  wait blocked forever (verdict deadlock)   such a point, and it is never removed.

A point P must precede a point Q whenever P's window ends before Q's begins (real-time order).  If no order of
the points satisfies all of this, the execution is a violation of the property: e.g. a notify that returned 0
although a waiter had already passed its check and then blocks = lost wake-up.
"""
from itertools import combinations

INF = 1 << 60


def parse_threads(threads):
    out = []
    for t in threads.split("|"):
        ops = []
        for o in t.split(","):
            p = o.split(":")
            if p[0] in ("w32", "w64"):
                ops.append({"k": "wait", "w64": p[0] == "w64", "a": int(p[1]), "e": int(p[2]), "to": int(p[3])})
            elif p[0] == "n":
                ops.append({"k": "notify", "a": int(p[1]), "n": int(p[2])})
            elif p[0] == "s":
                ops.append({"k": "store", "a": int(p[1]), "w": int(p[2]), "v": int(p[3])})
        out.append(ops)
    return out


def _store(mem, a, w, v):
    m = dict(mem)
    for i in range(w):
        m[a + i] = (v >> (8 * i)) & 255
    return m


def _load(mem, a, w):
    return sum(mem.get(a + i, 0) << (8 * i) for i in range(w))


def build_history(init, threads, r):
    """-> (mem0, per-thread op lists with inv/resp/ret/tmo) or None if the reply cannot be judged."""
    if "ev" not in r or "res" not in r or r.get("res") == "?":
        return None
    mem = {}
    if init not in ("-", ""):
        for it in init.split(","):
            a, w, v = (int(x) for x in it.split(":"))
            mem = _store(mem, a, w, v)
    ops = parse_threads(threads)
    evs = [[e for e in t.split(".") if e] for t in r["ev"].split("|")]
    res = [[int(x) for x in t.split(".") if x != ""] for t in r["res"].split("|")]
    toks = [t for t in r.get("sched", "").split(",") if t and t != "-"]
    hist = []
    for ti, tops in enumerate(ops):
        th = []
        ev = evs[ti] if ti < len(evs) else []
        rs = res[ti] if ti < len(res) else []
        for oi, e in enumerate(ev):
            if oi >= len(tops):
                return None
            inv, rp = e.split("-")
            o = dict(tops[oi])
            o["inv"] = int(inv)
            o["resp"] = INF if rp == "x" else int(rp)
            o["ret"] = rs[oi] if rp != "x" and oi < len(rs) else None
            o["tid"] = ti + 1
            if o["k"] == "wait":
                tm = [i + 1 for i, tk in enumerate(toks) if tk == f"{ti + 1}t" and o["inv"] <= i + 1 <= o["resp"]]
                o["tmo"] = tm[-1] if tm else None
            th.append(o)
        hist.append(th)
    return mem, hist


def explain(init, threads, r, max_states=200000):
    """True: a linearisation exists.  False: none exists (violation).  None: not judged (crash, odd verdict,
    search budget exhausted)."""
    if r.get("verdict") not in ("ok", "deadlock"):
        return None
    h = build_history(init, threads, r)
    if h is None:
        return None
    mem0, hist = h
    for th in hist:
        for o in th:
            if o["ret"] is None and o["k"] != "wait":
                return None              # blocked in something that is not a wait: judged by another oracle
            if o["k"] == "wait" and o["ret"] is not None and o["ret"] not in (0, 1, 2):
                return False
    nth = len(hist)
    seen = set()
    budget = [max_states]

    def cur(state, ti):
        idx, ph = state[ti]
        return hist[ti][idx] if idx < len(hist[ti]) else None

    def hi_of(o):
        return o["resp"]

    def lo_of(o, ph):
        if o["k"] == "wait" and ph == 1:
            return max(o["inv"], o["tmo"] or o["inv"])
        return o["inv"]

    def allowed(state, ti, lo):
        for u in range(nth):
            if u == ti:
                continue
            o = cur(state, u)
            if o is not None and hi_of(o) < lo:
                return False
        return True

    def adv(state, ti, ph=None):
        s = list(state)
        idx, p = s[ti]
        s[ti] = (idx, ph) if ph is not None else (idx + 1, 0)
        return tuple(s)

    def rec(state, mem, queue):
        # queue: frozenset of (addr, thread index) of enqueued waits
        key = (state, tuple(sorted(mem.items())), queue)
        if key in seen:
            return False
        seen.add(key)
        budget[0] -= 1
        if budget[0] < 0:
            raise OverflowError
        done = True
        for ti in range(nth):
            o = cur(state, ti)
            if o is None:
                continue
            ph = state[ti][1]
            if o["k"] == "wait" and ph == 1 and o["ret"] is None:
                continue                 # blocked forever: stays enqueued
            done = False
        if done:
            return True
        for ti in range(nth):
            o = cur(state, ti)
            if o is None:
                continue
            ph = state[ti][1]
            if o["k"] == "store":
                if allowed(state, ti, o["inv"]) and rec(adv(state, ti), _store(mem, o["a"], o["w"], o["v"]), queue):
                    return True
            elif o["k"] == "notify":
                if not allowed(state, ti, o["inv"]):
                    continue
                q = sorted(u for (a, u) in queue if a == o["a"])
                rr = o["ret"]
                if rr != min(o["n"], len(q)):
                    continue
                cand = [u for u in q if cur(state, u)["ret"] == 0 and cur(state, u)["resp"] >= o["inv"]]
                if len(q) <= o["n"] and len(cand) != len(q):
                    continue
                for sub in combinations(cand, rr):
                    s2 = state
                    for u in sub:
                        s2 = adv(s2, u)
                    if rec(adv(s2, ti), mem, queue - frozenset((o["a"], u) for u in sub)):
                        return True
            elif o["k"] == "wait":
                if ph == 0:
                    if not allowed(state, ti, o["inv"]):
                        continue
                    w = 8 if o["w64"] else 4
                    eq = _load(mem, o["a"], w) == (o["e"] % (1 << (8 * w)))
                    if o["ret"] == 1:
                        if not eq and rec(adv(state, ti), mem, queue):
                            return True
                    elif eq:
                        if rec(adv(state, ti, 1), mem, queue | frozenset([(o["a"], ti)])):
                            return True
                elif o["ret"] == 2:
                    if o["to"] < 0:
                        continue
                    if allowed(state, ti, lo_of(o, 1)) and rec(adv(state, ti), mem, queue - frozenset([(o["a"], ti)])):
                        return True
                # ret 0 in phase 1: waits for a notify point; blocked: stays
        return False

    try:
        return rec(tuple((0, 0) for _ in range(nth)), mem0, frozenset())
    except (OverflowError, RecursionError):
        return None


def describe(init, threads, r):
    """Short human-readable history for a violation message."""
    h = build_history(init, threads, r)
    if not h:
        return ""
    parts = []
    for th in h[1]:
        for o in th:
            nm = {"wait": f"wait{'64' if o.get('w64') else '32'}({o['a']}, expect {o.get('e')}, timeout {o.get('to')})",
                  "notify": f"notify({o['a']}, {o.get('n')})", "store": f"store{o.get('w')}({o['a']}) := {o.get('v')}"}[o["k"]]
            rr = "blocked forever" if o["ret"] is None else f"returned {o['ret']}"
            ext = f", timeout fired @{o['tmo']}" if o.get("tmo") else ""
            parts.append(f"T{o['tid']} {nm} [{o['inv']}..{'' if o['resp'] == INF else o['resp']}] {rr}{ext}")
    return "; ".join(parts)
