"""runtime-ops — run the REAL macros / inline functions of /repo/w2c2/w2c2_base.h (compiled by
gcc from a scratch copy of the working tree) on the same operand lines the Lean driver gets.

Line protocol (same for both sides):   m <cfg> <NAME>[>rty] <ty:hex>…
   ->  val <ty> <hex> | trap <code> | ub <kind>
cfg: le = header as compiled on this host; fb = portable fallback bodies (extracted text,
compiled under other names because `__has_builtin` cannot be undefined on gcc 12);
be = header compiled with -DWASM_ENDIAN=WASM_BIG_ENDIAN; beplain = mask/shift byte swaps.
"""
import os
import sys

sys.path.insert(0, os.path.join(os.path.dirname(os.path.abspath(__file__)), "..", "extract"))
import gen_macros  # noqa: E402
from cfront import toks_text  # noqa: E402

CTYPE = {"u8": "U8", "i8": "I8", "u16": "U16", "i16": "I16", "u32": "U32", "i32": "I32",
         "u64": "U64", "i64": "I64", "f32": "F32", "f64": "F64"}
WIDTH = {"u8": 8, "i8": 8, "u16": 16, "i16": 16, "u32": 32, "i32": 32, "u64": 64, "i64": 64, "f32": 32, "f64": 64}


def int_ops():
    ops = []
    for w, t in ((32, "u32"), (64, "u64")):
        p = "I%d" % w
        ops += [(f"{p}_DIV_S", "le", [t, t], t, ("div_s", w)), (f"{p}_REM_S", "le", [t, t], t, ("rem_s", w)),
                ("DIV_U", "le", [t, t], t, ("div_u", w)), ("REM_U", "le", [t, t], t, ("rem_u", w)),
                (f"{p}_ROTL", "le", [t, t], t, ("rotl", w)), (f"{p}_ROTR", "le", [t, t], t, ("rotr", w)),
                (f"{p}_CLZ", "le", [t], t, ("clz", w)), (f"{p}_CTZ", "le", [t], t, ("ctz", w)),
                (f"{p}_POPCNT", "le", [t], t, ("popcnt", w)),
                (f"{p}_CLZ", "fb", [t], t, ("clz", w)), (f"{p}_CTZ", "fb", [t], t, ("ctz", w)),
                (f"{p}_POPCNT", "fb", [t], t, ("popcnt", w))]
    return ops


def float_ops():
    ops = []
    for f in ("f32", "f64"):
        ops += [("FMIN", "le", [f, f], f, None), ("FMAX", "le", [f, f], f, None)]
    for k in ("S", "U", "SAT_S", "SAT_U"):
        for i, it in (("I32", "u32"), ("I64", "u64")):
            for f in ("F32", "F64"):
                ops.append((f"{i}_TRUNC_{k}_{f}", "le", [f.lower()], it, None))
    return ops


def swap_ops():
    ops = []
    for w in (16, 32, 64):
        t = "u%d" % w
        ops += [(f"swapU{w}", "be", [t], t, None), (f"swapU{w}", "beplain", [t], t, None)]
    return ops


def gen_harness_c(repo, ops, big_endian=False):
    """C source of the harness for the given ops (all with the same endianness build)."""
    hdr = os.path.join(repo, "w2c2", "w2c2_base.h")
    cfgs = gen_macros.configs()
    out = []
    out.append('#include <stdio.h>\n#include <string.h>\n#include <setjmp.h>\n#include <stdlib.h>\n')
    out.append('#include "w2c2_base.h"\n')
    out.append("static jmp_buf jb; static Trap trapCode;\n")
    out.append("void trap(Trap t) { trapCode = t; longjmp(jb, 1); }\n")
    out.append("typedef union { U8 u8; I8 i8; U16 u16; I16 i16; U32 u32; I32 i32; U64 u64; I64 i64; F32 f32; F64 f64; } V;\n")
    need_fb = any(o[1] == "fb" for o in ops)
    need_plain = any(o[1] == "beplain" for o in ops)
    if need_fb:
        fb = gen_macros.HeaderView(hdr, cfgs["fallback"])
        fs = fb.funcs()
        names = [n for n in gen_macros.UN_BITS]
        for n in names:
            if n not in fs:
                raise RuntimeError(f"fallback function {n} not found")
        for n in names:
            f = fs[n]
            body = toks_text(f.body_toks)
            for m in names:
                import re
                body = re.sub(r"\b%s\b" % m, "FB_" + m, body)
            ret = "U32" if n.startswith("I32") else "U64"
            params = toks_text(f.params)
            out.append(f"static {ret} FB_{n}({params}) {{ {body} }}\n")
    if need_plain:
        bep = gen_macros.HeaderView(hdr, cfgs["be_plain"])
        for n in gen_macros.SWAPS:
            toks = bep.expand_call(n, ["x"])
            out.append(f"#define PLAIN_{n}(x) ({toks_text(toks)})\n")
    out.append(r'''
static int parseVal(const char* s, const char** ty, V* v) {
  static char tybuf[8]; const char* c = strchr(s, ':'); if (!c || c - s > 6) return 0;
  memcpy(tybuf, s, c - s); tybuf[c - s] = 0; *ty = tybuf;
  unsigned long long bits = strtoull(c + 1, NULL, 16);
  memset(v, 0, sizeof *v);
  if (!strcmp(tybuf, "u8") || !strcmp(tybuf, "i8")) v->u8 = (U8)bits;
  else if (!strcmp(tybuf, "u16") || !strcmp(tybuf, "i16")) v->u16 = (U16)bits;
  else if (!strcmp(tybuf, "u32") || !strcmp(tybuf, "i32") || !strcmp(tybuf, "f32")) v->u32 = (U32)bits;
  else v->u64 = bits;
  return 1;
}
int main(void) {
  static char line[1024];
  setvbuf(stdout, NULL, _IOLBF, 0);   /* every answer reaches the pipe before the next request runs: a crash loses nothing */
  while (fgets(line, sizeof line, stdin)) {
    char* w[8]; int n = 0; char* p = strtok(line, " \n");
    while (p && n < 8) { w[n++] = p; p = strtok(NULL, " \n"); }
    if (n < 3 || strcmp(w[0], "m")) { puts("err unknown-command"); continue; }
    const char* cfg = w[1]; char* name = w[2]; char* gt = strchr(name, '>'); if (gt) *gt = 0;
    V a[4]; char tys[4][8]; int na = n - 3; int ok = 1;
    for (int i = 0; i < na && i < 4; i++) { const char* t; if (!parseVal(w[3 + i], &t, &a[i])) ok = 0; else strcpy(tys[i], t); }
    if (!ok) { puts("err parse"); continue; }
    if (setjmp(jb)) { printf("trap %d\n", (int)trapCode); continue; }
''')
    for name, cfg, args, rty, _ in ops:
        cond = f'!strcmp(cfg, "{cfg}") && !strcmp(name, "{name}") && na == {len(args)}'
        for i, t in enumerate(args):
            cond += f' && !strcmp(tys[{i}], "{t}")'
        if cfg == "fb":
            call = f"FB_{name}"
        elif cfg == "beplain":
            call = f"PLAIN_{name}"
        else:
            call = name
        # operands are volatile locals so that gcc cannot fold the macro at compile time
        decl = "".join(f"volatile {CTYPE[t]} x{i} = a[{i}].{t}; " for i, t in enumerate(args))
        argl = ", ".join(f"x{i}" for i in range(len(args)))
        fmt = {"u32": '"val u32 %x\\n", r.u32', "u64": '"val u64 %llx\\n", r.u64',
               "f32": '"val f32 %x\\n", r.u32', "f64": '"val f64 %llx\\n", r.u64',
               "u16": '"val u16 %x\\n", (unsigned)r.u16', "u8": '"val u8 %x\\n", (unsigned)r.u8'}[rty]
        out.append(f"    if ({cond}) {{ {decl} V r; memset(&r, 0, sizeof r); r.{rty} = ({CTYPE[rty]}){call}({argl}); printf({fmt}); continue; }}\n")
    out.append('    puts("err unknown-op");\n  }\n  return 0;\n}\n')
    return "".join(out)


def build(repo_copy, workdir, ops, big_endian=False, cc="gcc", extra=()):
    src = os.path.join(workdir, "ro_be.c" if big_endian else "ro.c")
    exe = os.path.join(workdir, "ro_be" if big_endian else "ro")
    open(src, "w").write(gen_harness_c(repo_copy, ops, big_endian))
    import subprocess
    cmd = [cc, "-O1", "-fno-strict-aliasing", "-I", os.path.join(repo_copy, "w2c2"), src, "-o", exe, "-lm"]
    if big_endian:
        cmd[1:1] = ["-DWASM_ENDIAN=WASM_BIG_ENDIAN", "-DWASM_THREADS_PTHREADS"]
    cmd[1:1] = list(extra)
    p = subprocess.run(cmd, stdout=subprocess.PIPE, stderr=subprocess.PIPE, text=True)
    if p.returncode != 0:
        raise RuntimeError("harness build failed:\n" + p.stderr[-3000:])
    return exe


def run_lines(exe, lines, timeout=600):
    """One answer per request line.  If the harness process dies (the REAL code under test crashed: SIGFPE,
    SIGSEGV, abort…) on some line, that line is answered `crash <signal>` and the rest is run in a fresh
    process: a crash of the code under test is a result, not a tool failure."""
    import subprocess
    answers = []
    pos = 0
    crashes = 0
    while pos < len(lines):
        chunk = lines[pos:]
        p = subprocess.run([exe], input="\n".join(chunk) + "\n", stdout=subprocess.PIPE, stderr=subprocess.PIPE,
                           text=True, timeout=timeout)
        out = p.stdout.splitlines()
        if len(out) >= len(chunk):
            answers += out[:len(chunk)]
            break
        if p.returncode == 0:
            raise RuntimeError(f"harness answered {len(out)} lines for {len(chunk)} (rc=0) {p.stderr[-300:]}")
        # the line after the last complete answer killed the process
        answers += out
        answers.append(f"crash rc={p.returncode}")
        pos += len(out) + 1
        crashes += 1
        if crashes > 200:
            raise RuntimeError("harness keeps crashing (>200 crashing inputs)")
    return answers


# ----------------------------------------------------------------------------- operand generators

def int_boundary(w):
    m = (1 << w) - 1
    s = {0, 1, 2, m, m - 1, 1 << (w - 1), (1 << (w - 1)) - 1, (1 << (w - 1)) + 1, w - 1, w, w + 1,
         0x55555555 & m, 0xAAAAAAAA & m, 0x0F0F0F0F & m}
    for k in range(w):
        s.add(1 << k)
        s.add(((1 << k) - 1) & m)
        s.add((m << k) & m)
    # integers around the rounding midpoints of int -> f32 (24-bit significand) and int -> f64 (53 bits) conversions: exact ties with an
    # even / odd significand and their neighbours one unit away (where rounding twice, e.g. through double, differs from rounding once)
    for prec in (24, 53):
        for e in range(prec + 1, w):
            base, half = 1 << e, 1 << (e - prec)
            for x in (base + half, base + half + 1, base + half - 1, base + 3 * half, base + 3 * half - 1, base + 3 * half + 1):
                s.add(x & m)
                s.add((-x) & m)
    return sorted(s)


def f32_boundary():
    import struct
    vals = set()
    consts = [0.0, 1.0, 0.5, 1.5, 2.5, 2147483648.0, 4294967296.0, 9223372036854775808.0,
              18446744073709551616.0, 2147483647.0, 16777216.0, 8388608.0, 0.99999994]
    for c in consts:
        b = struct.unpack("<I", struct.pack("<f", c))[0]
        for d in (-2, -1, 0, 1, 2):
            for sgn in (0, 0x80000000):
                vals.add(((b + d) & 0x7fffffff) | sgn)
    vals |= {0x7f800000, 0xff800000, 0x7fc00000, 0xffc00000, 0x7f800001, 0x7fffffff, 0xff800001, 1, 0x80000001,
             0x007fffff, 0x00800000, 0x7f7fffff, 0xff7fffff}
    for k in range(23):
        vals.add(0x7f800000 | (1 << k))
    return sorted(vals)


def f64_boundary():
    import struct
    vals = set()
    consts = [0.0, 1.0, 0.5, 1.5, 2.5, 2147483648.0, 2147483649.0, 4294967296.0, 9223372036854775808.0,
              18446744073709551616.0, 2147483647.0, 4294967295.0, 9007199254740992.0, 4503599627370496.0,
              0.9999999999999999]
    for c in consts:
        b = struct.unpack("<Q", struct.pack("<d", c))[0]
        for d in (-2, -1, 0, 1, 2):
            for sgn in (0, 1 << 63):
                vals.add(((b + d) & ((1 << 63) - 1)) | sgn)
    vals |= {0x7ff0000000000000, 0xfff0000000000000, 0x7ff8000000000000, 0xfff8000000000000, 0x7ff0000000000001,
             0x7fffffffffffffff, 1, 0x8000000000000001, 0x000fffffffffffff, 0x0010000000000000,
             0x7fefffffffffffff, 0xffefffffffffffff}
    for k in range(0, 52, 3):
        vals.add(0x7ff0000000000000 | (1 << k))
    return sorted(vals)


def boundary(ty):
    if ty == "f32":
        return f32_boundary()
    if ty == "f64":
        return f64_boundary()
    return int_boundary(WIDTH[ty])


def rand_val(rng, ty):
    w = WIDTH[ty]
    r = rng.random()
    if r < 0.35:
        return rng.choice(boundary(ty))
    if r < 0.5:
        return rng.getrandbits(w) & rng.getrandbits(w)        # sparse
    if r < 0.6:
        return rng.getrandbits(8)
    if ty in ("f32", "f64") and r < 0.85:
        # a float near an integer-conversion boundary exponent
        if ty == "f32":
            e = rng.choice([126, 127, 150, 157, 158, 159, 189, 190, 191, 0, 1, 254]) & 0xff
            return (rng.getrandbits(1) << 31) | (e << 23) | rng.getrandbits(23)
        e = rng.choice([1022, 1023, 1052, 1053, 1054, 1055, 1085, 1086, 1087, 0, 1, 2046]) & 0x7ff
        return (rng.getrandbits(1) << 63) | (e << 52) | rng.getrandbits(52)
    return rng.getrandbits(w)


def line_for(op, vals):
    name, cfg, args, rty, _ = op
    return "m %s %s>%s %s" % (cfg, name, rty, " ".join("%s:%x" % (t, v) for t, v in zip(args, vals)))


def is_nan_line(s):
    p = s.split()
    if len(p) == 3 and p[0] == "val":
        b = int(p[2], 16)
        if p[1] == "f32":
            return (b & 0x7f800000) == 0x7f800000 and (b & 0x7fffff) != 0
        if p[1] == "f64":
            return (b & 0x7ff0000000000000) == 0x7ff0000000000000 and (b & 0xfffffffffffff) != 0
    return False


def same_result(a, b):
    """Equality of protocol answers; NaNs are compared by class."""
    if a == b:
        return True
    return is_nan_line(a) and is_nan_line(b) and a.split()[1] == b.split()[1]
