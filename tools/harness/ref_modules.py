"""ref_modules — module / REFERENCE-module pairs for the `-r` option (C10: no memory error for any option combination).

With `-r REF` main.c splits the hash-sorted function IDs into a STATIC list (body also present in REF) and a DYNAMIC list
(the rest); the file writers then work on two lists that are both shorter than the module's function count.  The pairs
below cover every shape of that split:
  * REF = the module with k of its n function bodies changed, k in {0, 1, 2, n/2, n-2, n-1, n}, the changed ones being
    the first / last / every other / random functions (so the static list has n-k entries, the dynamic one k);
  * REF with fewer functions (a prefix / a suffix of the module's) and with more functions (extra unrelated ones,
    duplicates of shared bodies);
  * modules with duplicate bodies (equal hashes: the merge justifies each static function by ONE reference entry);
  * n from 1 to a few hundred (several implementation files per list with small -f, one with the default).
Every module is valid; `pairs()` returns [(label, module bytes, reference bytes, [option lists])].
"""
import wasmgen.wasm_ast as A
from wasmgen import encode

OPTS = [[], ["-f", "1"], ["-f", "3", "-t", "4"], ["-p", "-g", "-t", "1"], ["-m", "-f", "2", "-t", "2"], ["-f", "7", "-p", "-t", "16"],
        ["-g", "-f", "1", "-t", "1"], ["-c", "-f", "5"], ["-d", "gnu-ld", "-f", "4", "-t", "3"], ["-t", "1"]]


def funcs_module(keys):
    """one function `(i32) -> i32` per key; equal keys = byte-identical bodies (equal SHA-1)"""
    m = A.Module()
    m.types = [A.FuncType([A.I32], [A.I32])]
    m.funcs = []
    for k in keys:
        body = [A.Instr("local.get", 0), A.Instr("i32.const", 3 * k + 1), A.Instr("i32.add")]
        if k % 5 == 0:
            body += [A.Instr("f64.const", 0x3FF8000000000000 + k), A.Instr("drop")]
        m.funcs.append(A.Function(0, [], body))
    m.exports = [A.Export(b"x%d" % i, "func", i) for i in range(min(len(keys), 24))]
    return m


def changed(keys, which):
    """reference keys: the functions in `which` get another body"""
    return [k + 100000 if i in which else k for i, k in enumerate(keys)]


def pairs(rng, tier):
    out = []
    sizes = [1, 2, 5, 16, 64] if tier == "quick" else [1, 2, 3, 5, 8, 16, 33, 64, 200, 700]
    for n in sizes:
        keys = list(range(1, n + 1))
        mod = encode(funcs_module(keys))
        ks = sorted(set(k for k in (0, 1, 2, n // 2, n - 2, n - 1, n) if 0 <= k <= n))
        for k in ks:
            shapes = {"first": set(range(k)), "last": set(range(n - k, n)), "alternate": set(list(range(0, n, 2))[:k] + list(range(1, n, 2))[:max(0, k - (n + 1) // 2)]),
                      "random": set(rng.sample(range(n), k))}
            names = ["last", "random"] if tier == "quick" and n > 5 else list(shapes)
            for nm in names:
                which = shapes[nm]
                if len(which) != k:
                    continue
                ref = encode(funcs_module(changed(keys, which)))
                nopt = 2 if tier == "quick" else 4
                o = [OPTS[(n + k + j * 3 + len(nm)) % len(OPTS)] for j in range(nopt)]
                if [] not in o and k in (1, n - 1):
                    o[0] = []                                    # the default -f (= all functions in one file per list)
                out.append(("ref:n%d:changed%d:%s" % (n, k, nm), mod, ref, o))
        # reference with fewer / more functions
        if n >= 2:
            out.append(("ref:n%d:prefix" % n, mod, encode(funcs_module(keys[:n // 2])), [[], ["-f", "1", "-t", "2"]]))
            out.append(("ref:n%d:suffix" % n, mod, encode(funcs_module(keys[n // 2 + 1:])), [["-f", "2"], ["-p", "-m"]]))
        out.append(("ref:n%d:more" % n, mod, encode(funcs_module(keys[::2] + [900 + i for i in range(n + 3)] + keys[:2])), [[], ["-f", "3", "-t", "4"]]))
        # duplicate bodies in the module, fewer copies in the reference
        dk = [1 + (i % max(1, n // 3)) for i in range(n)]
        out.append(("ref:n%d:duplicates" % n, encode(funcs_module(dk)), encode(funcs_module(sorted(set(dk))[: max(1, n // 4)])), [[], ["-f", "2", "-t", "3"]]))
    return out
