"""grow_sched — build and run tools/harness/grow_sched.c against the REAL w2c2_base.h of a scratch copy
of /repo (C18), plus the *proposed repair* of wasmMemoryGrow used as a fixture:

  * `REPAIRED_GROW` is the text of a repaired function (reads and checks inside the critical section,
    wrap check before the zero check, single exit).  `patch_header` writes a header copy in which only
    that function is replaced.  The check (a) regenerates the step list of the patched header with
    gen_memfuncs and compares it with `Model.Grow.repairedSteps` (the list the Lean theorems
    `repaired_*` talk about), (b) explores schedules on the patched header to show the repair works on
    the real compiler output.  Nothing here touches /repo.
"""
import itertools
import os
import re
import subprocess

HERE = os.path.dirname(os.path.abspath(__file__))

REPAIRED_GROW = r"""
static
W2C2_INLINE
U32
wasmMemoryGrow(
    wasmMemory* memory,
    const U32 delta
) {
    bool doRealloc = true;
    U32 result = (U32) -1;

    if (memory->shared) {
        doRealloc = false;
#ifdef WASM_MUTEX_TYPE
        WASM_MUTEX_LOCK(&memory->mutex);
#else
        abort();
#endif
    }

    {
        /* Read the current size only inside the critical section */
        const U32 oldPages = memory->pages;
        const U32 newPages = oldPages + delta;

        /* newPages < oldPages: the addition wrapped around */
        if (newPages >= oldPages && newPages <= memory->maxPages) {
            if (newPages == oldPages) {
                /* Nothing to do (and realloc(data, 0) must be avoided) */
                result = oldPages;
            } else {
                const U32 newSize = newPages * WASM_PAGE_SIZE;
                bool failed = false;
                if (doRealloc) {
                    const U32 oldSize = oldPages * WASM_PAGE_SIZE;
                    const U32 deltaSize = delta * WASM_PAGE_SIZE;
                    U8* newData = (U8*)realloc(memory->data, newSize);
                    if (newData == NULL) {
                        failed = true;
                    } else {
                        memset(newData + oldSize, 0, deltaSize);
                        memory->data = newData;
                    }
                }
                if (!failed) {
                    memory->pages = newPages;
                    memory->size = newSize;
                    result = oldPages;
                }
            }
        }
    }

    if (memory->shared) {
#ifdef WASM_MUTEX_TYPE
        WASM_MUTEX_UNLOCK(&memory->mutex);
#else
        abort();
#endif
    }

    return result;
}
"""


def patch_header(src_hdr, dst_hdr):
    """Copy the header, replacing exactly the definition of wasmMemoryGrow by REPAIRED_GROW."""
    text = open(src_hdr).read()
    m = re.search(r"static\s+W2C2_INLINE\s+U32\s+wasmMemoryGrow\s*\(", text)
    if not m:
        raise RuntimeError("wasmMemoryGrow not found in header")
    i = text.index("{", m.end())
    depth = 0
    j = i
    while True:
        if text[j] == "{":
            depth += 1
        elif text[j] == "}":
            depth -= 1
            if depth == 0:
                break
        j += 1
    out = text[:m.start()] + REPAIRED_GROW.strip() + text[j + 1:]
    with open(dst_hdr, "w") as f:
        f.write(out)
    return dst_hdr


def build(incdir, outdir, name="grow_sched", extra=()):
    exe = os.path.join(outdir, name)
    cmd = ["gcc", "-O1", "-g", "-DWASM_THREADS_PTHREADS", "-I", incdir, *extra,
           os.path.join(HERE, "grow_sched.c"), "-o", exe, "-lpthread", "-lm"]
    p = subprocess.run(cmd, stdout=subprocess.PIPE, stderr=subprocess.STDOUT, text=True)
    if p.returncode != 0:
        raise RuntimeError("grow_sched build failed: " + p.stdout[-1500:])
    return exe


def run(exe, args, env=None, timeout=60):
    e = dict(os.environ)
    if env:
        e.update(env)
    p = subprocess.run([exe] + [str(a) for a in args], stdout=subprocess.PIPE, stderr=subprocess.PIPE, text=True,
                       timeout=timeout, env=e)
    return p.returncode, p.stdout.strip(), p.stderr


def schedules(nthreads, segs=3):
    """All interleavings of `segs` segments per thread (a grow has at most 3: before lock / critical
    section / after unlock), as digit strings."""
    base = []
    for t in range(nthreads):
        base += [str(t)] * segs
    seen = set()
    for p in itertools.permutations(base):
        s = "".join(p)
        if s not in seen:
            seen.add(s)
            yield s


def parse_result(line):
    """'ret 1 1 pages 2 size 131072 [blocked t]' → dict"""
    w = line.split()
    i = w.index("pages")
    rets = [None if x == "-" else int(x) for x in w[1:i]]
    d = {"rets": rets, "pages": int(w[i + 1]), "size": int(w[i + 3]), "blocked": []}
    j = i + 4
    while j < len(w):
        if w[j] == "blocked":
            d["blocked"].append(int(w[j + 1]))
        j += 2
    return d
