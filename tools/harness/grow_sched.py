"""grow_sched — build and run tools/harness/grow_sched.c against the REAL w2c2_base.h of a scratch copy
of /repo (C18), plus the *proposed repair* of wasmMemoryGrow used as a fixture:

  * `REPAIRED_GROW` is the text of a repaired function (reads and checks inside the critical section,
    wrap check before the zero check, single exit).  `patch_header` writes a header copy in which only
    that function is replaced.  The check (a) regenerates the step list of the patched header with
    gen_memfuncs and compares it with `Model.Grow.repairedSteps` (the list the Lean theorems
    `repaired_*` talk about), (b) explores schedules on the patched header to show the repair works on
    the real compiler output.  Nothing here touches /repo.
"""
import itertools
import os
import re
import subprocess

HERE = os.path.dirname(os.path.abspath(__file__))

REPAIRED_GROW = r"""
static
W2C2_INLINE
U32
wasmMemoryGrow(
    wasmMemory* memory,
    const U32 delta
) {
    bool doRealloc = true;
    U32 result = (U32) -1;

    if (memory->shared) {
        doRealloc = false;
#ifdef WASM_MUTEX_TYPE
        WASM_MUTEX_LOCK(&memory->mutex);
#else
        abort();
#endif
    }

    {
        /* Read the current size only inside the critical section */
        const U32 oldPages = memory->pages;
        const U32 newPages = oldPages + delta;

        /* newPages < oldPages: the addition wrapped around */
        if (newPages >= oldPages && newPages <= memory->maxPages) {
            if (newPages == oldPages) {
                /* Nothing to do (and realloc(data, 0) must be avoided) */
                result = oldPages;
            } else {
                const U32 newSize = newPages * WASM_PAGE_SIZE;
                bool failed = false;
                if (doRealloc) {
                    const U32 oldSize = oldPages * WASM_PAGE_SIZE;
                    const U32 deltaSize = delta * WASM_PAGE_SIZE;
                    U8* newData = (U8*)realloc(memory->data, newSize);
                    if (newData == NULL) {
                        failed = true;
                    } else {
                        memset(newData + oldSize, 0, deltaSize);
                        memory->data = newData;
                    }
                }
                if (!failed) {
                    memory->pages = newPages;
                    memory->size = newSize;
                    result = oldPages;
                }
            }
        }
    }

    if (memory->shared) {
#ifdef WASM_MUTEX_TYPE
        WASM_MUTEX_UNLOCK(&memory->mutex);
#else
        abort();
#endif
    }

    return result;
}
"""


def size_module(max_pages=1000, shared=True, imported=False):
    """(module (memory 1 <max> [shared]) | (import "env" "memory" (memory 1 <max> [shared]))
               (func (result i32) memory.size) (func (param i32) (result i32) local.get 0 memory.grow))"""
    import sys
    sys.path.insert(0, os.path.dirname(HERE))
    from wasmgen import wasm_ast as A, encode
    m = A.Module()
    m.types = [A.FuncType([], [A.I32]), A.FuncType([A.I32], [A.I32])]
    lim = A.Limits(1, max_pages, shared)
    if imported:
        m.imports = [A.Import(b"env", b"memory", "memory", lim)]
    else:
        m.mems = [lim]
    m.funcs = [A.Function(0, [], [A.Instr("memory.size")]),
               A.Function(1, [], [A.Instr("local.get", 0), A.Instr("memory.grow")])]
    return encode(m)


MEMORY_KINDS = [("defined-shared", True, False), ("imported-shared", True, True),
                ("defined-nonshared", False, False), ("imported-nonshared", False, True)]

# driver for the code w2c2 GENERATES from size_module(): f0 = memory.size, f1 = memory.grow; free-running threads (TSan).
# -DIMPORTED: the memory is provided by the embedder through the import resolver; -DSHARED selects its kind.
GEN_MAIN = r"""
#include <stdio.h>
#include <stdlib.h>
#include <string.h>
#include <pthread.h>
#include "w2c2_base.h"
#include "m.h"
U32 f0(mInstance*); U32 f1(mInstance*, U32);
void trap(Trap t) { fprintf(stderr, "trap %d\n", (int)t); abort(); }
static mInstance inst; static int iters;
static wasmMemory* envMemory;
static void* resolve(const char* module, const char* name) {
    if (!strcmp(module, "env") && !strcmp(name, "memory")) return envMemory;
    return NULL;
}
static void* grower(void* a) { int i; U32 acc = 0; for (i = 0; i < iters; i++) acc += f1(&inst, i % 4 == 0); *(U32*)a = acc; return NULL; }
static void* reader(void* a) { int i; U32 acc = 0; for (i = 0; i < iters; i++) acc += f0(&inst); *(U32*)a = acc; return NULL; }
int main(int argc, char** argv) {
    pthread_t th[16]; U32 sink[16]; int g = atoi(argv[1]), r = atoi(argv[3]), i; iters = atoi(argv[2]);
    (void)argc;
#if IMPORTED
    envMemory = wasmMemoryAllocate(1, 1000, SHARED);
    mInstantiate(&inst, resolve);
#else
    (void)resolve;
    mInstantiate(&inst, NULL);
#endif
    for (i = 0; i < g; i++) pthread_create(&th[i], NULL, grower, &sink[i]);
    for (i = 0; i < r; i++) pthread_create(&th[g + i], NULL, reader, &sink[g + i]);
    for (i = 0; i < g + r; i++) pthread_join(th[i], NULL);
    printf("pages %u\n", f0(&inst));
    return 0;
}
"""


def build_generated(w2c2, incdir, workdir, extra=("-fsanitize=thread",), shared=True, imported=False):
    """Translate size_module(kind) with the real w2c2 and build it with GEN_MAIN.  Returns (exe, generated C text)."""
    os.makedirs(workdir, exist_ok=True)
    with open(os.path.join(workdir, "m.wasm"), "wb") as f:
        f.write(size_module(1000, shared, imported))
    p = subprocess.run([w2c2, "m.wasm", "m.c"], cwd=workdir, stdout=subprocess.PIPE, stderr=subprocess.STDOUT, text=True)
    if p.returncode != 0 or not os.path.exists(os.path.join(workdir, "m.c")):
        raise RuntimeError("w2c2 failed on the size module: " + p.stdout[-500:])
    with open(os.path.join(workdir, "gen_main.c"), "w") as f:
        f.write(GEN_MAIN)
    exe = os.path.join(workdir, "gen_tsan")
    cmd = ["gcc", "-O1", "-g", "-DWASM_THREADS_PTHREADS", f"-DIMPORTED={int(imported)}", f"-DSHARED={int(shared)}",
           "-I", incdir, *extra, "gen_main.c", "m.c", "-o", exe, "-lpthread", "-lm"]
    p = subprocess.run(cmd, cwd=workdir, stdout=subprocess.PIPE, stderr=subprocess.STDOUT, text=True)
    if p.returncode != 0:
        raise RuntimeError("build of the generated module failed: " + p.stdout[-1500:])
    return exe, open(os.path.join(workdir, "m.c")).read()


def emitted_statements(text):
    """{'memory.size': rhs emitted in f0, 'memory.grow': rhs emitted in f1}"""
    out = {}
    for name, fn in (("memory.size", "f0"), ("memory.grow", "f1")):
        m = re.search(r"\b%s\([^)]*\)\s*\{(.*?)\n\}" % fn, text, re.S)
        body = m.group(1) if m else ""
        st = [x for x in re.findall(r"si0=([^;]*);", body) if "wasmMemory" in x or "pages" in x or "->" in x or "." in x]
        out[name] = st[-1] if st else None
    return out


def patch_header(src_hdr, dst_hdr):
    """Copy the header, replacing exactly the definition of wasmMemoryGrow by REPAIRED_GROW."""
    text = open(src_hdr).read()
    m = re.search(r"static\s+W2C2_INLINE\s+U32\s+wasmMemoryGrow\s*\(", text)
    if not m:
        raise RuntimeError("wasmMemoryGrow not found in header")
    i = text.index("{", m.end())
    depth = 0
    j = i
    while True:
        if text[j] == "{":
            depth += 1
        elif text[j] == "}":
            depth -= 1
            if depth == 0:
                break
        j += 1
    out = text[:m.start()] + REPAIRED_GROW.strip() + text[j + 1:]
    with open(dst_hdr, "w") as f:
        f.write(out)
    return dst_hdr


def build(incdir, outdir, name="grow_sched", extra=()):
    exe = os.path.join(outdir, name)
    cmd = ["gcc", "-O1", "-g", "-DWASM_THREADS_PTHREADS", "-I", incdir, *extra,
           os.path.join(HERE, "grow_sched.c"), "-o", exe, "-lpthread", "-lm"]
    p = subprocess.run(cmd, stdout=subprocess.PIPE, stderr=subprocess.STDOUT, text=True)
    if p.returncode != 0:
        raise RuntimeError("grow_sched build failed: " + p.stdout[-1500:])
    return exe


def run(exe, args, env=None, timeout=60):
    e = dict(os.environ)
    if env:
        e.update(env)
    p = subprocess.run([exe] + [str(a) for a in args], stdout=subprocess.PIPE, stderr=subprocess.PIPE, text=True,
                       timeout=timeout, env=e)
    return p.returncode, p.stdout.strip(), p.stderr


def schedules(nthreads, segs=3):
    """All interleavings of `segs` segments per thread (a grow has at most 3: before lock / critical
    section / after unlock), as digit strings."""
    base = []
    for t in range(nthreads):
        base += [str(t)] * segs
    seen = set()
    for p in itertools.permutations(base):
        s = "".join(p)
        if s not in seen:
            seen.add(s)
            yield s


def parse_result(line):
    """'ret 1 1 pages 2 size 131072 [blocked t]' → dict"""
    w = line.split()
    i = w.index("pages")
    rets = [None if x == "-" else int(x) for x in w[1:i]]
    d = {"rets": rets, "pages": int(w[i + 1]), "size": int(w[i + 3]), "blocked": [], "held": None}
    j = i + 4
    while j < len(w):
        if w[j] == "blocked":
            d["blocked"].append(int(w[j + 1]))
        elif w[j] == "held":
            d["held"] = int(w[j + 1])
        j += 2
    return d
