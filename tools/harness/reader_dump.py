"""Build and run tools/harness/reader_dump.c (the real reader.c linked from a scratch copy of /repo)."""
import os
import re
import signal
import subprocess

HERE = os.path.dirname(os.path.abspath(__file__))
DEFS = ["-DHAS_PTHREAD=1", "-DHAS_UNISTD=1", "-DHAS_GETOPT=1", "-DHAS_LIBGEN=1", "-DHAS_STRDUP=1", "-DHAS_GLOB=1"]


def w2c2_sources(repo, with_main):
    d = os.path.join(repo, "w2c2")
    out = []
    for f in sorted(os.listdir(d)):
        if not f.endswith(".c") or f.endswith("_test.c") or f == "test.c":
            continue
        if f == "main.c" and not with_main:
            continue
        out.append(os.path.join(d, f))
    return out


def build(repo, outdir, sanitize=False, cc="gcc", name=None):
    exe = os.path.join(outdir, name or ("reader_dump_san" if sanitize else "reader_dump"))
    flags = ["-O1", "-w"]
    if sanitize:
        flags += ["-g", "-DMARK_LINES", "-fsanitize=address,undefined", "-fsanitize-recover=undefined", "-fno-omit-frame-pointer"]
    cmd = [cc] + flags + DEFS + ["-I" + os.path.join(repo, "w2c2"), "-o", exe, os.path.join(HERE, "reader_dump.c")] + \
        w2c2_sources(repo, False) + ["-lpthread", "-lm"]
    p = subprocess.run(cmd, stdout=subprocess.PIPE, stderr=subprocess.STDOUT, text=True)
    if p.returncode != 0:
        raise RuntimeError("reader_dump build failed: " + p.stdout[-2000:])
    return exe


def build_w2c2(repo, outdir, name="w2c2", cc="gcc", flags=("-O1",)):
    exe = os.path.join(outdir, name)
    cmd = [cc, "-w"] + list(flags) + DEFS + ["-o", exe] + w2c2_sources(repo, True) + ["-lpthread", "-lm"]
    p = subprocess.run(cmd, stdout=subprocess.PIPE, stderr=subprocess.STDOUT, text=True)
    if p.returncode != 0:
        raise RuntimeError(f"w2c2 build ({cc} {' '.join(flags)}) failed: " + p.stdout[-2000:])
    return exe


def line_for(data, debug=False, strict=False):
    return "read %d %d %s" % (1 if debug else 0, 1 if strict else 0, data.hex() if data else "-")


def run_lines(exe, lines, sanitized=False, timeout=1800):
    """Feed all lines; a crash of the process is recorded as `crash <signal>` for the line being processed and the
    run continues with the next line.  Returns (answers, reports) — reports: {index: [sanitizer lines]} (sanitized only)."""
    answers = []
    reports = {}
    env = dict(os.environ)
    env["ASAN_OPTIONS"] = "detect_leaks=0:allocator_may_return_null=1:max_malloc_fill_size=4194304:malloc_fill_byte=190"  # fresh heap memory is 0xBE: a read of uninitialised pointers crashes instead of seeing zeroes
    env["UBSAN_OPTIONS"] = "print_stacktrace=0"
    start = 0
    while start < len(lines):
        chunk = lines[start:]
        p = subprocess.run([exe], input="\n".join(chunk) + "\n", stdout=subprocess.PIPE, stderr=subprocess.PIPE,
                           text=True, timeout=timeout, env=env, errors="replace")
        out = p.stdout.splitlines()
        if sanitized:
            cur = None
            for ln in p.stderr.splitlines():
                m = re.match(r"LINE (\d+)$", ln)
                if m:
                    cur = start + int(m.group(1)) - 1
                elif "runtime error:" in ln or "ERROR: AddressSanitizer" in ln or "SUMMARY:" in ln:
                    reports.setdefault(cur, []).append(re.sub(r"/\S*/w2c2/", "w2c2/", ln.strip())[:300])
        if len(out) >= len(chunk):
            answers += out[:len(chunk)]
            break
        # the process died while handling chunk[len(out)]
        sig = -p.returncode if p.returncode < 0 else p.returncode
        try:
            signame = signal.Signals(sig).name if p.returncode < 0 else f"exit{sig}"
        except ValueError:
            signame = str(sig)
        answers += out + ["crash " + signame]
        start += len(out) + 1
    return answers, reports
