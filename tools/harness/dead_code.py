"""dead_code — valid modules whose functions contain UNREACHABLE code that is valid only because the operand stack is
polymorphic there (C10: the translator must not crash on them; C03-style: the live code around it must still behave).

After `unreachable`, `br`, `br_table` or `return` the rest of the enclosing block is dead and type-checks against a
stack-polymorphic operand stack: arithmetic may pop operands nobody pushed, `block`/`loop`/`if` constructs (with and without
results, themselves alive or dead inside) may follow, as may `br_if`/`br_table`/`br` to outer labels, calls, local.set/tee,
global.set, loads/stores/memory.grow, select, drop.  w2c2 skips emission there (`writer->ignore`) but keeps its type and
label stacks; a construct that switches emission back on too early indexes an empty type stack (seeded change C10/6: the
end of a loop inside dead code).

`functions(rng, n_random)` builds function bodies:
  * systematic: every terminator x every dead snippet x nesting depth 0..2 of the dead region, result types i32/i64/f32/f64;
  * seeded random: dead regions of 1..12 instructions drawn from the palette with a small polymorphic-stack type tracker
    (a pop from an empty known stack is fine; a known value must have the popped type), nested constructs recursively.
Every function has type (i32) -> T: `local.get 0` selects whether the region in front of the dead code is entered, so
calling it with 0 / 1 exercises the live code on both sides.  `modules()` packs them into modules; each module is meant to
be validated with V8 by the caller (`wasmgen.v8.validate`) — the generator is not the arbiter of validity.
"""
import struct

import wasmgen.wasm_ast as A
from wasmgen import encode

I = A.Instr
VT = [A.I32, A.I64, A.F32, A.F64]
TN = {A.I32: "i32", A.I64: "i64", A.F32: "f32", A.F64: "f64"}


def const(t, k=0):
    if t == A.I32:
        return I("i32.const", 7 + k)
    if t == A.I64:
        return I("i64.const", 0x100000000 + k)
    if t == A.F32:
        return I("f32.const", struct.unpack("<I", struct.pack("<f", 1.5 + k))[0])
    return I("f64.const", struct.unpack("<Q", struct.pack("<d", 2.25 + k))[0])


# (mnemonic, immediates, pops (top last), pushes)
PALETTE = [
    ("i32.add", (), [A.I32, A.I32], [A.I32]), ("i32.eqz", (), [A.I32], [A.I32]), ("i64.mul", (), [A.I64, A.I64], [A.I64]),
    ("f32.neg", (), [A.F32], [A.F32]), ("f64.add", (), [A.F64, A.F64], [A.F64]), ("f64.lt", (), [A.F64, A.F64], [A.I32]),
    ("i64.extend_i32_u", (), [A.I32], [A.I64]), ("i32.wrap_i64", (), [A.I64], [A.I32]), ("f64.promote_f32", (), [A.F32], [A.F64]),
    ("i32.trunc_f64_s", (), [A.F64], [A.I32]), ("i64.reinterpret_f64", (), [A.F64], [A.I64]),
    ("i32.div_u", (), [A.I32, A.I32], [A.I32]), ("i64.rem_s", (), [A.I64, A.I64], [A.I64]),
    ("local.set", (1,), [A.I32], []), ("local.tee", (1,), [A.I32], [A.I32]), ("local.get", (1,), [], [A.I32]),
    ("local.set", (2,), [A.F64], []), ("local.get", (2,), [], [A.F64]),
    ("global.set", (0,), [A.I32], []), ("global.get", (0,), [], [A.I32]),
    ("i32.load", (2, 0), [A.I32], [A.I32]), ("i64.load8_u", (0, 3), [A.I32], [A.I64]), ("f64.load", (3, 8), [A.I32], [A.F64]),
    ("i32.store", (2, 4), [A.I32, A.I32], []), ("f32.store", (2, 0), [A.I32, A.F32], []), ("i64.store16", (1, 2), [A.I32, A.I64], []),
    ("memory.grow", (), [A.I32], [A.I32]), ("memory.size", (), [], [A.I32]),
    ("nop", (), [], []),
]


class Gen(object):
    def __init__(self, rng, ncallee):
        self.rng = rng
        self.ncallee = ncallee          # callee k: (i32, f64) -> i32 for k even, (i64) -> () for k odd

    def pop(self, known, t):
        """pop a value of type t from the known part of the stack; False = type clash (the instruction cannot be used here)"""
        if known:
            if known[-1] != t:
                return False
            known.pop()
        return True

    def dead_region(self, depth, labels, n, known=None):
        """n instructions (constructs count once) valid on a polymorphic stack; labels = result types of the enclosing labels
        (innermost first, None = no result).  Returns (instructions, known stack)."""
        rng = self.rng
        out = []
        known = [] if known is None else known
        for _ in range(n):
            r = rng.random()
            if r < 0.45:
                op, imm, pops, pushes = rng.choice(PALETTE)
                k2 = list(known)
                if all(self.pop(k2, t) for t in reversed(pops)):
                    known[:] = k2 + list(pushes)
                    out.append(I(op, *imm))
            elif r < 0.55:
                t = rng.choice(VT)
                out.append(const(t, rng.randrange(5)))
                known.append(t)
            elif r < 0.62:
                if known:
                    known.pop()
                out.append(I("drop"))
            elif r < 0.67:
                # select: (t, t, i32) -> t
                k2 = list(known)
                if self.pop(k2, A.I32):
                    t = k2[-1] if k2 else rng.choice(VT)
                    if self.pop(k2, t) and self.pop(k2, t):
                        known[:] = k2 + [t]
                        out.append(I("select"))
            elif r < 0.72 and self.ncallee:
                k = rng.randrange(self.ncallee)
                pops, pushes = ([A.I32, A.F64], [A.I32]) if k % 2 == 0 else ([A.I64], [])
                k2 = list(known)
                if all(self.pop(k2, t) for t in reversed(pops)):
                    known[:] = k2 + pushes
                    out.append(I("call", k))
            elif r < 0.80 and labels:
                # br_if to an outer label: pops the condition and (peeks) the label's operands
                d = rng.randrange(len(labels))
                k2 = list(known)
                if self.pop(k2, A.I32):
                    lt = labels[d]
                    if lt is None:
                        known[:] = k2
                        out.append(I("br_if", d))
                    elif self.pop(k2, lt):
                        known[:] = k2 + [lt]     # the label's operand is popped and pushed back: its type is known afterwards
                        out.append(I("br_if", d))
            elif r < 0.86 and depth < 3:
                out += self.construct(depth, labels, known, dead_inside=rng.random() < 0.5)
            elif r < 0.90 and labels:
                # a second terminator inside dead code
                out += self.terminator(labels)
                known[:] = []
            else:
                out.append(I("nop"))
        return out, known

    def terminator(self, labels):
        """[instructions]: an instruction after which the rest of the block is dead, preceded by the operand it needs"""
        rng = self.rng
        c = rng.randrange(4)
        if c == 0 or not labels:
            return [I("unreachable")]
        if c == 1:
            d = rng.randrange(len(labels))
            return ([const(labels[d], 8)] if labels[d] is not None else []) + [I("br", d)]
        if c == 2:
            d = rng.randrange(len(labels))
            same = [i for i, t in enumerate(labels) if t == labels[d]]
            return ([const(labels[d], 8)] if labels[d] is not None else []) + [I("i32.const", rng.randrange(3)),
                    I("br_table", [rng.choice(same) for _ in range(rng.randrange(0, 4))], d)]
        return ([const(labels[-1], 9)] if labels[-1] is not None else []) + [I("return")]

    def construct(self, depth, labels, known, dead_inside, kind=None, bt="any"):
        """a block / loop / if (with or without result) placed in a dead region; returns [instructions] and updates known"""
        rng = self.rng
        kind = kind or rng.choice(["block", "loop", "if", "ifelse"])
        bt = rng.choice([None, None] + VT) if bt == "any" else bt
        pre = []
        if kind in ("if", "ifelse"):
            if not self.pop(known, A.I32):
                pre.append(const(A.I32))
        if kind == "if" and bt is not None:
            kind = "ifelse"                  # an if with a result needs an else arm

        def arm():
            inner_labels = [None if kind == "loop" else bt] + labels
            if dead_inside:
                body, k = self.dead_region(depth + 1, inner_labels, rng.randrange(0, 4))
                body = self.terminator(inner_labels) + body
                body += [I("drop")] * len(k)         # the polymorphic stack supplies the result
                return body
            body = [I("nop")] if rng.random() < 0.3 else []
            if bt is not None:
                body.append(const(bt, 1))
            return body
        if kind == "ifelse":
            ins = I("if", bt, body=arm(), else_body=arm())
        elif kind == "if":
            ins = I("if", bt, body=arm())
        else:
            ins = I(kind, bt, body=arm())
        if bt is not None:
            known.append(bt)
        return pre + [ins]


def function_with(dead, term, t, depth, gen):
    """(i32) -> t: `depth` blocks (result t) around  [ if (local0) { term ; dead } ]  … the live path returns a constant."""
    # the dead region sits in the then-arm of an `if` without result inside `depth` nested blocks with result t
    labels = [None] + [t] * depth + [t]            # if-arm label, blocks, function
    inner = [term] + dead
    body = [I("local.get", 0), I("if", None, body=inner)]
    body.append(const(t, 3))
    for _ in range(depth):
        body = [I("block", t, body=body)]
    return body


SNIPPETS = [
    ("pop2", lambda g, t: [I("i32.add"), I("drop")]),
    ("block-then-pop", lambda g, t: [I("block", None, body=[]), I("i32.add"), I("drop")]),
    ("loop-then-pop", lambda g, t: [I("loop", None, body=[]), I("i32.add"), I("drop")]),
    ("if-then-pop", lambda g, t: [I("if", None, body=[]), I("i64.mul"), I("drop")]),
    ("ifelse-then-pop", lambda g, t: [I("if", None, body=[I("nop")], else_body=[]), I("f64.add"), I("drop")]),
    ("block-result", lambda g, t: [I("block", t, body=[const(t, 1)]), I("drop"), I("i32.eqz"), I("drop")]),
    ("loop-result-dead", lambda g, t: [I("loop", t, body=[I("unreachable")]), I("drop"), I("f32.neg"), I("drop")]),
    ("loop-result-live", lambda g, t: [I("loop", t, body=[const(t, 2)]), I("drop"), I("i32.add"), I("drop")]),
    ("if-result", lambda g, t: [I("if", t, body=[const(t, 1)], else_body=[I("unreachable")]), I("drop"), I("i32.add"), I("drop")]),
    ("nested-loops", lambda g, t: [I("loop", None, body=[I("unreachable"), I("loop", None, body=[]), I("i32.add"), I("drop")]), I("i64.mul"), I("drop")]),
    ("loop-in-block", lambda g, t: [I("block", None, body=[I("br", 0), I("loop", None, body=[I("br", 1)]), I("i32.add"), I("drop")]), I("i32.add"), I("drop")]),
    ("br_if-outer", lambda g, t: [I("br_if", 0), I("i32.add"), I("drop")]),
    ("br_table-outer", lambda g, t: [I("br_table", [0, 0], 0), I("i32.add"), I("drop")]),
    ("br-then-loop", lambda g, t: [I("br", 0), I("loop", None, body=[]), I("i32.add"), I("drop")]),
    ("return-then-loop", lambda g, t: [I("return"), I("loop", None, body=[]), I("i32.add"), I("drop")]),
    ("call", lambda g, t: [I("call", 0), I("drop"), I("call", 1)]),
    ("locals-globals", lambda g, t: [I("local.set", 1), I("local.tee", 1), I("global.set", 0), I("local.set", 2)]),
    ("memory", lambda g, t: [I("i32.load", 2, 0), I("i32.store", 2, 0), I("memory.grow"), I("drop"), I("f64.load", 3, 0), I("drop")]),
    ("select-drop", lambda g, t: [I("select"), I("drop"), I("select"), I("i32.add"), I("drop")]),
    ("loop-then-select", lambda g, t: [I("loop", None, body=[]), I("select"), I("drop")]),
    ("loop-then-call", lambda g, t: [I("loop", None, body=[]), I("call", 0), I("drop")]),
    ("loop-then-store", lambda g, t: [I("loop", None, body=[]), I("i32.store", 2, 0)]),
    ("loop-then-local.set", lambda g, t: [I("loop", None, body=[]), I("local.set", 1)]),
    ("loop-then-br_if", lambda g, t: [I("loop", None, body=[]), I("br_if", 0)]),
    ("block-then-br_table", lambda g, t: [I("block", None, body=[]), I("br_table", [0], 0)]),
    ("if-then-return", lambda g, t: [I("if", None, body=[]), I("return")]),
    ("loop-then-if", lambda g, t: [I("loop", None, body=[]), I("if", None, body=[I("unreachable"), I("loop", None, body=[]), I("i32.add"), I("drop")])]),
    ("loop-then-end-value", lambda g, t: [I("loop", None, body=[])]),
]

TERMS = [("unreachable", lambda: [I("unreachable")]), ("br", lambda: [I("br", 0)]),
         ("br_table", lambda: [I("local.get", 0), I("br_table", [0], 0)]), ("return", None)]


def base_module():
    m = A.Module()
    # type 0: (i32, f64) -> i32   type 1: (i64) -> ()   then (i32) -> t for the four value types
    m.types = [A.FuncType([A.I32, A.F64], [A.I32]), A.FuncType([A.I64], [])] + [A.FuncType([A.I32], [t]) for t in VT]
    m.mems = [A.Limits(1, 4)]
    m.globals = [A.Global(A.GlobalType(A.I32, True), I("i32.const", 5))]
    m.funcs = [A.Function(0, [], [I("local.get", 0), I("i32.const", 1), I("i32.add")]),
               A.Function(1, [], [])]
    return m


def add_function(m, name, t, body):
    m.funcs.append(A.Function(2 + VT.index(t), [(1, A.I32), (1, A.F64)], body))
    m.exports.append(A.Export(name.encode(), "func", len(m.funcs) - 1))


def systematic():
    """[(name, result type, body)]"""
    out = []
    g = None
    for ti, t in enumerate(VT):
        for depth in (0, 1, 2):
            for tn, tf in TERMS:
                for sn, sf in SNIPPETS:
                    if (ti + depth + len(sn)) % 4 and not (t == A.I32 and depth == 0):
                        continue             # every (terminator, snippet) for i32/depth 0, a quarter of the other combinations
                    body = function_with(sf(g, t), I("unreachable"), t, depth, g)
                    arm = body
                    for _ in range(depth):
                        arm = arm[0].body
                    # replace the placeholder terminator; `return` needs the function's result on the stack
                    arm[1].body[0:1] = tf() if tf else [const(t, 9), I("return")]
                    out.append(("%s_%s_%s_d%d" % (TN[t], tn, sn.replace("-", "_").replace(".", "_"), depth), t, body))
    return out


def random_functions(rng, n):
    out = []
    g = Gen(rng, 2)
    for k in range(n):
        t = rng.choice(VT)
        depth = rng.randrange(0, 3)
        labels = [None] + [t] * depth + [t]
        dead, known = g.dead_region(0, labels, rng.randrange(1, 13))
        dead += [I("drop")] * len(known)
        pre = g.terminator(labels)
        body = function_with(dead, I("nop"), t, depth, g)
        arm = body
        for _ in range(depth):
            arm = arm[0].body
        arm[1].body[0:1] = pre
        out.append(("r%d_%s" % (k, TN[t]), t, body))
    return out


def modules(rng, tier, per_module=40):
    """[(label, module (AST))] — systematic family first, then seeded random functions"""
    fns = systematic() + random_functions(rng, 120 if tier == "quick" else 1500)
    out = []
    for k in range(0, len(fns), per_module):
        m = base_module()
        for name, t, body in fns[k:k + per_module]:
            add_function(m, name, t, body)
        out.append(("dead-code:%d" % (k // per_module), m))
    return out


def single(name, t, body):
    m = base_module()
    add_function(m, name, t, body)
    return m
