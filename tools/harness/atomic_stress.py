"""atomic-stress — real threads on the REAL atomic accessor functions of w2c2_base.h (failing-history search for the
concurrency half of C16; the theorem side is Props/C16Conc).  Per flavour, T threads hammer ONE cell:
  add      : every thread adds 1 K times                      -> final cell = initial + T*K (mod 2^w): no update lost
  xchg     : every thread swaps in its own distinct tokens     -> multiset {returned values} ∪ {final} = {initial} ∪ {tokens}
  cmpxchg  : CAS-increment loops, K successes per thread       -> final cell = initial + T*K, and every success observed a
                                                                   distinct old value (a total order of the successful CASes)
Output: one line per flavour `name ok` | `name FAIL <what>`.  A FAIL is an observed history of the real code that no
total order explains."""
import os
import subprocess

SRC = r'''
#include <pthread.h>
#include <stdio.h>
#include <stdlib.h>
#include <string.h>
#include <unistd.h>
#include "w2c2_base.h"
void trap(Trap t) { fprintf(stderr, "trap %d\n", (int) t); abort(); }
static wasmMemory mem;
static int T, K;
static pthread_barrier_t bar;
#define CELL 64
typedef struct { int id; U64* seen; } Arg;
static int cmpu64(const void* x, const void* y) { U64 a = *(const U64*) x, b = *(const U64*) y; return a < b ? -1 : a > b; }

@@WORKERS@@

/* ---- store-buffering litmus (sequential consistency of atomic store + atomic load across TWO cells):
        T0: X = k; r0 = Y        T1: Y = k; r1 = X        forbidden in every total order: r0 < k and r1 < k */
static volatile int sbGo[2], sbDone[2];
static long sbRounds;
#define SB(NAME, STORE, LOAD, CT) \
static CT sbR_##NAME[2]; \
static void* sb_##NAME(void* p) { int me = (int) (long) p; long k; \
  for (k = 1; k <= sbRounds; k++) { \
    while (__atomic_load_n(&sbGo[me], __ATOMIC_ACQUIRE) != (int) k) {} \
    STORE(&mem, me ? 192 : 128, (CT) k); \
    sbR_##NAME[me] = LOAD(&mem, me ? 128 : 192); \
    __atomic_store_n(&sbDone[me], (int) k, __ATOMIC_RELEASE); } \
  return NULL; } \
static void run_sb_##NAME(CT mask) { pthread_t th[2]; long k, bad = 0; int i; \
  memset(mem.data + 128, 0, 8); memset(mem.data + 192, 0, 8); sbGo[0] = sbGo[1] = sbDone[0] = sbDone[1] = 0; \
  for (i = 0; i < 2; i++) pthread_create(&th[i], NULL, sb_##NAME, (void*) (long) i); \
  for (k = 1; k <= sbRounds; k++) { \
    __atomic_store_n(&sbGo[0], (int) k, __ATOMIC_RELEASE); __atomic_store_n(&sbGo[1], (int) k, __ATOMIC_RELEASE); \
    while (__atomic_load_n(&sbDone[0], __ATOMIC_ACQUIRE) != (int) k || __atomic_load_n(&sbDone[1], __ATOMIC_ACQUIRE) != (int) k) {} \
    if (sbR_##NAME[0] != ((CT) k & mask) && sbR_##NAME[1] != ((CT) k & mask)) bad++; } \
  for (i = 0; i < 2; i++) pthread_join(th[i], NULL); \
  if (bad == 0) printf("sb_" #NAME " ok\n"); \
  else printf("sb_" #NAME " FAIL %ld of %ld rounds of the store-buffering litmus (T0: store X; load Y  ||  T1: store Y; load X) ended with BOTH loads returning the old value: no total order of the four accesses explains that\n", bad, sbRounds); }
/* ---- hand-over: a spin-wait on an atomic load must observe another thread's atomic store (an atomic load that the compiler may
        hoist out of the loop — e.g. a plain dereference — never does at -O2) */
static volatile int hoDone;
#define HO(NAME, STORE, LOAD, CT) \
static void* ho_##NAME(void* p) { (void) p; while (LOAD(&mem, 256) == 0) {} hoDone = 1; return NULL; } \
static int run_ho_##NAME(void) { pthread_t th; int i; memset(mem.data + 256, 0, 8); hoDone = 0; \
  pthread_create(&th, NULL, ho_##NAME, NULL); usleep(3000); STORE(&mem, 256, (CT) 1); \
  for (i = 0; i < 3000 && !hoDone; i++) usleep(1000); \
  if (hoDone) { pthread_join(th, NULL); printf("ho_" #NAME " ok\n"); return 0; } \
  printf("ho_" #NAME " FAIL a thread spinning on " #LOAD " did not observe the value written by another thread's " #STORE " within 3 s (the load is not performed in every iteration: not an atomic access)\n"); return 1; }
HO(i32, i32_atomic_store, i32_atomic_load, U32)
HO(i64, i64_atomic_store, i64_atomic_load, U64)
HO(i32_8, i32_atomic_store8, i32_atomic_load8_u, U32)
HO(i64_8, i64_atomic_store8, i64_atomic_load8_u, U64)
HO(i32_16, i32_atomic_store16, i32_atomic_load16_u, U32)
HO(i64_16, i64_atomic_store16, i64_atomic_load16_u, U64)
HO(i64_32, i64_atomic_store32, i64_atomic_load32_u, U64)
SB(i32, i32_atomic_store, i32_atomic_load, U32)
SB(i64, i64_atomic_store, i64_atomic_load, U64)
SB(i32_16, i32_atomic_store16, i32_atomic_load16_u, U32)
SB(i64_8, i64_atomic_store8, i64_atomic_load8_u, U64)

int main(int argc, char** argv) {
  T = atoi(argv[1]); K = atoi(argv[2]);
  mem.data = calloc(1, 65536); mem.size = 65536; mem.pages = 1; mem.maxPages = 1; mem.shared = true;
  pthread_barrier_init(&bar, NULL, T);
@@RUNS@@
  sbRounds = argc > 3 ? atol(argv[3]) : 200000;
  run_sb_i32(0xffffffffu); run_sb_i64(~(U64) 0); run_sb_i32_16(0xffffu); run_sb_i64_8(0xffu);
  { int stuck = 0; stuck += run_ho_i32(); stuck += run_ho_i64(); stuck += run_ho_i32_8(); stuck += run_ho_i64_8();
    stuck += run_ho_i32_16(); stuck += run_ho_i64_16(); stuck += run_ho_i64_32(); fflush(stdout); if (stuck) _exit(0); }
  return 0;
}
'''

ADD = r'''
static void* w_@N@(void* p) { int k; (void) p; pthread_barrier_wait(&bar);
  for (k = 0; k < K; k++) (void) @N@(&mem, CELL, (@CT@) 1); return NULL; }
static void run_@N@(void) { pthread_t th[64]; int i; U64 fin = 0, exp;
  memset(mem.data + CELL, 0, 8); mem.data[CELL] = 7;
  for (i = 0; i < T; i++) pthread_create(&th[i], NULL, w_@N@, NULL);
  for (i = 0; i < T; i++) pthread_join(th[i], NULL);
  memcpy(&fin, mem.data + CELL, @W@); exp = (7 + (U64) T * (U64) K) & @MASK@;
  if (fin == exp) printf("@N@ ok\n"); else printf("@N@ FAIL final cell %llx, %d threads x %d adds of 1 on initial 7 require %llx\n", (unsigned long long) fin, T, K, (unsigned long long) exp); }
'''

CAS = r'''
static void* w_@N@(void* p) { Arg* a = (Arg*) p; int k = 0; pthread_barrier_wait(&bar);
  while (k < K) { @CT@ old = @LOAD@(&mem, CELL); @CT@ got = @N@(&mem, CELL, old, (@CT@) ((old + 1) & @MASK@));
    if (got == old) { a->seen[k++] = (U64) old; } }
  return NULL; }
static void run_@N@(void) { pthread_t th[64]; Arg args[64]; int i; U64 fin = 0, exp; U64* all = malloc(sizeof(U64) * T * K); long dup = 0, j;
  memset(mem.data + CELL, 0, 8);
  for (i = 0; i < T; i++) { args[i].id = i; args[i].seen = all + (size_t) i * K; pthread_create(&th[i], NULL, w_@N@, &args[i]); }
  for (i = 0; i < T; i++) pthread_join(th[i], NULL);
  memcpy(&fin, mem.data + CELL, @W@); exp = ((U64) T * (U64) K) & @MASK@;
  /* within one wrap of the cell every successful CAS must have seen a distinct old value */
  if ((U64) T * (U64) K <= @MASK@) { qsort(all, (size_t) T * K, sizeof(U64), cmpu64); for (j = 1; j < (long) T * K; j++) dup += all[j] == all[j - 1]; }
  if (fin == exp && dup == 0) printf("@N@ ok\n");
  else printf("@N@ FAIL final cell %llx after %d threads x %d successful CAS-increments from 0 (required %llx); %ld successful CASes saw an old value another successful CAS also saw\n",
              (unsigned long long) fin, T, K, (unsigned long long) exp, dup);
  free(all); }
'''

XCHG = r'''
static void* w_@N@(void* p) { Arg* a = (Arg*) p; int k; pthread_barrier_wait(&bar);
  for (k = 0; k < K; k++) a->seen[k] = (U64) @N@(&mem, CELL, (@CT@) ((1 + a->id * K + k) & @MASK@)); return NULL; }
static void run_@N@(void) { pthread_t th[64]; Arg args[64]; int i; U64 fin = 0, sum = 0, exp = 0; U64* all = malloc(sizeof(U64) * T * K); long j;
  memset(mem.data + CELL, 0, 8);
  for (i = 0; i < T; i++) { args[i].id = i; args[i].seen = all + (size_t) i * K; pthread_create(&th[i], NULL, w_@N@, &args[i]); }
  for (i = 0; i < T; i++) pthread_join(th[i], NULL);
  memcpy(&fin, mem.data + CELL, @W@);
  for (j = 0; j < (long) T * K; j++) { sum += all[j]; exp += (U64) ((1 + j) & @MASK@); }
  sum += fin;
  if (sum == exp) printf("@N@ ok\n"); else printf("@N@ FAIL returned values + final cell sum to %llx, the tokens written sum to %llx: a value was returned twice or never\n", (unsigned long long) sum, (unsigned long long) exp);
  free(all); }
'''

SHAPES = [("i32", "", 4), ("i64", "", 8), ("i32", "8", 1), ("i32", "16", 2), ("i64", "8", 1), ("i64", "16", 2), ("i64", "32", 4)]


def flavours():
    out = []
    for t, w, width in SHAPES:
        sfx = "_u" if w else ""
        ct = "U32" if t == "i32" else "U64"
        mask = "0x%xULL" % ((1 << (8 * width)) - 1)
        load = "%s_atomic_load%s%s" % (t, w, sfx)
        for op, tmpl in (("add", ADD), ("xchg", XCHG), ("cmpxchg", CAS)):
            name = "%s_atomic_rmw%s_%s%s" % (t, w, op, sfx)
            out.append((name, tmpl.replace("@N@", name).replace("@CT@", ct).replace("@W@", str(width)).replace("@MASK@", mask).replace("@LOAD@", load)))
    return out


def build(repo_copy, workdir, cc="gcc", copts=("-O2",)):
    fl = flavours()
    src = os.path.join(workdir, "atomic_stress.c")
    exe = os.path.join(workdir, "atomic_stress")
    open(src, "w").write(SRC.replace("@@WORKERS@@", "\n".join(b for _, b in fl)).replace("@@RUNS@@", "\n".join("  run_%s();" % n for n, _ in fl)))
    cmd = [cc] + list(copts) + ["-w", "-DWASM_THREADS_PTHREADS", "-pthread", "-I", os.path.join(repo_copy, "w2c2"), src, "-o", exe, "-lm"]
    p = subprocess.run(cmd, stdout=subprocess.PIPE, stderr=subprocess.PIPE, text=True)
    if p.returncode != 0:
        raise RuntimeError("atomic-stress build failed:\n" + p.stderr[-2000:])
    return exe


def run(exe, threads, iters, timeout=600, sb_rounds=200000):
    p = subprocess.run([exe, str(threads), str(iters), str(sb_rounds)], stdout=subprocess.PIPE, stderr=subprocess.PIPE, text=True, timeout=timeout)
    if p.returncode != 0:
        raise RuntimeError("atomic-stress died rc=%r: %s" % (p.returncode, p.stderr[-500:]))
    return [l.split(" ", 2) for l in p.stdout.splitlines()]
