"""const-e2e — constants through the WHOLE translator: a module whose functions (and global initialisers)
are single `t.const` instructions is hand-assembled (every LEB128 length: minimal encodings of boundary values
plus redundantly padded ones), translated by the REAL w2c2 (built from a scratch copy of /repo), compiled by a C
compiler, run, and the returned bit patterns compared with the constants.  Covers what the in-process
literal tie cannot: the reader's immediate decoding (leb128ReadI32/I64, bufferReadF32/F64) and the path from
the decoded immediate to wasmCWriteLiteral."""
import os
import struct
import subprocess

import opmods

T = {"i32": 0x7F, "i64": 0x7E, "f32": 0x7D, "f64": 0x7C}
OPC = {"i32": 0x41, "i64": 0x42, "f32": 0x43, "f64": 0x44}
CT = {"i32": "U32", "i64": "U64", "f32": "F32", "f64": "F64"}


def sleb(v, bits, pad=0):
    """signed LEB128 of the two's-complement `bits`-bit pattern v; `pad` extra redundant bytes (bounded by the maximal length)"""
    if v >= 1 << (bits - 1):
        v -= 1 << bits
    out = bytearray()
    while True:
        b = v & 0x7F
        v >>= 7
        done = (v == 0 and not (b & 0x40)) or (v == -1 and (b & 0x40))
        if done:
            out.append(b)
            break
        out.append(b | 0x80)
    maxlen = (bits + 6) // 7
    pad = min(pad, maxlen - len(out))
    if pad > 0:
        neg = bool(out[-1] & 0x40)
        out[-1] |= 0x80
        for k in range(pad):
            last = k == pad - 1
            out.append((0x7F if neg else 0x00) | (0 if last else 0x80))
    return bytes(out)


def imm(ty, bits_value, pad=0):
    if ty == "i32":
        return sleb(bits_value, 32, pad)
    if ty == "i64":
        return sleb(bits_value, 64, pad)
    if ty == "f32":
        return struct.pack("<I", bits_value)
    return struct.pack("<Q", bits_value)


def build_module(cases):
    """cases: [(ty, bits, pad)] -> wasm bytes: function k returns case k; global k (immutable) is initialised with case k
    and function n+k returns global k."""
    leb, vec, sec = opmods.leb, opmods.vec, opmods.sec
    n = len(cases)
    tys = ["i32", "i64", "f32", "f64"]
    types = vec([bytes([0x60, 0x00, 0x01, T[t]]) for t in tys])
    funcs = vec([leb(tys.index(c[0])) for c in cases] * 2)
    globs = vec([bytes([T[c[0]], 0x00, OPC[c[0]]]) + imm(c[0], c[1], c[2]) + b"\x0b" for c in cases])
    exports = vec([leb(len(nm)) + nm + bytes([0x00]) + leb(k) for k in range(2 * n) for nm in [("c%d" % k).encode()]])
    bodies = []
    for c in cases:
        b = b"\x00" + bytes([OPC[c[0]]]) + imm(c[0], c[1], c[2]) + b"\x0b"
        bodies.append(leb(len(b)) + b)
    for k in range(n):
        b = b"\x00" + b"\x23" + leb(k) + b"\x0b"
        bodies.append(leb(len(b)) + b)
    code = vec(bodies)
    return b"\x00asm\x01\x00\x00\x00" + sec(1, types) + sec(3, funcs) + sec(6, globs) + sec(7, exports) + sec(10, code)


MAIN = r'''
#include <stdio.h>
#include <string.h>
#include "w2c2_base.h"
#include "k.h"
void trap(Trap t) { printf("trap %d\n", (int)t); fflush(stdout); _exit(3); }
static void* resolve(const char* m, const char* n) { (void)m; (void)n; return NULL; }
static kInstance inst;
int main(void) {
  kInstantiate(&inst, resolve);
@@CALLS@@
  return 0;
}
'''


def translate(workdir, cases, w2c2_exe, tag="k", env=None):
    """Run the real w2c2 on the constants module, optionally under a COMPLETE replacement environment `env`
    (locale / TZ experiments).  -> (directory, emitted C text, header text)"""
    d = os.path.join(workdir, "const_" + tag)
    os.makedirs(d, exist_ok=True)
    open(os.path.join(d, "k.wasm"), "wb").write(build_module(cases))
    p = subprocess.run([w2c2_exe, "k.wasm", "k.c"], cwd=d, stdout=subprocess.PIPE, stderr=subprocess.PIPE, text=True, timeout=300, env=env)
    if p.returncode != 0:
        raise RuntimeError("w2c2 failed on the constants module: " + p.stderr[-500:])
    return d, open(os.path.join(d, "k.c")).read(), open(os.path.join(d, "k.h")).read()


def run(repo_copy, workdir, cases, cc="gcc", copts=("-O1",), w2c2_exe=None, tag="k", env=None):
    """-> (list of returned bit patterns (function, then via global) per case, emitted C text).  `env`: environment of the
    TRANSLATOR run only (the compiler and the compiled program run in the check's own environment)."""
    w2c2_exe = w2c2_exe or opmods.build_w2c2(repo_copy, workdir)
    d, _, _ = translate(workdir, cases, w2c2_exe, tag, env)
    n = len(cases)
    calls = []
    for k in range(2 * n):
        ty = cases[k % n][0]
        if ty == "i32":
            calls.append('  printf("%%x\\n", (unsigned) k_c%d(&inst));' % k)
        elif ty == "i64":
            calls.append('  printf("%%llx\\n", (unsigned long long) k_c%d(&inst));' % k)
        elif ty == "f32":
            calls.append('  { F32 v = k_c%d(&inst); U32 b; memcpy(&b, &v, 4); printf("%%x\\n", (unsigned) b); }' % k)
        else:
            calls.append('  { F64 v = k_c%d(&inst); U64 b; memcpy(&b, &v, 8); printf("%%llx\\n", (unsigned long long) b); }' % k)
    open(os.path.join(d, "main.c"), "w").write("#include <unistd.h>\n" + MAIN.replace("@@CALLS@@", "\n".join(calls)))
    exe = os.path.join(d, "k_" + cc)
    q = subprocess.run([cc] + list(copts) + ["-I", os.path.join(repo_copy, "w2c2"), "-I", d, os.path.join(d, "main.c"), os.path.join(d, "k.c"),
                                             "-o", exe, "-lm"], stdout=subprocess.PIPE, stderr=subprocess.PIPE, text=True, timeout=900)
    if q.returncode != 0:
        raise RuntimeError("compiling the translated constants module failed: " + q.stderr[-800:])
    r = subprocess.run([exe], stdout=subprocess.PIPE, stderr=subprocess.PIPE, text=True, timeout=300)
    out = r.stdout.split()
    if len(out) != 2 * n:
        raise RuntimeError(f"constants module answered {len(out)} of {2 * n} (rc={r.returncode}) {r.stderr[-300:]}")
    return [int(x, 16) for x in out], open(os.path.join(d, "k.c")).read()


# ----------------------------------------------------------------------------------------------------------------------
# constants-heavy MULTI-FILE module: every function returns the XOR of the bit patterns of its (many) constants, so ONE
# damaged literal anywhere in any implementation file changes a checksum (seeded changes C07/6 = C09/5: a static scratch
# buffer in the f64 formatter, raced on by the worker threads when several implementation files are written).

def xor_module(nf, nc, seed):
    """-> (wasm bytes, [expected i64 of function k], [[(type, bits)] per function])"""
    import random
    rng = random.Random("xor-consts:%s" % seed)
    leb, vec, sec = opmods.leb, opmods.vec, opmods.sec
    types = vec([bytes([0x60, 0x00, 0x01, T["i64"]])])
    funcs = vec([leb(0)] * nf)
    exports = vec([leb(len(nm)) + nm + b"\x00" + leb(k) for k in range(nf) for nm in [b"c%d" % k]])
    bodies, expect, consts = [], [], []
    for k in range(nf):
        b = bytearray(b"\x00\x42\x00")                     # no locals; i64.const 0
        acc = 0
        cs = []
        for j in range(nc):
            w = (k + j) % 10
            if w < 7:                                        # f64 (finite, long digit strings; now and then a special value)
                if rng.random() < 0.02:
                    bits = rng.choice([0x7ff8000000000001, 0xfff0000000000000, 0x8000000000000000, 0x0000000000000001, 0x7fefffffffffffff])
                else:
                    bits = (rng.getrandbits(1) << 63) | (rng.randrange(1, 2046) << 52) | rng.getrandbits(52)
                b += b"\x44" + struct.pack("<Q", bits) + b"\xbd\x85"
                acc ^= bits
                cs.append(("f64", bits))
            elif w < 9:                                      # f32
                bits = (rng.getrandbits(1) << 31) | (rng.randrange(1, 254) << 23) | rng.getrandbits(23)
                b += b"\x43" + struct.pack("<I", bits) + b"\xbc\xad\x85"
                acc ^= bits
                cs.append(("f32", bits))
            else:                                            # i64
                bits = rng.getrandbits(rng.randrange(1, 65))
                b += b"\x42" + sleb(bits, 64) + b"\x85"
                acc ^= bits
                cs.append(("i64", bits))
        b += b"\x0b"
        bodies.append(leb(len(b)) + bytes(b))
        expect.append(acc)
        consts.append(cs)
    wasm = b"\x00asm\x01\x00\x00\x00" + sec(1, types) + sec(3, funcs) + sec(7, exports) + sec(10, vec(bodies))
    return wasm, expect, consts


def translate_files(workdir, wasm, w2c2_exe, tag, opts, env=None, timeout=300):
    """real w2c2 `opts` on the module -> (directory, rc, {file name: bytes} of the .c/.h files written)"""
    d = os.path.join(workdir, "xor_" + tag)
    if os.path.isdir(d):
        import shutil
        shutil.rmtree(d)
    os.makedirs(d)
    open(os.path.join(d, "k.wasm"), "wb").write(wasm)
    p = subprocess.run([w2c2_exe] + list(opts) + ["k.wasm", "k.c"], cwd=d, stdout=subprocess.PIPE, stderr=subprocess.PIPE, timeout=timeout, env=env)
    files = {f: open(os.path.join(d, f), "rb").read() for f in sorted(os.listdir(d)) if f.endswith(".c") or f.endswith(".h")}
    return d, p.returncode, files


def run_checksums(repo_copy, d, nf, cc="gcc", copts=("-O0",)):
    """compile EVERY .c file of the translated module in `d` + a driver, run, -> [i64 returned by c<k>] (raises RuntimeError with
    the compiler's message when the output does not compile)"""
    calls = "\n".join('  printf("%%llx\\n", (unsigned long long) k_c%d(&inst));' % k for k in range(nf))
    open(os.path.join(d, "xmain.c"), "w").write("#include <unistd.h>\n" + MAIN.replace("@@CALLS@@", calls))
    srcs = [os.path.join(d, f) for f in sorted(os.listdir(d)) if f.endswith(".c")]
    exe = os.path.join(d, "xk")
    q = subprocess.run([cc] + list(copts) + ["-w", "-I", os.path.join(repo_copy, "w2c2"), "-I", d] + srcs + ["-o", exe, "-lm"],
                       stdout=subprocess.PIPE, stderr=subprocess.PIPE, text=True, timeout=1800)
    if q.returncode != 0:
        raise RuntimeError("the translated constants module does not compile: " + " | ".join(l for l in q.stderr.splitlines() if "error" in l)[:600])
    r = subprocess.run([exe], stdout=subprocess.PIPE, stderr=subprocess.PIPE, text=True, timeout=300)
    out = r.stdout.split()
    if len(out) != nf:
        raise RuntimeError(f"constants module answered {len(out)} of {nf} (rc={r.returncode}) {r.stderr[-300:]}")
    return [int(x, 16) for x in out]


# ----------------------------------------------------------------------------------------------------------------------
# constant expressions in EVERY position that consumes their literal: besides function bodies and global initialisers
# (above; the literal is assigned to a U32/U64/F32/F64 lvalue) the offset of an ACTIVE DATA SEGMENT — `LOAD_DATA(mem, <literal>,
# seg, len)` uses the literal as an array index, where its C type (signedness, width) matters — and the offset of an element
# segment (`offset = <literal>;`).  Offsets with the top bit set need a memory of more than 32768 pages: the module declares 32769
# pages (calloc'ed by the runtime, so only the pages touched are backed); NOTHING dumps or hashes that memory — the segments are read
# back through an exported i32.load in small windows around each offset (seeded C07/12: `U` dropped after negative i32 literals,
# the segment is copied 2 GiB below the memory).  A fault / trap while instantiating is an answer.

POS_PAGES = 0x8001
POS_TABLE = 70000
POS_MEM_BYTES = POS_PAGES * 65536


def positions_plan(rng, n_random=6):
    """-> (data segments [(offset bits, 4 tag bytes, pad)], element segments [(offset, pad)])"""
    offs = [0x10, 0xFFFC, 0x10000, 0x7FFFFFF0, 0x7FFFFFFC, 0x80000000, 0x80000010, 0x80008000, POS_MEM_BYTES - 4]
    while len(offs) < 9 + n_random:
        o = rng.randrange(0x80000000, POS_MEM_BYTES - 4) & ~3 if rng.random() < 0.7 else rng.randrange(0x100, 0x7FFFFFF0) & ~3
        if all(abs(o - p) >= 16 for p in offs):
            offs.append(o)
    data = [(o, struct.pack("<I", 0xA5000000 | (0x5A5A5A ^ (k * 0x010203 + 0x11))), (k % 3) and (k % 5)) for k, o in enumerate(offs)]
    elems = [(o, k % 4) for k, o in enumerate([0, 1, 0x7F, 0x80, 0x3FFF, 0x4000, 0xFFFF, 0x10000, POS_TABLE - 1])]
    return data, elems


def positions_module(data, elems):
    """memory of POS_PAGES pages; table of POS_TABLE funcrefs; one active data segment per `data` entry (i32.const offset, LEB padded);
    one element segment per `elems` entry holding function 3+k (returns 1000+k); exports peek(addr)=i32.load, calli(i)=call_indirect,
    size()=memory.size"""
    leb, vec, sec = opmods.leb, opmods.vec, opmods.sec
    I32 = 0x7F
    types = vec([bytes([0x60, 0x01, I32, 0x01, I32]), bytes([0x60, 0x00, 0x01, I32])])
    nfun = 3 + len(elems)
    funcs = vec([leb(0), leb(0), leb(1)] + [leb(1)] * len(elems))
    table = vec([bytes([0x70, 0x00]) + leb(POS_TABLE)])
    memory = vec([bytes([0x00]) + leb(POS_PAGES)])
    exports = vec([leb(len(nm)) + nm + bytes([0x00]) + leb(k) for k, nm in enumerate([b"peek", b"calli", b"size"])])
    elem = vec([bytes([0x00, 0x41]) + sleb(o, 32, pad) + b"\x0b" + vec([leb(3 + k)]) for k, (o, pad) in enumerate(elems)])
    bodies = [bytes([0x00, 0x20, 0x00, 0x28, 0x02, 0x00, 0x0B]),                    # local.get 0; i32.load
              bytes([0x00, 0x20, 0x00, 0x11, 0x01, 0x00, 0x0B]),                    # local.get 0; call_indirect (type 1) table 0
              bytes([0x00, 0x3F, 0x00, 0x0B])]                                      # memory.size
    bodies += [b"\x00\x41" + sleb(1000 + k, 32) + b"\x0b" for k in range(len(elems))]
    code = vec([leb(len(b)) + b for b in bodies])
    dsec = vec([bytes([0x00, 0x41]) + sleb(o, 32, pad) + b"\x0b" + leb(len(b)) + b for o, b, pad in data])
    assert nfun == len(bodies)
    return (b"\x00asm\x01\x00\x00\x00" + sec(1, types) + sec(3, funcs) + sec(4, table) + sec(5, memory) + sec(7, exports)
            + sec(9, elem) + sec(10, code) + sec(11, dsec))


def positions_calls(data, elems):
    """[(export, argument, expected i32, what)] — the segment's word at its offset, zero just below and above it"""
    calls = [("size", None, POS_PAGES, "memory.size")]
    taken = {o for o, _, _ in data}
    for o, b, _ in data:
        calls.append(("peek", o, struct.unpack("<I", b)[0], f"data segment with offset {o:#x}: i32.load at {o:#x}"))
        for a in (o - 4, o + 4):
            if 0 <= a <= POS_MEM_BYTES - 4 and a not in taken:
                calls.append(("peek", a, 0, f"untouched word next to the data segment with offset {o:#x}: i32.load at {a:#x}"))
    for k, (o, _) in enumerate(elems):
        calls.append(("calli", o, 1000 + k, f"element segment with offset {o:#x}: call_indirect {o:#x}"))
    return calls


POS_MAIN = r'''
#include <stdio.h>
#include <string.h>
#include <signal.h>
#include <unistd.h>
#include "w2c2_base.h"
#include "p.h"
static const char* phase = "instantiate";
void trap(Trap t) { printf("trap %s %d\n", phase, (int)t); fflush(stdout); _exit(0); }
static void fault(int sig) { char b[96]; int n = snprintf(b, sizeof b, "fault %s signal %d\n", phase, sig); fflush(stdout); (void)!write(1, b, n); _exit(0); }
static void* resolve(const char* m, const char* n) { (void)m; (void)n; return NULL; }
static pInstance inst;
int main(void) {
  signal(SIGSEGV, fault); signal(SIGBUS, fault);
  pInstantiate(&inst, resolve);
  printf("instantiated\n"); fflush(stdout);
@@CALLS@@
  return 0;
}
'''


def positions_run(repo_copy, workdir, data, elems, w2c2_exe, cc="gcc", copts=("-O1",), w2c2_opts=(), tag="p"):
    """-> (answers: ['instantiated' | 'fault …' | 'trap …', then one value/trap/fault line per call], LOAD_DATA lines of the emitted C)"""
    d = os.path.join(workdir, "constpos_" + tag)
    os.makedirs(d, exist_ok=True)
    wasm = positions_module(data, elems)
    open(os.path.join(d, "p.wasm"), "wb").write(wasm)
    p = subprocess.run([w2c2_exe] + list(w2c2_opts) + ["p.wasm", "p.c"], cwd=d, stdout=subprocess.PIPE, stderr=subprocess.PIPE, text=True, timeout=300)
    if p.returncode != 0:
        raise RuntimeError("w2c2 failed on the constant-positions module: " + p.stderr[-500:])
    calls = positions_calls(data, elems)
    lines = []
    for k, (fn, arg, _, _) in enumerate(calls):
        lines.append('  phase = "call %d"; printf("%%x\\n", (unsigned) p_%s(&inst%s)); fflush(stdout);' % (k, fn, "" if arg is None else ", %uU" % arg))
    open(os.path.join(d, "main.c"), "w").write(POS_MAIN.replace("@@CALLS@@", "\n".join(lines)))
    exe = os.path.join(d, "p_" + cc)
    q = subprocess.run([cc] + list(copts) + ["-I", os.path.join(repo_copy, "w2c2"), "-I", d, os.path.join(d, "main.c"), os.path.join(d, "p.c"), "-lm", "-o", exe],
                       stdout=subprocess.PIPE, stderr=subprocess.PIPE, text=True, timeout=600)
    if q.returncode != 0:
        raise RuntimeError("compiling the translated constant-positions module failed: " + q.stderr[-800:])
    r = subprocess.run([exe], stdout=subprocess.PIPE, stderr=subprocess.PIPE, text=True, timeout=120)
    out = r.stdout.splitlines()
    if r.returncode != 0 and not any(l.startswith(("fault", "trap")) for l in out):
        out.append(f"fault {'instantiate' if not out else 'call %d' % (len(out) - 1)} exit status {r.returncode}")
    ctext = open(os.path.join(d, "p.c")).read()
    return out, [l.strip() for l in ctext.splitlines() if "LOAD_DATA(" in l or l.strip().startswith("offset=") or l.strip().startswith("offset =")], wasm


def positions_judge(data, elems, out):
    """-> [(what, expected, got)] for every call whose answer differs (a fault / trap ends the list: nothing after it ran)"""
    calls = positions_calls(data, elems)
    bad = []
    if not out or out[0] != "instantiated":
        return [("instantiation (loading the data and element segments)", "instantiated", out[0] if out else "no answer")]
    for k, (fn, arg, want, what) in enumerate(calls):
        got = out[1 + k] if 1 + k < len(out) else "no answer"
        if got != "%x" % want:
            bad.append((what, "%#x" % want, got if got.startswith(("fault", "trap", "no ")) else "0x" + got))
            if got.startswith(("fault", "trap", "no ")):
                break
    return bad


def positions_v8(data, elems):
    """the same calls in V8 (oracle for the expectations built into positions_calls) -> list of mismatches"""
    from wasmgen import v8
    calls = positions_calls(data, elems)
    res = v8.run(positions_module(data, elems), [(fn.encode(), [] if arg is None else [("i32", arg)]) for fn, arg, _, _ in calls], timeout=60.0)
    if res.instantiate != ("ok",):
        return [("instantiate", res.instantiate)]
    return [(what, want, r) for (fn, arg, want, what), r in zip(calls, res.results) if r != ("val", [("i32", want)])]
