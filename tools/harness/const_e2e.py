"""const-e2e — constants through the WHOLE translator: a module whose functions (and global initialisers)
are single `t.const` instructions is hand-assembled (every LEB128 length: minimal encodings of boundary values
plus redundantly padded ones), translated by the REAL w2c2 (built from a scratch copy of /repo), compiled by a C
compiler, run, and the returned bit patterns compared with the constants.  Covers what the in-process
literal tie cannot: the reader's immediate decoding (leb128ReadI32/I64, bufferReadF32/F64) and the path from
the decoded immediate to wasmCWriteLiteral."""
import os
import struct
import subprocess

import opmods

T = {"i32": 0x7F, "i64": 0x7E, "f32": 0x7D, "f64": 0x7C}
OPC = {"i32": 0x41, "i64": 0x42, "f32": 0x43, "f64": 0x44}
CT = {"i32": "U32", "i64": "U64", "f32": "F32", "f64": "F64"}


def sleb(v, bits, pad=0):
    """signed LEB128 of the two's-complement `bits`-bit pattern v; `pad` extra redundant bytes (bounded by the maximal length)"""
    if v >= 1 << (bits - 1):
        v -= 1 << bits
    out = bytearray()
    while True:
        b = v & 0x7F
        v >>= 7
        done = (v == 0 and not (b & 0x40)) or (v == -1 and (b & 0x40))
        if done:
            out.append(b)
            break
        out.append(b | 0x80)
    maxlen = (bits + 6) // 7
    pad = min(pad, maxlen - len(out))
    if pad > 0:
        neg = bool(out[-1] & 0x40)
        out[-1] |= 0x80
        for k in range(pad):
            last = k == pad - 1
            out.append((0x7F if neg else 0x00) | (0 if last else 0x80))
    return bytes(out)


def imm(ty, bits_value, pad=0):
    if ty == "i32":
        return sleb(bits_value, 32, pad)
    if ty == "i64":
        return sleb(bits_value, 64, pad)
    if ty == "f32":
        return struct.pack("<I", bits_value)
    return struct.pack("<Q", bits_value)


def build_module(cases):
    """cases: [(ty, bits, pad)] -> wasm bytes: function k returns case k; global k (immutable) is initialised with case k
    and function n+k returns global k."""
    leb, vec, sec = opmods.leb, opmods.vec, opmods.sec
    n = len(cases)
    tys = ["i32", "i64", "f32", "f64"]
    types = vec([bytes([0x60, 0x00, 0x01, T[t]]) for t in tys])
    funcs = vec([leb(tys.index(c[0])) for c in cases] * 2)
    globs = vec([bytes([T[c[0]], 0x00, OPC[c[0]]]) + imm(c[0], c[1], c[2]) + b"\x0b" for c in cases])
    exports = vec([leb(len(nm)) + nm + bytes([0x00]) + leb(k) for k in range(2 * n) for nm in [("c%d" % k).encode()]])
    bodies = []
    for c in cases:
        b = b"\x00" + bytes([OPC[c[0]]]) + imm(c[0], c[1], c[2]) + b"\x0b"
        bodies.append(leb(len(b)) + b)
    for k in range(n):
        b = b"\x00" + b"\x23" + leb(k) + b"\x0b"
        bodies.append(leb(len(b)) + b)
    code = vec(bodies)
    return b"\x00asm\x01\x00\x00\x00" + sec(1, types) + sec(3, funcs) + sec(6, globs) + sec(7, exports) + sec(10, code)


MAIN = r'''
#include <stdio.h>
#include <string.h>
#include "w2c2_base.h"
#include "k.h"
void trap(Trap t) { printf("trap %d\n", (int)t); fflush(stdout); _exit(3); }
static void* resolve(const char* m, const char* n) { (void)m; (void)n; return NULL; }
static kInstance inst;
int main(void) {
  kInstantiate(&inst, resolve);
@@CALLS@@
  return 0;
}
'''


def translate(workdir, cases, w2c2_exe, tag="k", env=None):
    """Run the real w2c2 on the constants module, optionally under a COMPLETE replacement environment `env`
    (locale / TZ experiments).  -> (directory, emitted C text, header text)"""
    d = os.path.join(workdir, "const_" + tag)
    os.makedirs(d, exist_ok=True)
    open(os.path.join(d, "k.wasm"), "wb").write(build_module(cases))
    p = subprocess.run([w2c2_exe, "k.wasm", "k.c"], cwd=d, stdout=subprocess.PIPE, stderr=subprocess.PIPE, text=True, timeout=300, env=env)
    if p.returncode != 0:
        raise RuntimeError("w2c2 failed on the constants module: " + p.stderr[-500:])
    return d, open(os.path.join(d, "k.c")).read(), open(os.path.join(d, "k.h")).read()


def run(repo_copy, workdir, cases, cc="gcc", copts=("-O1",), w2c2_exe=None, tag="k", env=None):
    """-> (list of returned bit patterns (function, then via global) per case, emitted C text).  `env`: environment of the
    TRANSLATOR run only (the compiler and the compiled program run in the check's own environment)."""
    w2c2_exe = w2c2_exe or opmods.build_w2c2(repo_copy, workdir)
    d, _, _ = translate(workdir, cases, w2c2_exe, tag, env)
    n = len(cases)
    calls = []
    for k in range(2 * n):
        ty = cases[k % n][0]
        if ty == "i32":
            calls.append('  printf("%%x\\n", (unsigned) k_c%d(&inst));' % k)
        elif ty == "i64":
            calls.append('  printf("%%llx\\n", (unsigned long long) k_c%d(&inst));' % k)
        elif ty == "f32":
            calls.append('  { F32 v = k_c%d(&inst); U32 b; memcpy(&b, &v, 4); printf("%%x\\n", (unsigned) b); }' % k)
        else:
            calls.append('  { F64 v = k_c%d(&inst); U64 b; memcpy(&b, &v, 8); printf("%%llx\\n", (unsigned long long) b); }' % k)
    open(os.path.join(d, "main.c"), "w").write("#include <unistd.h>\n" + MAIN.replace("@@CALLS@@", "\n".join(calls)))
    exe = os.path.join(d, "k_" + cc)
    q = subprocess.run([cc] + list(copts) + ["-I", os.path.join(repo_copy, "w2c2"), "-I", d, os.path.join(d, "main.c"), os.path.join(d, "k.c"),
                                             "-o", exe, "-lm"], stdout=subprocess.PIPE, stderr=subprocess.PIPE, text=True, timeout=900)
    if q.returncode != 0:
        raise RuntimeError("compiling the translated constants module failed: " + q.stderr[-800:])
    r = subprocess.run([exe], stdout=subprocess.PIPE, stderr=subprocess.PIPE, text=True, timeout=300)
    out = r.stdout.split()
    if len(out) != 2 * n:
        raise RuntimeError(f"constants module answered {len(out)} of {2 * n} (rc={r.returncode}) {r.stderr[-300:]}")
    return [int(x, 16) for x in out], open(os.path.join(d, "k.c")).read()
