/* futex_endian.c — the REAL futex.c/list.c/map.c + w2c2_base.h (-DWASM_THREADS_PTHREADS), built once little-endian and once with
 * -DWASM_ENDIAN=WASM_BIG_ENDIAN forced on this host (the technique of C19).  Cells are written through the build's OWN store
 * accessors, then memory.atomic.wait32/wait64 (timeout 0) and notify are called; both builds must answer alike.
 * stdin:   w <wait64:0|1> <addr> <cell hex> <expected hex>      -> <wait result>
 *          n <wait64:0|1> <addr> <cell hex>                      -> <notify result> <waiter result>   (one waiter thread, real time)
 */
#include <pthread.h>
#include <stdio.h>
#include <stdlib.h>
#include <string.h>
#include <time.h>
#include "w2c2_base.h"

void trap(Trap t) { printf("trap %d\n", (int)t); fflush(stdout); _Exit(3); }

static wasmMemory mem;
typedef struct { int w64; U32 addr; U64 expect; U32 ret; } warg;
static void *waiter(void *p) { warg *a = p; a->ret = wasmMemoryAtomicWait(&mem, a->addr, a->expect, 3000000000ll, a->w64 ? true : false); return NULL; }

int main(void) {
    char kind[8];
    mem.data = calloc(65536, 1);
    mem.size = 65536; mem.pages = 1; mem.maxPages = 1; mem.shared = true;
    if (!WASM_MUTEX_INIT(&mem.mutex)) return 2;
    while (scanf("%7s", kind) == 1) {
        int w64; unsigned addr; unsigned long long cell, expect;
        if (!strcmp(kind, "w")) {
            if (scanf("%d %u %llx %llx", &w64, &addr, &cell, &expect) != 4) return 2;
            if (w64) i64_store(&mem, addr, cell); else i32_store(&mem, addr, (U32)cell);
            printf("%u\n", wasmMemoryAtomicWait(&mem, addr, expect, 0, w64 ? true : false));
        } else if (!strcmp(kind, "n")) {
            warg a; pthread_t th; U32 n = 0; int i;
            if (scanf("%d %u %llx", &w64, &addr, &cell) != 3) return 2;
            if (w64) i64_store(&mem, addr, cell); else i32_store(&mem, addr, (U32)cell);
            a.w64 = w64; a.addr = addr; a.expect = cell; a.ret = 99;
            pthread_create(&th, NULL, waiter, &a);
            for (i = 0; i < 200 && n == 0; i++) {
                struct timespec ts; ts.tv_sec = 0; ts.tv_nsec = 5000000L; nanosleep(&ts, NULL);
                n = wasmMemoryAtomicNotify(&mem, addr, 1);
            }
            pthread_join(th, NULL);
            printf("%u %u\n", n, a.ret);
        } else return 2;
        fflush(stdout);
    }
    return 0;
}
