/* wasi_paths.c — real side of the C14/C15 correspondences.
 *
 * #includes the REAL wasi/wasi.c of the scratch copy of /repo (so statics such as wasiFDReaddir
 * and the `wasi` state are reachable) and answers one request line with one answer line, the
 * same requests the Lean `pathsdriver` answers.  Built with -fsanitize=address,undefined
 * -fno-sanitize-recover: an over-read / overflow / signed overflow in the real code kills the
 * process with a sanitizer report (the Python side records it and restarts after that line).
 *
 * Guest memory is one malloc'ed object of exactly the requested size; guest paths and
 * buffers are placed at its very END (no NUL terminator, nothing behind them).
 */
#define _GNU_SOURCE 1
#include <stdio.h>
#include <stdlib.h>
#include <string.h>
#include <stdint.h>
#include <time.h>
#include <unistd.h>
#include <errno.h>
#include <dirent.h>
#include <pthread.h>
#include <sys/types.h>
#include <sys/stat.h>
#include <sys/wait.h>
#include <limits.h>

/* ---- interposed host clock (exact-value tie for clock_time_get) ---- */
static int h_clock_fake = 0, h_clock_fail = 0;
static long long h_clock_sec = 0, h_clock_nsec = 0;
static int h_clock_lastid = -1, h_clock_calls = 0;
static int harness_clock_gettime(clockid_t id, struct timespec* ts) {
    h_clock_lastid = (int)id;
    h_clock_calls++;
    if (!h_clock_fake) return clock_gettime(id, ts);
    if (h_clock_fail) { errno = h_clock_fail; return -1; }
    ts->tv_sec = (time_t)h_clock_sec;
    ts->tv_nsec = (long)h_clock_nsec;
    return 0;
}
/* ---- interposed gettimeofday / getrusage (the fallback-timer configuration -DWASI_FALLBACK_TIMERS_ENABLED=1) ---- */
#include <sys/time.h>
#include <sys/resource.h>
static int h_tv_fake = 0; static long long h_tv_sec = 0, h_tv_usec = 0; static const char* h_tv_last = "none"; static int h_tv_calls = 0;
static int harness_gettimeofday(struct timeval* tv, void* tz) {
    h_tv_last = "gettimeofday"; h_tv_calls++;
    if (!h_tv_fake) return gettimeofday(tv, tz);
    tv->tv_sec = (time_t)h_tv_sec; tv->tv_usec = (suseconds_t)h_tv_usec;
    return 0;
}
static int harness_getrusage(int who, struct rusage* ru) {
    h_tv_last = "getrusage"; h_tv_calls++;
    if (!h_tv_fake) return getrusage(who, ru);
    memset(ru, 0, sizeof *ru);
    ru->ru_utime.tv_sec = (time_t)h_tv_sec; ru->ru_utime.tv_usec = (suseconds_t)h_tv_usec;   /* system time 0 */
    return 0;
}

/* ---- schedule control for thread-spawn: "the new thread runs to completion before pthread_create returns"
 * (a legal schedule): the thread has then freed its ThreadStartArg block; ASan reports any later read of it ---- */
static int h_child_first = 0;
static int harness_pthread_create(pthread_t* t, const pthread_attr_t* a, void* (*f)(void*), void* arg) {
    int r = pthread_create(t, a, f, arg);
    if (r == 0 && h_child_first) pthread_join(*t, NULL);
    return r;
}
#define clock_gettime harness_clock_gettime
#define gettimeofday harness_gettimeofday
#define getrusage harness_getrusage
#define pthread_create harness_pthread_create
#include "wasi.c"
#undef clock_gettime
#undef gettimeofday
#undef getrusage
#undef pthread_create
#ifndef WASI_FALLBACK_TIMERS_ENABLED
#define WASI_FALLBACK_TIMERS_ENABLED 0
#endif

static wasmMemory gmem;
wasmMemory* wasiMemory(void* instance) { (void)instance; return &gmem; }

static void mem_new(size_t n, int fill) {
    gmem.data = (U8*)malloc(n ? n : 1);
    if (n) memset(gmem.data, fill, n);
    gmem.size = (U32)n;
    gmem.pages = 0; gmem.maxPages = 0; gmem.shared = false;
}
static void mem_free(void) { free(gmem.data); gmem.data = NULL; }

/* ---- helpers ---- */
static int hexval(int c) {
    if (c >= '0' && c <= '9') return c - '0';
    if (c >= 'a' && c <= 'f') return c - 'a' + 10;
    if (c >= 'A' && c <= 'F') return c - 'A' + 10;
    return -1;
}
/* decode hex ("-" = empty) into a malloc'ed buffer of EXACTLY n bytes (+extra zero bytes if asked) */
static unsigned char* unhex(const char* s, size_t* n, size_t extra) {
    size_t l = strcmp(s, "-") == 0 ? 0 : strlen(s) / 2, i;
    unsigned char* b = (unsigned char*)malloc(l + extra ? l + extra : 1);
    for (i = 0; i < l; i++) b[i] = (unsigned char)(hexval(s[2*i]) * 16 + hexval(s[2*i+1]));
    for (i = 0; i < extra; i++) b[l + i] = 0;
    *n = l;
    return b;
}
static void puthex(const unsigned char* b, size_t n) {
    size_t i;
    if (n == 0) { putchar('-'); return; }
    for (i = 0; i < n; i++) printf("%02x", b[i]);
}
static uint32_t fnv(const unsigned char* b, size_t n) {
    uint32_t h = 2166136261u; size_t i;
    for (i = 0; i < n; i++) { h ^= b[i]; h *= 16777619u; }
    return h;
}

/* synthetic directory / path of the `rps` sweep (the same formulas are in Driver/PathsMain.lean) */
static void synth_dir(unsigned char* d, size_t n, int dslash) {
    size_t i;
    for (i = 0; i < n; i++) d[i] = i == 0 ? '/' : (unsigned char)('a' + (i % 26));
    if (n > 0) {
        if (dslash) d[n-1] = '/';
        else if (d[n-1] == '/') d[n-1] = 'd';
    }
}
static void synth_path(unsigned char* p, size_t n, int isabs, unsigned long seed) {
    size_t i;
    for (i = 0; i < n; i++) {
        p[i] = (unsigned char)(((i * 131 + seed * 31 + (i >> 8)) % 251) + 1);
    }
    if (n > 0) {
        if (isabs) p[0] = '/';
        else if (p[0] == '/') p[0] = '.';
        if (seed % 4 == 3 && n >= 2) p[n/2] = 0;
    }
}

static void do_resolve(unsigned char* dirbuf, size_t dlen, unsigned char* avail, size_t alen, unsigned long len, int summary) {
    /* dirbuf: exactly dlen+1 bytes (NUL-terminated); avail: the guest bytes from the pointer to the END of memory */
    size_t msize = 64 + alen;
    char* result = (char*)malloc(PATH_MAX);
    bool ok;
    memset(result, 0xAA, PATH_MAX);
    mem_new(msize, 0xAA);
    memcpy(gmem.data + 64, avail, alen);
    ok = resolvePath((char*)dirbuf, (char*)gmem.data + 64, (U32)len, result);
    if (!ok) printf("none\n");
    else {
        size_t n = strnlen(result, PATH_MAX);
        if (n == PATH_MAX) printf("unterminated\n");
        else if (summary) printf("some %lu %08x\n", (unsigned long)n, fnv((unsigned char*)result, n));
        else { printf("some "); puthex((unsigned char*)result, n); printf("\n"); }
    }
    (void)dlen;
    mem_free();
    free(result);
}

/* ---- thread-spawn stub instance ---- */
typedef struct StubInstance {
    wasmModuleInstance common;
    struct StubInstance* parent;
    wasmMemory* sharedMem;
} StubInstance;
static pthread_mutex_t startLock = PTHREAD_MUTEX_INITIALIZER;
static struct { U32 tid; U32 arg; int childOk; } starts[4096];
static int nStarts = 0, nChildren = 0;
static wasmMemory stubShared;
static wasmModuleInstance* stubNewChild(wasmModuleInstance* self) {
    StubInstance* c = (StubInstance*)calloc(1, sizeof(StubInstance));
    c->common = *self;
    c->parent = (StubInstance*)self;
    c->sharedMem = ((StubInstance*)self)->sharedMem;
    pthread_mutex_lock(&startLock); nChildren++; pthread_mutex_unlock(&startLock);
    return &c->common;
}
static void stubThreadStart(void* instance, U32 tid, U32 arg) {
    StubInstance* c = (StubInstance*)instance;
    pthread_mutex_lock(&startLock);
    if (nStarts < 4096) {
        starts[nStarts].tid = tid; starts[nStarts].arg = arg;
        starts[nStarts].childOk = c->parent != NULL && c->parent->parent == NULL && c->sharedMem == &stubShared;
        nStarts++;
    }
    pthread_mutex_unlock(&startLock);
}
static void stubOther(void* instance) { (void)instance; }

/* spawnx: every candidate export has its own entry function that records WHICH export ran */
static struct { int idx; U32 tid; U32 arg; int childOk; void* parent; void* mem; } xruns[4096];
static int nXruns = 0;
static void xrecord(int idx, void* instance, U32 tid, U32 arg) {
    StubInstance* c = (StubInstance*)instance;
    pthread_mutex_lock(&startLock);
    if (nXruns < 4095) {
        xruns[nXruns].idx = idx; xruns[nXruns].tid = tid; xruns[nXruns].arg = arg;
        xruns[nXruns].childOk = c->parent != NULL && c->parent->parent == NULL && c->sharedMem == &stubShared;
        xruns[nXruns].parent = c->parent; xruns[nXruns].mem = c->sharedMem;
        nXruns++;
    }
    pthread_mutex_unlock(&startLock);
}
#define XENTRY(n) static void xentry##n(void* i, U32 t, U32 a) { xrecord(n, i, t, a); }
XENTRY(0) XENTRY(1) XENTRY(2) XENTRY(3) XENTRY(4) XENTRY(5) XENTRY(6) XENTRY(7)
XENTRY(8) XENTRY(9) XENTRY(10) XENTRY(11) XENTRY(12) XENTRY(13) XENTRY(14) XENTRY(15)
typedef void (*xentry_t)(void*, U32, U32);
static xentry_t xentries[16] = { xentry0, xentry1, xentry2, xentry3, xentry4, xentry5, xentry6, xentry7,
                                 xentry8, xentry9, xentry10, xentry11, xentry12, xentry13, xentry14, xentry15 };
typedef struct { StubInstance* inst; int per; U32 base; U32* ids; } SpawnerArg;
static void* spawner(void* a) {
    SpawnerArg* s = (SpawnerArg*)a; int i;
    for (i = 0; i < s->per; i++) s->ids[i] = wasi__threadX2Dspawn(&s->inst->common, s->base + i);
    return NULL;
}
static int cmpu32(const void* a, const void* b) { U32 x = *(const U32*)a, y = *(const U32*)b; return x < y ? -1 : x > y; }

/* ---- main loop ---- */
#define MAXTOK 4200
int main(void) {
    static char* tok[MAXTOK];
    char* line = NULL; size_t cap = 0; ssize_t got;
    setvbuf(stdout, NULL, _IOLBF, 0);
    while ((got = getline(&line, &cap, stdin)) > 0) {
        int nt = 0; char* save = NULL; char* t;
        for (t = strtok_r(line, " \r\n", &save); t && nt < MAXTOK; t = strtok_r(NULL, " \r\n", &save)) tok[nt++] = t;
        if (nt == 0) { printf("err empty\n"); continue; }

        if (strcmp(tok[0], "pathmax") == 0) {
            printf("%d\n", PATH_MAX);

        } else if (strcmp(tok[0], "rp") == 0 && nt == 5) {          /* rp pm dirhex availhex len */
            size_t dl, al; unsigned char *d, *a;
            if (atol(tok[1]) != PATH_MAX) { printf("err pm-mismatch %d\n", PATH_MAX); continue; }
            d = unhex(tok[2], &dl, 1); a = unhex(tok[3], &al, 0);
            do_resolve(d, dl, a, al, strtoul(tok[4], NULL, 10), 0);
            free(d); free(a);

        } else if (strcmp(tok[0], "rps") == 0 && nt == 7) {         /* rps pm dirlen dslash abs len seed */
            size_t dl = strtoul(tok[2], NULL, 10), len = strtoul(tok[5], NULL, 10);
            unsigned char* d = (unsigned char*)malloc(dl + 1);
            unsigned char* a = (unsigned char*)malloc(len ? len : 1);
            if (atol(tok[1]) != PATH_MAX) { printf("err pm-mismatch %d\n", PATH_MAX); continue; }
            synth_dir(d, dl, atoi(tok[3])); d[dl] = 0;
            synth_path(a, len, atoi(tok[4]), strtoul(tok[6], NULL, 10));
            do_resolve(d, dl, a, len, len, 1);
            free(d); free(a);

        } else if (strcmp(tok[0], "reset") == 0) {                   /* fresh descriptor table: fds 0..2 = stdio */
            static char* noargs[] = { NULL };
            U32 i;
            for (i = 0; i < wasi.fds.length; i++) {
                if (wasi.fds.fds[i].dir) closedir(wasi.fds.fds[i].dir);
                free(wasi.fds.fds[i].path);
            }
            wasi.fds.length = 0;
            printf("%s\n", wasiInit(0, noargs, noargs) ? "ok" : "fail");

        } else if (strcmp(tok[0], "preopen") == 0 && nt == 2) {      /* preopen pathhex -> fd N */
            size_t n; unsigned char* p = unhex(tok[1], &n, 1); U32 fd = 0;
            if (wasiFileDescriptorAdd(-1, (char*)p, &fd)) printf("fd %u\n", fd); else printf("fail\n");
            free(p);

        } else if (strcmp(tok[0], "dirspec") == 0 && nt == 2) {      /* ground truth stream of a directory */
            size_t n; unsigned char* p = unhex(tok[1], &n, 1);
            DIR* d = opendir((char*)p); struct dirent* e;
            static long locs[100000]; static char names[100000][256]; int cnt = 0, bad = -1, i;
            long loc0;
            if (!d) { printf("err opendir %d\n", errno); free(p); continue; }
            loc0 = telldir(d);
            printf("dir %ld", loc0);
            while ((e = readdir(d)) != NULL && cnt < 100000) {
                long loc = telldir(d);
                printf(" "); puthex((unsigned char*)e->d_name, strlen(e->d_name));
                printf(":%llu:%u:%ld", (unsigned long long)e->d_ino, (unsigned)e->d_type, loc);
                locs[cnt] = loc; strcpy(names[cnt], e->d_name); cnt++;
            }
            /* validate the telldir/seekdir assumption of Spec/Dir: seekdir(loc_k) makes readdir return entry k+1 */
            for (i = cnt - 1; i >= 0 && bad < 0; i -= (cnt > 64 ? 7 : 1)) {
                seekdir(d, locs[i]);
                e = readdir(d);
                if (i + 1 < cnt) { if (!e || strcmp(e->d_name, names[i+1]) != 0) bad = i; }
                else if (e) bad = i;
            }
            rewinddir(d);
            e = readdir(d);
            if (cnt > 0 && (!e || strcmp(e->d_name, names[0]) != 0)) bad = 100000;
            printf(bad < 0 ? " seekok\n" : " seekbad:%d\n", bad);
            closedir(d); free(p);

        } else if (strcmp(tok[0], "rd") == 0 && (nt == 4 || nt == 5)) {   /* rd fd bufLen cookie [errnoBefore|keep] -> errno used hex(buffer) */
            U32 fd = (U32)strtoul(tok[1], NULL, 10), bl = (U32)strtoul(tok[2], NULL, 10);
            U64 cookie = strtoull(tok[3], NULL, 10);
            U32 used, res;
            mem_new(8 + (size_t)bl, 0xAA);
            /* any value of errno is legal state for a caller: an earlier failed host call leaves one behind */
            if (nt == 5 && strcmp(tok[4], "keep") != 0) errno = atoi(tok[4]);
            res = wasi_snapshot_preview1__fd_readdir(NULL, fd, 8, bl, cookie, 0);
            memcpy(&used, gmem.data, 4);
            printf("%u %u ", res, used); puthex(gmem.data + 8, bl);
            printf(" %02x%02x%02x%02x\n", gmem.data[4], gmem.data[5], gmem.data[6], gmem.data[7]);
            mem_free();

        } else if (strcmp(tok[0], "rdclose") == 0 && nt == 2) {
            printf("%s\n", wasiFileDescriptorClose((U32)strtoul(tok[1], NULL, 10)) ? "ok" : "fail");

        } else if ((strcmp(tok[0], "args") == 0 || strcmp(tok[0], "env") == 0) && nt >= 7) {
            /* args memsize p b cP sP n hex*n  -> e1 count size e2 <mem hex | fnv> */
            int isenv = tok[0][0] == 'e';
            size_t msize = strtoul(tok[1], NULL, 10);
            U32 p = (U32)strtoul(tok[2], NULL, 10), b = (U32)strtoul(tok[3], NULL, 10);
            U32 cP = (U32)strtoul(tok[4], NULL, 10), sP = (U32)strtoul(tok[5], NULL, 10);
            int n = atoi(tok[6]), i; U32 e1, e2, cnt, sz;
            char** vec = (char**)malloc(sizeof(char*) * (n + 1));
            static char* none[] = { NULL };
            if (nt != 7 + n) { printf("err arity\n"); continue; }
            for (i = 0; i < n; i++) { size_t l; vec[i] = (char*)unhex(tok[7 + i], &l, 1); }
            vec[n] = NULL;
            wasi.fds.length = 0;
            if (!(isenv ? wasiInit(0, none, vec) : wasiInit(n, vec, none))) { printf("err init\n"); continue; }
            mem_new(msize, 0xAA);
            if (isenv) {
                e1 = wasi_snapshot_preview1__environ_sizes_get(NULL, cP, sP);
                memcpy(&cnt, gmem.data + cP, 4); memcpy(&sz, gmem.data + sP, 4);
                memset(gmem.data, 0xAA, msize);
                e2 = wasi_snapshot_preview1__environ_get(NULL, p, b);
            } else {
                e1 = wasi_snapshot_preview1__args_sizes_get(NULL, cP, sP);
                memcpy(&cnt, gmem.data + cP, 4); memcpy(&sz, gmem.data + sP, 4);
                memset(gmem.data, 0xAA, msize);
                e2 = wasi_snapshot_preview1__args_get(NULL, p, b);
            }
            printf("%u %u %u %u ", e1, cnt, sz, e2);
            if (msize <= 2048) puthex(gmem.data, msize); else printf("fnv:%08x", fnv(gmem.data, msize));
            printf("\n");
            mem_free();
            for (i = 0; i < n; i++) free(vec[i]);
            free(vec);

        } else if (strcmp(tok[0], "argsx") == 0 && nt >= 8) {
            /* argsx memsize p b cP sP argc n hex*n : wasiInit(argc, argv, env) where argv has n entries then NULL
               (n = -1: argv is a NULL pointer); args_sizes_get then args_get -> e1 count size e2 <mem> */
            size_t msize = strtoul(tok[1], NULL, 10);
            U32 p = (U32)strtoul(tok[2], NULL, 10), b = (U32)strtoul(tok[3], NULL, 10);
            U32 cP = (U32)strtoul(tok[4], NULL, 10), sP = (U32)strtoul(tok[5], NULL, 10);
            int argc = atoi(tok[6]), n = atoi(tok[7]), i; U32 e1, e2, cnt, sz;
            char** vec = NULL;
            static char* none[] = { NULL };
            if (nt != 8 + (n > 0 ? n : 0)) { printf("err arity\n"); continue; }
            if (n >= 0) {
                vec = (char**)malloc(sizeof(char*) * (size_t)(n + 1));      /* exactly n+1 slots: reading past the NULL is reported */
                for (i = 0; i < n; i++) { size_t l; vec[i] = (char*)unhex(tok[8 + i], &l, 1); }
                vec[n] = NULL;
            }
            wasi.fds.length = 0;
            if (!wasiInit(argc, vec, none)) { printf("err init\n"); continue; }
            mem_new(msize, 0xAA);
            e1 = wasi_snapshot_preview1__args_sizes_get(NULL, cP, sP);
            memcpy(&cnt, gmem.data + cP, 4); memcpy(&sz, gmem.data + sP, 4);
            memset(gmem.data, 0xAA, msize);
            e2 = wasi_snapshot_preview1__args_get(NULL, p, b);
            printf("%u %u %u %u ", e1, cnt, sz, e2);
            if (msize <= 2048) puthex(gmem.data, msize); else printf("fnv:%08x", fnv(gmem.data, msize));
            printf("\n");
            mem_free();
            for (i = 0; i < n; i++) free(vec[i]);
            free(vec);

        } else if (strcmp(tok[0], "clockf") == 0 && (nt == 4 || nt == 5)) {   /* clockf id [precision] sec nsec -> errno value hostClock */
            U32 res; I64 v; const char* nm = "none"; char other[32];
            U64 precision = nt == 5 ? strtoull(tok[2], NULL, 10) : 1;
            h_clock_fake = 1; h_clock_fail = 0; h_clock_lastid = -1; h_clock_calls = 0;
            h_clock_sec = strtoll(tok[nt - 2], NULL, 10); h_clock_nsec = strtoll(tok[nt - 1], NULL, 10);
            mem_new(8, 0xAA);
            res = wasi_snapshot_preview1__clock_time_get(NULL, (U32)strtoul(tok[1], NULL, 10), precision, 0);
            memcpy(&v, gmem.data, 8);
            h_clock_fake = 0;
            if (h_clock_calls == 1) switch (h_clock_lastid) {
                case CLOCK_REALTIME: nm = "CLOCK_REALTIME"; break;
                case CLOCK_MONOTONIC: nm = "CLOCK_MONOTONIC"; break;
                case CLOCK_PROCESS_CPUTIME_ID: nm = "CLOCK_PROCESS_CPUTIME_ID"; break;
                case CLOCK_THREAD_CPUTIME_ID: nm = "CLOCK_THREAD_CPUTIME_ID"; break;
#ifdef CLOCK_MONOTONIC_COARSE
                case CLOCK_MONOTONIC_COARSE: nm = "CLOCK_MONOTONIC_COARSE"; break;
#endif
#ifdef CLOCK_REALTIME_COARSE
                case CLOCK_REALTIME_COARSE: nm = "CLOCK_REALTIME_COARSE"; break;
#endif
#ifdef CLOCK_MONOTONIC_RAW
                case CLOCK_MONOTONIC_RAW: nm = "CLOCK_MONOTONIC_RAW"; break;
#endif
#ifdef CLOCK_BOOTTIME
                case CLOCK_BOOTTIME: nm = "CLOCK_BOOTTIME"; break;
#endif
                default: snprintf(other, sizeof other, "hostclock#%d", h_clock_lastid); nm = other;
            } else if (h_clock_calls > 1) nm = "several-host-calls";
            if (res == 0) printf("0 %lld %s\n", (long long)v, nm); else printf("%u - %s\n", res, nm);
            mem_free();

        } else if (strcmp(tok[0], "clockconfig") == 0) {
            printf("%s\n", WASI_FALLBACK_TIMERS_ENABLED ? "fallback" : "posix");

        } else if (strcmp(tok[0], "clockfb") == 0 && nt == 4) {      /* clockfb id sec usec -> errno value hostCall (interposed gettimeofday / getrusage) */
            U32 res; I64 v;
            h_tv_fake = 1; h_tv_sec = strtoll(tok[2], NULL, 10); h_tv_usec = strtoll(tok[3], NULL, 10); h_tv_last = "none"; h_tv_calls = 0;
            h_clock_calls = 0;
            mem_new(8, 0xAA);
            res = wasi_snapshot_preview1__clock_time_get(NULL, (U32)strtoul(tok[1], NULL, 10), 1, 0);
            memcpy(&v, gmem.data, 8);
            h_tv_fake = 0;
            if (res == 0) printf("0 %lld %s\n", (long long)v, h_clock_calls ? "clock_gettime" : h_tv_calls == 1 ? h_tv_last : "several");
            else printf("%u - %s\n", res, h_tv_calls || h_clock_calls ? "called" : "none");
            mem_free();

        } else if (strcmp(tok[0], "clockhist") == 0 && nt == 5) {
            /* clockhist abi n idlist preclist : n clock_time_get calls cycling through the ids and precisions
               (comma lists), each bracketed by direct readings of the host clock the SPECIFICATION names for the
               id (never a tolerance).  -> per call `errno:value:before:after` (ns) */
            int abi = atoi(tok[1]), n = atoi(tok[2]), i, nid = 0, np = 0;
            static U32 ids[64]; static U64 precs[64];
            static const clockid_t native[4] = { CLOCK_REALTIME, CLOCK_MONOTONIC, CLOCK_PROCESS_CPUTIME_ID, CLOCK_THREAD_CPUTIME_ID };
            char* sv = NULL; char* q;
            for (q = strtok_r(tok[3], ",", &sv); q && nid < 64; q = strtok_r(NULL, ",", &sv)) ids[nid++] = (U32)strtoul(q, NULL, 10);
            for (q = strtok_r(tok[4], ",", &sv); q && np < 64; q = strtok_r(NULL, ",", &sv)) precs[np++] = strtoull(q, NULL, 10);
            if (nid == 0 || np == 0) { printf("err arity\n"); continue; }
            mem_new(8, 0xAA);
            for (i = 0; i < n; i++) {
                U32 id = ids[i % nid], res; U64 pr = precs[i % np]; I64 v = 0;
                struct timespec t0 = {0, 0}, t1 = {0, 0};
                long long b0 = 0, b1 = 0;
#if WASI_FALLBACK_TIMERS_ENABLED
                /* fallback configuration: id 0 = gettimeofday (the realtime clock at microsecond resolution: bracket =
                   CLOCK_REALTIME readings, the earlier one rounded DOWN to its microsecond), id 2 = getrusage user+system
                   (bracket = the same host call before/after) */
                struct rusage r0, r1;
                if (id == 0) clock_gettime(CLOCK_REALTIME, &t0);
                if (id == 2) getrusage(RUSAGE_SELF, &r0);
                res = abi ? wasi_snapshot_preview1__clock_time_get(NULL, id, pr, 0) : wasi_unstable__clock_time_get(NULL, id, pr, 0);
                if (id == 0) clock_gettime(CLOCK_REALTIME, &t1);
                if (id == 2) getrusage(RUSAGE_SELF, &r1);
                if (id == 0) { b0 = ((long long)t0.tv_sec * 1000000000LL + t0.tv_nsec) / 1000 * 1000; b1 = (long long)t1.tv_sec * 1000000000LL + t1.tv_nsec; }
                if (id == 2) {
                    b0 = ((long long)r0.ru_utime.tv_sec + r0.ru_stime.tv_sec) * 1000000000LL + ((long long)r0.ru_utime.tv_usec + r0.ru_stime.tv_usec) * 1000LL;
                    b1 = ((long long)r1.ru_utime.tv_sec + r1.ru_stime.tv_sec) * 1000000000LL + ((long long)r1.ru_utime.tv_usec + r1.ru_stime.tv_usec) * 1000LL;
                }
#else
                if (id < 4) clock_gettime(native[id], &t0);
                res = abi ? wasi_snapshot_preview1__clock_time_get(NULL, id, pr, 0) : wasi_unstable__clock_time_get(NULL, id, pr, 0);
                if (id < 4) clock_gettime(native[id], &t1);
                b0 = (long long)t0.tv_sec * 1000000000LL + t0.tv_nsec; b1 = (long long)t1.tv_sec * 1000000000LL + t1.tv_nsec;
#endif
                memcpy(&v, gmem.data, 8);
                printf("%s%u:%lld:%lld:%lld", i ? " " : "", res, (long long)v, b0, b1);
            }
            printf("\n");
            mem_free();

        } else if (strcmp(tok[0], "clockres") == 0 && nt == 3) {     /* clockres abi id -> errno value hostResolution */
            int abi = atoi(tok[1]); U32 id = (U32)strtoul(tok[2], NULL, 10), res; I64 v = 0;
            static const clockid_t native[4] = { CLOCK_REALTIME, CLOCK_MONOTONIC, CLOCK_PROCESS_CPUTIME_ID, CLOCK_THREAD_CPUTIME_ID };
            struct timespec tr = {0, 0};
            mem_new(8, 0xAA);
            res = abi ? wasi_snapshot_preview1__clock_res_get(NULL, id, 0) : wasi_unstable__clock_res_get(NULL, id, 0);
            memcpy(&v, gmem.data, 8);
            if (id < 4) clock_getres(native[id], &tr);
            if (res == 0) printf("0 %lld %lld\n", (long long)v, (long long)tr.tv_sec * 1000000000LL + tr.tv_nsec); else printf("%u -\n", res);
            mem_free();

        } else if (strcmp(tok[0], "clockr") == 0 && nt == 2) {       /* real host clock: errno value before after */
            U32 id = (U32)strtoul(tok[1], NULL, 10), res; I64 v;
            static const clockid_t native[4] = { CLOCK_REALTIME, CLOCK_MONOTONIC, CLOCK_PROCESS_CPUTIME_ID, CLOCK_THREAD_CPUTIME_ID };
            struct timespec t0 = {0, 0}, t1 = {0, 0};
            mem_new(8, 0xAA);
            if (id < 4) clock_gettime(native[id], &t0);
            res = wasi_snapshot_preview1__clock_time_get(NULL, id, 1, 0);
            if (id < 4) clock_gettime(native[id], &t1);
            memcpy(&v, gmem.data, 8);
            if (res == 0) printf("0 %lld %lld %ld %lld %ld\n", (long long)v, (long long)t0.tv_sec, t0.tv_nsec, (long long)t1.tv_sec, t1.tv_nsec);
            else printf("%u -\n", res);
            mem_free();

        } else if (strcmp(tok[0], "random") == 0 && nt == 2) {       /* random len -> errno allWritten outsideChanged */
            size_t len = strtoul(tok[1], NULL, 10), i; int attempt; U32 res = 0;
            unsigned char* seen = (unsigned char*)calloc(len ? len : 1, 1);
            int outside = 0; size_t written = 0;
            for (attempt = 0; attempt < 4; attempt++) {
                int fill = attempt % 2 ? 0xFF : 0x00;
                mem_new(64 + len, fill);
                res = wasi_snapshot_preview1__random_get(NULL, 64, (U32)len);
                for (i = 0; i < 64; i++) if (gmem.data[i] != fill) outside = 1;
                for (i = 0; i < len; i++) if (gmem.data[64 + i] != fill) seen[i] = 1;
                mem_free();
                if (res != 0) break;
            }
            for (i = 0; i < len; i++) written += seen[i];
            printf("%u %lu %d\n", res, (unsigned long)written, outside);
            free(seen);

        } else if (strcmp(tok[0], "exit") == 0 && nt == 2) {         /* proc_exit in a forked child */
            pid_t pid; int st = 0;
            fflush(stdout);
            pid = fork();
            if (pid == 0) { wasi_snapshot_preview1__proc_exit(NULL, (U32)strtoul(tok[1], NULL, 10)); _exit(253); }
            waitpid(pid, &st, 0);
            if (WIFEXITED(st)) printf("exited %d\n", WEXITSTATUS(st)); else printf("signaled %d\n", WTERMSIG(st));

        } else if (strcmp(tok[0], "spawn") == 0 && (nt == 4 || nt == 5)) {        /* spawn threads per hasExport [childFirst] (in a forked child: fresh counter) */
            int nth = atoi(tok[1]), per = atoi(tok[2]), has = atoi(tok[3]), cfirst = nt == 5 ? atoi(tok[4]) : 0;
            pid_t pid; int st = 0;
            fflush(stdout);
            pid = fork();
            if (pid == 0) {
                static wasmFuncExport exps[3];
                StubInstance inst; pthread_t th[64]; SpawnerArg sa[64]; int i, j, tries;
                U32* all = (U32*)malloc(sizeof(U32) * (size_t)(nth * per + 1));
                int nall = 0, nneg = 0;
                h_child_first = cfirst;                 /* schedule: every new thread finishes before its spawner continues */
                memset(&inst, 0, sizeof inst);
                exps[0].func = (wasmFunc)stubOther; exps[0].name = (char*)"_start";
                if (has) { exps[1].func = (wasmFunc)stubThreadStart; exps[1].name = (char*)"wasi_thread_start"; exps[2].func = NULL; exps[2].name = NULL; }
                else { exps[1].func = NULL; exps[1].name = NULL; }
                inst.common.funcExports = exps; inst.common.newChild = stubNewChild; inst.sharedMem = &stubShared;
                if (nth > 64) nth = 64;
                for (i = 0; i < nth; i++) {
                    sa[i].inst = &inst; sa[i].per = per; sa[i].base = (U32)(1000 * i);
                    sa[i].ids = (U32*)malloc(sizeof(U32) * (size_t)(per + 1));
                    pthread_create(&th[i], NULL, spawner, &sa[i]);
                }
                for (i = 0; i < nth; i++) pthread_join(th[i], NULL);
                for (i = 0; i < nth; i++) for (j = 0; j < per; j++) {
                    if ((I32)sa[i].ids[j] < 0) nneg++; else all[nall++] = sa[i].ids[j];
                }
                for (tries = 0; tries < 2000; tries++) {         /* wait for the spawned threads to run */
                    int done; pthread_mutex_lock(&startLock); done = nStarts >= nall; pthread_mutex_unlock(&startLock);
                    if (done) break;
                    usleep(1000);
                }
                usleep(5000);
                qsort(all, (size_t)nall, sizeof(U32), cmpu32);
                printf("ids");
                for (i = 0; i < nall; i++) printf("%s%u", i ? "," : " ", all[i]);
                if (nall == 0) printf(" -");
                printf(" neg %d children %d starts", nneg, nChildren);
                {
                    /* every (tid,arg) start record: tid, whether arg matches the spawner's arg for that tid, child wiring */
                    int okAll = 1, k;
                    U32* tids = (U32*)malloc(sizeof(U32) * (size_t)(nStarts + 1));
                    for (k = 0; k < nStarts; k++) {
                        int found = 0;
                        tids[k] = starts[k].tid;
                        for (i = 0; i < nth; i++) for (j = 0; j < per; j++)
                            if (sa[i].ids[j] == starts[k].tid && starts[k].arg == sa[i].base + (U32)j) found = 1;
                        if (!found || !starts[k].childOk) okAll = 0;
                    }
                    qsort(tids, (size_t)nStarts, sizeof(U32), cmpu32);
                    for (k = 0; k < nStarts; k++) printf("%s%u", k ? "," : " ", tids[k]);
                    if (nStarts == 0) printf(" -");
                    printf(" argsok %d\n", okAll);
                }
                fflush(stdout);
                _exit(0);
            }
            waitpid(pid, &st, 0);
            if (!(WIFEXITED(st) && WEXITSTATUS(st) == 0)) printf("err spawn-child %d\n", st);

        } else if ((strcmp(tok[0], "spawnx") == 0 || strcmp(tok[0], "spawnxs") == 0) && nt >= 4) {       /* spawnx ncalls argbase k namehex*k : export table of k functions */
            int ncalls = atoi(tok[1]), k = atoi(tok[3]); U32 argbase = (U32)strtoul(tok[2], NULL, 10);
            pid_t pid; int st = 0; int ep[2];
            if (k < 0 || k > 16 || nt != 4 + k || ncalls > 64) { printf("err arity\n"); continue; }
            fflush(stdout);
            if (pipe(ep) != 0) { printf("err pipe\n"); continue; }
            pid = fork();
            if (pid == 0) {
                close(ep[0]); dup2(ep[1], 2);                       /* sanitizer report of the child -> parent */
                wasmFuncExport* exps = (wasmFuncExport*)calloc((size_t)k + 1, sizeof(wasmFuncExport));
                StubInstance inst; I32 rets[64]; int i, j, tries, nok = 0;
                h_child_first = strcmp(tok[0], "spawnxs") == 0;       /* new thread finishes before pthread_create returns */
                memset(&inst, 0, sizeof inst);
                for (i = 0; i < k; i++) { size_t l; exps[i].func = (wasmFunc)xentries[i]; exps[i].name = (char*)unhex(tok[4 + i], &l, 1); }
                exps[k].func = NULL; exps[k].name = NULL;
                inst.common.funcExports = exps; inst.common.newChild = stubNewChild; inst.sharedMem = &stubShared;
                for (i = 0; i < ncalls; i++) {
                    rets[i] = (I32)wasi__threadX2Dspawn(&inst.common, argbase + (U32)i);
                    if (rets[i] >= 0) nok++;
                }
                for (tries = 0; tries < 2000; tries++) {
                    int done; pthread_mutex_lock(&startLock); done = nXruns >= nok; pthread_mutex_unlock(&startLock);
                    if (done) break;
                    usleep(1000);
                }
                usleep(5000);
                printf("ret");
                for (i = 0; i < ncalls; i++) printf("%s%d", i ? "," : " ", rets[i]);
                if (ncalls == 0) printf(" -");
                printf(" ran");
                /* sorted by tid (selection) */
                for (i = 0; i < nXruns; i++) for (j = i + 1; j < nXruns; j++) if (xruns[j].tid < xruns[i].tid) {
                    xruns[4095] = xruns[i]; xruns[i] = xruns[j]; xruns[j] = xruns[4095];
                }
                for (i = 0; i < nXruns; i++) printf("%s%d:%u:%u:%d", i ? "," : " ", xruns[i].idx, xruns[i].tid, xruns[i].arg, xruns[i].childOk);
                if (nXruns == 0) printf(" -");
                printf(" children %d\n", nChildren);
                fflush(stdout);
                _exit(0);
            }
            {
                static char rep[16384]; size_t got = 0; ssize_t r;
                close(ep[1]);
                while ((r = read(ep[0], rep + got, sizeof rep - 1 - got)) > 0) { got += (size_t)r; if (got >= sizeof rep - 1) break; }
                while (r > 0) { char sink[4096]; r = read(ep[0], sink, sizeof sink); }
                close(ep[0]);
                rep[got] = 0;
                waitpid(pid, &st, 0);
                if (!(WIFEXITED(st) && WEXITSTATUS(st) == 0)) {
                    char kind[64] = "unknown", fn[64] = "?"; char* q = strstr(rep, "ERROR: AddressSanitizer: ");
                    if (q) sscanf(q, "ERROR: AddressSanitizer: %63s", kind);
                    q = strstr(rep, " in wasi__");
                    if (q) sscanf(q, " in %63s", fn);
                    printf("crash child asan:%s in %s (status %d)\n", kind, fn, st);
                }
            }

        } else if (strcmp(tok[0], "spawnm") == 0 && nt >= 5) {
            /* spawnm childFirst argbase M {k namehex*k}*M ncalls inst*ncalls : SEVERAL module instances in one process, each with its
               own export table (every export of every instance has its own entry function) and its own shared memory; the
               calls are issued one after the other (each started thread is awaited) by the named instances.
               -> ret r,.. ran callerInst:entryInst:entryExport:tid:arg:childOk,.. children N */
            int cfirst = atoi(tok[1]); U32 argbase = (U32)strtoul(tok[2], NULL, 10); int M = atoi(tok[3]);
            pid_t pid; int st = 0; int ep[2];
            if (M < 1 || M > 8) { printf("err arity\n"); continue; }
            fflush(stdout);
            if (pipe(ep) != 0) { printf("err pipe\n"); continue; }
            pid = fork();
            if (pid == 0) {
                static StubInstance insts[8]; static wasmMemory mems[8]; static int ownerInst[16], ownerExp[16];
                int pos = 4, m, i, j, pool = 0, ncalls, tries, bad = 0; I32 rets[64];
                close(ep[0]); dup2(ep[1], 2);
                h_child_first = cfirst;
                for (m = 0; m < M && !bad; m++) {
                    int k; wasmFuncExport* exps;
                    if (pos >= nt) { bad = 1; break; }
                    k = atoi(tok[pos++]);
                    if (k < 0 || pool + k > 15 || pos + k > nt) { bad = 1; break; }
                    exps = (wasmFuncExport*)calloc((size_t)k + 1, sizeof(wasmFuncExport));
                    for (i = 0; i < k; i++) { size_t l; ownerInst[pool] = m; ownerExp[pool] = i; exps[i].func = (wasmFunc)xentries[pool++]; exps[i].name = (char*)unhex(tok[pos++], &l, 1); }
                    memset(&insts[m], 0, sizeof insts[m]);
                    insts[m].common.funcExports = exps; insts[m].common.newChild = stubNewChild; insts[m].sharedMem = &mems[m];
                }
                if (bad || pos >= nt) { printf("err arity\n"); fflush(stdout); _exit(0); }
                ncalls = atoi(tok[pos++]);
                if (ncalls < 0 || ncalls > 64 || pos + ncalls != nt) { printf("err arity\n"); fflush(stdout); _exit(0); }
                for (i = 0; i < ncalls; i++) {
                    int who = atoi(tok[pos + i]), before;
                    if (who < 0 || who >= M) { printf("err arity\n"); fflush(stdout); _exit(0); }
                    pthread_mutex_lock(&startLock); before = nXruns; pthread_mutex_unlock(&startLock);
                    rets[i] = (I32)wasi__threadX2Dspawn(&insts[who].common, argbase + (U32)i);
                    if (rets[i] >= 0) for (tries = 0; tries < 2000; tries++) {      /* the started thread records itself */
                        int done; pthread_mutex_lock(&startLock); done = nXruns > before; pthread_mutex_unlock(&startLock);
                        if (done) break;
                        usleep(1000);
                    }
                }
                usleep(5000);
                printf("ret");
                for (i = 0; i < ncalls; i++) printf("%s%d", i ? "," : " ", rets[i]);
                if (ncalls == 0) printf(" -");
                printf(" ran");
                for (i = 0; i < nXruns; i++) for (j = i + 1; j < nXruns; j++) if (xruns[j].tid < xruns[i].tid) {
                    xruns[4095] = xruns[i]; xruns[i] = xruns[j]; xruns[j] = xruns[4095];
                }
                for (i = 0; i < nXruns; i++) {
                    int caller = -1, ok;
                    for (m = 0; m < M; m++) if (xruns[i].parent == (void*)&insts[m]) caller = m;
                    ok = caller >= 0 && xruns[i].mem == (void*)&mems[caller];       /* a fresh child of the CALLING instance sharing ITS memory */
                    printf("%s%d:%d:%d:%u:%u:%d", i ? "," : " ", caller, ownerInst[xruns[i].idx], ownerExp[xruns[i].idx], xruns[i].tid, xruns[i].arg, ok);
                }
                if (nXruns == 0) printf(" -");
                printf(" children %d\n", nChildren);
                fflush(stdout);
                _exit(0);
            }
            {
                static char rep[16384]; size_t got = 0; ssize_t r;
                close(ep[1]);
                while ((r = read(ep[0], rep + got, sizeof rep - 1 - got)) > 0) { got += (size_t)r; if (got >= sizeof rep - 1) break; }
                while (r > 0) { char sink[4096]; r = read(ep[0], sink, sizeof sink); }
                close(ep[0]);
                rep[got] = 0;
                waitpid(pid, &st, 0);
                if (!(WIFEXITED(st) && WEXITSTATUS(st) == 0)) {
                    char kind[64] = "unknown", fn[64] = "?"; char* q = strstr(rep, "ERROR: AddressSanitizer: ");
                    if (q) sscanf(q, "ERROR: AddressSanitizer: %63s", kind);
                    q = strstr(rep, " in wasi__");
                    if (q) sscanf(q, " in %63s", fn);
                    printf("crash child asan:%s in %s (status %d)\n", kind, fn, st);
                }
            }

        } else if ((strcmp(tok[0], "mkdir") == 0 || strcmp(tok[0], "rmdir") == 0 || strcmp(tok[0], "unlink") == 0) && nt == 4) {
            /* op fd availhex len : the guest path bytes are the LAST bytes of the memory */
            size_t al; unsigned char* a = unhex(tok[2], &al, 0);
            U32 fd = (U32)strtoul(tok[1], NULL, 10), len = (U32)strtoul(tok[3], NULL, 10), res;
            mem_new(32 + al, 0xAA); memcpy(gmem.data + 32, a, al);
            if (tok[0][0] == 'm') res = wasi_snapshot_preview1__path_create_directory(NULL, fd, 32, len);
            else if (tok[0][0] == 'r') res = wasi_snapshot_preview1__path_remove_directory(NULL, fd, 32, len);
            else res = wasi_snapshot_preview1__path_unlink_file(NULL, fd, 32, len);
            printf("%u\n", res);
            mem_free(); free(a);

        } else if (strcmp(tok[0], "stat") == 0 && (nt == 4 || nt == 5)) {          /* stat fd availhex len [lookupFlags] -> errno filetype size frameOK */
            size_t al, i; unsigned char* a = unhex(tok[2], &al, 0);
            U32 fd = (U32)strtoul(tok[1], NULL, 10), len = (U32)strtoul(tok[3], NULL, 10), res;
            U64 size = 0; int frame = 1;
            /* [0,8) guard | [8,72) filestat | [72,80) guard | path */
            mem_new(80 + al, 0xAA); memcpy(gmem.data + 80, a, al);
            res = wasi_snapshot_preview1__path_filestat_get(NULL, fd, nt == 5 ? (U32)strtoul(tok[4], NULL, 10) : 0, 80, len, 8);
            memcpy(&size, gmem.data + 8 + 32, 8);
            for (i = 0; i < 8; i++) if (gmem.data[i] != 0xAA || gmem.data[72 + i] != 0xAA) frame = 0;
            if (memcmp(gmem.data + 80, a, al) != 0) frame = 0;
            if (res != 0) for (i = 8; i < 72; i++) if (gmem.data[i] != 0xAA) frame = 0;
            if (res == 0) printf("0 %u %llu frame%d\n", gmem.data[8 + 16], (unsigned long long)size, frame); else printf("%u frame%d\n", res, frame);
            mem_free(); free(a);

        } else if (strcmp(tok[0], "readlink") == 0 && nt == 5) {      /* readlink fd availhex len bufLen -> errno n hex(memory before the path) pathIntact */
            size_t al; unsigned char* a = unhex(tok[2], &al, 0);
            U32 fd = (U32)strtoul(tok[1], NULL, 10), len = (U32)strtoul(tok[3], NULL, 10), bl = (U32)strtoul(tok[4], NULL, 10), res, n = 0;
            /* [0,4) length cell | [4,16) guard | [16,16+bl) buffer | 8 guard bytes | path (ends the memory) */
            size_t pbase = 24 + (size_t)bl;
            mem_new(pbase + al, 0xAA); memcpy(gmem.data + pbase, a, al);
            res = wasi_snapshot_preview1__path_readlink(NULL, fd, (U32)pbase, len, 16, bl, 0);
            memcpy(&n, gmem.data, 4);
            printf("%u %u ", res, res == 0 ? n : 0); puthex(gmem.data, pbase);
            printf(" path%d\n", memcmp(gmem.data + pbase, a, al) == 0);
            mem_free(); free(a);

        } else if (strcmp(tok[0], "rename") == 0 && nt == 7) {        /* rename fd1 avail1 len1 fd2 avail2 len2 */
            size_t al1, al2; unsigned char* a1 = unhex(tok[2], &al1, 0); unsigned char* a2 = unhex(tok[5], &al2, 0);
            U32 fd1 = (U32)strtoul(tok[1], NULL, 10), l1 = (U32)strtoul(tok[3], NULL, 10);
            U32 fd2 = (U32)strtoul(tok[4], NULL, 10), l2 = (U32)strtoul(tok[6], NULL, 10), res;
            /* two separate requests cannot both be last: old path sits directly before the new one */
            mem_new(16 + al1 + al2, 0xAA); memcpy(gmem.data + 16, a1, al1); memcpy(gmem.data + 16 + al1, a2, al2);
            res = wasi_snapshot_preview1__path_rename(NULL, fd1, 16, l1, fd2, (U32)(16 + al1), l2);
            printf("%u\n", res);
            mem_free(); free(a1); free(a2);

        } else if (strcmp(tok[0], "symlink") == 0 && nt == 6) {       /* symlink targethex tlen fd availhex len */
            size_t al1, al2; unsigned char* a1 = unhex(tok[1], &al1, 0); unsigned char* a2 = unhex(tok[4], &al2, 0);
            U32 tl = (U32)strtoul(tok[2], NULL, 10), fd = (U32)strtoul(tok[3], NULL, 10), l2 = (U32)strtoul(tok[5], NULL, 10), res;
            mem_new(16 + al1 + al2, 0xAA); memcpy(gmem.data + 16, a1, al1); memcpy(gmem.data + 16 + al1, a2, al2);
            res = wasi_snapshot_preview1__path_symlink(NULL, 16, tl, fd, (U32)(16 + al1), l2);
            printf("%u\n", res);
            mem_free(); free(a1); free(a2);

        } else {
            printf("err unknown-command\n");
        }
    }
    free(line);
    return 0;
}
