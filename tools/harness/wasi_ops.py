"""wasi-ops — build and run the real-side harness of C12/C13 (tools/harness/wasi_ops.c).

The real /repo/wasi/wasi.c (scratch copy) is compiled as its own translation unit with the
defines CMake's feature checks produce on this host and -std=gnu90 (CMAKE_C_STANDARD 90), then
linked with the harness, which calls the imports through prototypes carrying the WebAssembly
import types (what w2c2-generated code does).  Sanitizers: ASan + UBSan, no recovery.
"""
import os
import subprocess

HERE = os.path.dirname(os.path.abspath(__file__))

# what /repo/wasi/CMakeLists.txt derives on a glibc/Linux host (check_include_file / check_symbol_exists)
CMAKE_DEFINES = ["-DHAS_UNISTD=1", "-DHAS_SYSUIO=1", "-DHAS_SYSTIME=1", "-DHAS_SYSRESOURCE=1", "-DHAS_STRNDUP=1",
                 "-DHAS_FCNTL=1", "-DHAS_LSTAT=1", "-DHAS_GETENTROPY=1", "-DHAS_TIMESPEC=1", "-DWASM_THREADS_PTHREADS"]
# nonnull-attribute is left to ASan (its strcpy/strlen interceptors fault on the NULL page and the
# report honours log_path; gcc's UBSan runtime only writes to fd 2, which a history may have closed)
SAN = ["-fsanitize=address,undefined", "-fno-sanitize=nonnull-attribute", "-fno-sanitize-recover=all", "-fno-omit-frame-pointer"]


# the tracing configuration of wasi.c (`#if WASI_TRACE_ENABLED` -> every WASI_TRACE((fmt, args…)) becomes a real
# fprintf(stderr, …) whose arguments are evaluated): part of the real code, built and run next to the default one
TRACE_DEFINES = ["-DWASI_TRACE_ENABLED=1"]


def build(repo_copy, workdir, sanitize=True, cc="gcc", trace=False):
    """Returns path of the harness executable (trace=True: wasi.c compiled with -DWASI_TRACE_ENABLED=1)."""
    san = SAN if sanitize else []
    sfx = ("_trace" if trace else "") + ("" if sanitize else "_nosan")
    obj = os.path.join(workdir, "wasi_real" + sfx + ".o")
    exe = os.path.join(workdir, "wasi_ops" + sfx)
    defs = CMAKE_DEFINES + (TRACE_DEFINES if trace else [])
    cmds = [
        [cc, "-std=gnu90", "-g", "-O1"] + san + defs + ["-c", os.path.join(repo_copy, "wasi", "wasi.c"), "-o", obj],
        [cc, "-std=gnu99", "-g", "-O1"] + san + CMAKE_DEFINES + ["-I", repo_copy, os.path.join(HERE, "wasi_ops.c"), obj,
                                                                    "-o", exe, "-lpthread", "-lm"],
    ]
    for cmd in cmds:
        p = subprocess.run(cmd, stdout=subprocess.PIPE, stderr=subprocess.PIPE, text=True)
        if p.returncode != 0:
            raise RuntimeError("wasi harness build failed: " + " ".join(cmd) + "\n" + p.stderr[-3000:])
    return exe


def format_histories(histories):
    """histories: list of lists of command lines -> stdin text."""
    out = []
    for i, h in enumerate(histories):
        out.append(f"H {i}")
        out.extend(h)
        out.append("E")
    return "\n".join(out) + "\n"


def parse_output(text, n):
    """-> list of (result lines, end line) per history."""
    res = []
    cur = None
    for line in text.splitlines():
        if line.startswith("H "):
            cur = []
        elif line.startswith("E ") and cur is not None:
            res.append((cur, line))
            cur = None
        elif cur is not None:
            cur.append(line)
    if len(res) != n:
        raise RuntimeError(f"harness answered {len(res)} histories for {n}")
    return res


def run_histories(exe, mode, histories, workdir, timeout=1800, tablecheck=False):
    """Run histories (each in its own forked child) -> list of (lines, endline)."""
    base = os.path.join(workdir, "run-" + mode + ("-trace" if exe.endswith("_trace") else ""))
    os.makedirs(base, exist_ok=True)
    log = os.path.join(base, "san")
    env = dict(os.environ)
    env["ASAN_OPTIONS"] = f"log_path={log}:detect_leaks=0:abort_on_error=0:allocator_may_return_null=1"
    env["UBSAN_OPTIONS"] = f"log_path={log}:print_stacktrace=1"
    if tablecheck:
        env["WASIOPS_TABLECHECK"] = "1"      # real mode: append ` !stale:n / !alias:m,n / !retarget:n` tokens
    else:
        env.pop("WASIOPS_TABLECHECK", None)
    p = subprocess.run([exe, mode, base, log], input=format_histories(histories), stdout=subprocess.PIPE,
                       stderr=subprocess.PIPE, text=True, timeout=timeout, env=env)
    if p.returncode != 0:
        raise RuntimeError(f"wasi harness exited {p.returncode}: {p.stderr[-1000:]}")
    return parse_output(p.stdout, len(histories))


# ----------------------------------------------------------------------------- history construction

R_READ, R_WRITE = 1 << 1, 1 << 6
RIGHTS_RW = R_READ | R_WRITE
O_CREAT, O_DIRECTORY, O_EXCL, O_TRUNC = 1, 2, 4, 8
FD_APPEND = 1
U32MAX = (1 << 32) - 1

# every descriptor-taking import the model covers: name -> positions of descriptor arguments
FD_ARGS = {"fd_write": [0], "fd_pwrite": [0], "fd_read": [0], "fd_pread": [0], "fd_seek": [0], "fd_tell": [0],
           "fd_readdir": [0], "fd_close": [0], "fd_fdstat_get": [0], "fd_datasync": [0], "fd_sync": [0],
           "fd_prestat_get": [0], "fd_prestat_dir_name": [0], "path_open": [0], "fd_filestat_get": [0],
           "path_filestat_get": [0], "path_rename": [0, 3], "path_unlink_file": [0], "path_remove_directory": [0],
           "path_create_directory": [0], "path_symlink": [2], "path_readlink": [0],
           "fd_filestat_set_size": [0], "fd_fdstat_set_flags": [0]}
NOSYS_CALLS = {"fd_filestat_set_size", "fd_fdstat_set_flags"}


class Hist:
    """Builds one history: command lines + guest-memory allocation (paths, iovecs, result cells)."""

    def __init__(self):
        self.lines = []
        self.meta = []            # per line: None or dict(call=..., fds=[...], abi=...)
        self._next = 1024

    def alloc(self, n, align=8):
        a = (self._next + align - 1) // align * align
        self._next = a + n
        if self._next > 60000:
            raise RuntimeError("guest memory exhausted in history builder")
        return a

    def raw(self, line, meta=None):
        self.lines.append(line)
        self.meta.append(meta)

    def poke(self, addr, data):
        if data:
            self.raw(f"poke {addr} {bytes(data).hex()}")

    def path(self, s):
        b = s if isinstance(s, bytes) else s.encode()
        a = self.alloc(max(len(b), 1), 1)
        self.poke(a, b)
        return a, len(b)

    def res(self, n=8):
        return self.alloc(n)

    def iov(self, segs):
        """segs: list of bytes (data to gather) or ints (lengths of scatter buffers; filled with 0xEE)
        -> (iovs pointer, count)"""
        ents = []
        for s in segs:
            if isinstance(s, int):
                a = self.alloc(max(s, 1), 1)
                self.poke(a, b"\xee" * s)
                ents.append((a, s))
            else:
                a = self.alloc(max(len(s), 1), 1)
                self.poke(a, s)
                ents.append((a, len(s)))
        p = self.alloc(8 * max(len(ents), 1), 4)
        self.poke(p, b"".join(a.to_bytes(4, "little") + l.to_bytes(4, "little") for a, l in ents))
        return p, len(ents)

    def call(self, abi, name, *args):
        fds = [args[i] for i in FD_ARGS.get(name, [])]
        self.raw(f"{abi} {name} " + " ".join(str(int(a)) for a in args), {"call": name, "abi": abi, "fds": fds, "args": list(args)})

    # convenience wrappers ----------------------------------------------------------------
    def open(self, abi, dirfd, name, oflags=0, rights=RIGHTS_RW, fdflags=0):
        p, l = self.path(name)
        r = self.res()
        self.call(abi, "path_open", dirfd, 0, p, l, oflags, rights, 0, fdflags, r)
        return r

    def generic(self, abi, name, fd, rng=None, fd2=None, abspath=None):
        """a call of `name` on descriptor fd with harmless other arguments.  `abspath`: use this (absolute)
        guest path in every path argument of a path_* call instead of the relative default"""
        def P(default):
            return self.path(abspath if abspath is not None else default)
        if name in ("fd_write", "fd_pwrite"):
            p, c = self.iov([b"xy"])
            args = (fd, p, c) + ((3,) if name == "fd_pwrite" else ()) + (self.res(),)
        elif name in ("fd_read", "fd_pread"):
            p, c = self.iov([4])
            args = (fd, p, c) + ((1,) if name == "fd_pread" else ()) + (self.res(),)
        elif name == "fd_seek":
            args = (fd, 0, 0, self.res())
        elif name in ("fd_tell", "fd_fdstat_get", "fd_prestat_get"):
            args = (fd, self.res(24))
        elif name == "fd_filestat_get":
            args = (fd, self.res(72))
        elif name == "fd_readdir":
            args = (fd, self.res(64), 0, 0, self.res())
        elif name in ("fd_close", "fd_datasync", "fd_sync"):
            args = (fd,)
        elif name == "fd_prestat_dir_name":
            args = (fd, self.res(16), 16)
        elif name == "path_open":
            p, l = P("a")
            args = (fd, 0, p, l, 0, RIGHTS_RW if abspath is None else R_READ, 0, 0, self.res())
        elif name == "path_filestat_get":
            p, l = P("f0")
            args = (fd, 0, p, l, self.res(72))
        elif name == "path_rename":
            p, l = P("u-none")
            q, m = P("u-none2")
            args = (fd, p, l, fd if fd2 is None else fd2, q, m)
        elif name in ("path_unlink_file", "path_remove_directory"):
            p, l = P("u-none")
            args = (fd, p, l)
        elif name == "path_create_directory":
            p, l = P("d0")            # exists: EEXIST, no state change
            args = (fd, p, l)
        elif name == "path_symlink":
            p, l = self.path("u-tgt")
            q, m = P("d0")            # exists: EEXIST
            args = (p, l, fd, q, m)
        elif name == "path_readlink":
            p, l = P("f0")            # not a symlink: EINVAL
            args = (fd, p, l, self.res(16), 16, self.res())
        elif name == "fd_filestat_set_size":
            args = (fd, 0)
        elif name == "fd_fdstat_set_flags":
            args = (fd, 0)
        else:
            raise KeyError(name)
        self.call(abi, name, *args)


PATH_CALLS = ["path_open", "path_filestat_get", "path_create_directory", "path_remove_directory", "path_unlink_file",
              "path_rename", "path_symlink", "path_readlink"]
# absolute guest paths.  wasi.c resolves them as host paths (as-is), so calls that could change the host only get
# paths below a directory that does not exist; read-only calls also get "/", "/f0", "/d0/f", "//x"
ABS_SAFE = ["/nonexistent-w2c2verif/x", "//nonexistent-w2c2verif/d0/f"]
ABS_READONLY = ["/", "/f0", "/d0/f", "//x"] + ABS_SAFE
READONLY_PATH_CALLS = {"path_open", "path_filestat_get", "path_readlink"}


def abs_paths_for(call):
    return ABS_READONLY if call in READONLY_PATH_CALLS else ABS_SAFE


def std_setup(h):
    """initial sandbox contents used by the C12/C13 generators"""
    h.raw("mkdir sb/d0")
    h.raw("mkfile sb/f0 " + b"abcdefghijklmnopqrstuvwxyz".hex())
    h.raw("mkfile sb/d0/g " + b"0123456789".hex())


# calls after whose SUCCESS on the real side a side that skipped them (model `r unmodelled`, twin `r skip`) is no
# longer in the same state (new descriptor, moved position, changed name space): comparison of that history stops
STATEFUL = {"path_open", "fd_seek", "fd_write", "fd_pwrite", "fd_read", "fd_pread", "fd_close", "path_rename",
            "path_unlink_file", "path_remove_directory", "path_create_directory", "path_symlink"}


def diverges(meta, real_line):
    p = real_line.split()
    return bool(meta) and meta["call"] in STATEFUL and p[:2] == ["r", "0"]


def table_tokens(line):
    """the ` !…` descriptor-table invariant reports of a real-mode answer line"""
    return [t[1:] for t in line.split() if t.startswith("!")]


def canon_line(line):
    """merge adjacent runs (`a:hex b:hex` with b = a + len) so both sides print maximal runs"""
    parts = [t for t in line.split() if not t.startswith("!")]
    if not parts or parts[0] not in ("r", "file"):
        return line
    k = 2
    head, items = parts[:k], parts[k:]
    out = []
    for it in items:
        if ":" not in it:
            out.append(it)
            continue
        a, hx = it.split(":")
        a = int(a)
        if out and isinstance(out[-1], tuple) and out[-1][0] + len(out[-1][1]) // 2 == a:
            out[-1] = (out[-1][0], out[-1][1] + hx)
        else:
            out.append((a, hx))
    return " ".join(head + [f"{x[0]}:{x[1]}" if isinstance(x, tuple) else x for x in out])


def run_model(driver_exe, histories, maxbytes=None, timeout=1800):
    text = (f"cfg maxbytes {maxbytes}\n" if maxbytes is not None else "") + format_histories(histories)
    p = subprocess.run([driver_exe], input=text, stdout=subprocess.PIPE, stderr=subprocess.PIPE, text=True, timeout=timeout)
    if p.returncode != 0:
        raise RuntimeError(f"wasidriver exited {p.returncode}: {p.stderr[-800:]}")
    return parse_output(p.stdout, len(histories))


def probe_maxbytes(workdir):
    """largest offset lseek(SEEK_SET) accepts on the scratch file system (s_maxbytes)"""
    path = os.path.join(workdir, "probe-maxbytes")
    fd = os.open(path, os.O_RDWR | os.O_CREAT, 0o600)
    try:
        lo, hi = 0, (1 << 63) - 1
        while lo < hi:
            mid = (lo + hi + 1) // 2
            try:
                os.lseek(fd, mid, os.SEEK_SET)
                lo = mid
            except OSError:
                hi = mid - 1
        return lo
    finally:
        os.close(fd)
        os.unlink(path)
