"""cpu_noise — scheduling noise for race searches on the REAL w2c2 binary.

On an idle machine the translator's worker pool runs its tasks practically one after the other (the producer publishes
the next task only when a worker signals `produce` at the top of its loop, and it re-acquires the mutex before the woken
worker has taken the task), so a data race between two writers (seeded C07/6 = C09/5) shows up in 0 of 48 runs; with a
handful of busy processes competing for the CPUs the same runs differ from the -t 1 output in about two thirds of the
cases.  `noise(n)` runs n busy loops for the duration of the with-block (each ends by itself after `limit` seconds, so
nothing is left behind if the check is killed).  The deterministic detector is tools/harness/writer_stress.py; this only
makes the demonstration on the unmodified command line likely.
"""
import contextlib
import subprocess
import sys
import time


@contextlib.contextmanager
def noise(n=8, limit=30):
    code = "import time\nt=time.time()\nwhile time.time()-t<%d:\n    pass\n" % limit
    procs = [subprocess.Popen([sys.executable, "-c", code], stdout=subprocess.DEVNULL, stderr=subprocess.DEVNULL) for _ in range(n)]
    try:
        time.sleep(0.15)
        yield
    finally:
        for p in procs:
            p.kill()
        for p in procs:
            try:
                p.wait(timeout=5)
            except Exception:
                pass
