"""e2e — end-to-end oracle (DESIGN §4.6 `e2e`, §4.7): the REAL w2c2 (built from a scratch copy of /repo)
translates a module, gcc/clang compile its output together with a generated embedder (`e2e_main.c.tmpl`),
the program executes a call script on one (or several) instance(s), and the observations are returned in
the same shape as `wasmgen.v8.run` so that `compare(real, v8)` lists the disagreements.

    tr  = translate(w2c2_exe, workdir, name, wasm_bytes, opts)          -> Translated
    res = run_real(repo_copy, workdir, w2c2_exe, module, calls, imports_spec, w2c2_opts=(), cc="gcc",
                   copts=("-O1",), sanitize=False)                         -> RealResult (one instance)
    rs  = run_real_multi(..., script=[(inst, name, args)], instances=2)   -> [RealResult per instance]
    compare(real, v8) -> [disagreement dict]

What the embedder provides (same as the V8 side of wasmgen.v8): imported functions k return
host_result_bits(type, host_hash(k, arg bits)) and log (k, args, instance pointer identity); imported
memories/tables are created with their declared limits, imported globals with imports_spec['globals'].
w2c2 does no bounds checks: V8 traps of class oob_*/indirect_call/unaligned/stack_overflow have no
counterpart; compare() stops at the first such call ("outside the property").
"""
import hashlib
import os
import re
import shutil
import subprocess
import sys

HERE = os.path.dirname(os.path.abspath(__file__))
sys.path.insert(0, os.path.join(HERE, ".."))
from wasmgen import wasm_ast as A  # noqa: E402
from wasmgen.encode import encode  # noqa: E402

TMPL = os.path.join(HERE, "e2e_main.c.tmpl")
CT = {A.I32: "U32", A.I64: "U64", A.F32: "F32", A.F64: "F64"}
VTN = A.VT_NAME
TRAP_CLASS = {0: "unreachable", 1: "div_by_zero", 2: "int_overflow", 3: "invalid_conversion", 4: "allocation_failed"}
# V8 trap classes that w2c2's output cannot raise (no bounds / signature checks): outside the properties
V8_ONLY_TRAPS = ("oob_memory", "oob_table", "indirect_call", "unaligned", "stack_overflow", "other")
SAN_FLAGS = ("-fsanitize=address,undefined", "-fno-sanitize-recover=all", "-fno-omit-frame-pointer")


class E2EError(Exception):
    """tool failure (never a violation)"""


class HeaderShape(E2EError):
    """the generated header does not have one function declaration per import entry / function / export: an observation about the
    real output (reported as a disagreement), not a tool failure"""


class Translated(object):
    def __init__(self):
        self.ok = False
        self.rc = None
        self.stderr = ""
        self.dir = None
        self.name = None
        self.cfiles = []        # absolute paths, main file first
        self.header = None
        self.other = []         # e.g. datasegments
        self.cmd = []


class RealResult(object):
    """Same fields as wasmgen.v8.RunResult (+ extras: all_globals, table, bound, host_inst_ok, build)."""

    def __init__(self):
        self.instantiate = None     # ('ok',) | ('trap', cls) | ('w2c2_error', msg) | ('build_error', msg) | ('ub', msg) | ('crash', msg)
        self.results = []           # ('val', [(ty, bits)]) | ('trap', cls) | ('skip',) | ('ub', line) | ('crash', what) | ('missing',)
        self.host_log = []          # [(func import index, [(ty, bits)])]
        self.host_calls = []        # call number of each host_log entry (-1 = during instantiation)
        self.host_inst_ok = True    # every host call received the calling instance
        self.mem = None             # {'sha256','pages'}
        self.mem_bytes = None       # raw bytes (kept only when keep_mem)
        self.mem_accessor_ok = None
        self.globals = {}           # {export name: (ty, bits)}  (exported globals, as V8 reports them)
        self.all_globals = {}       # {global index: (ty, bits)}
        self.table = None           # [func index | None] of table 0
        self.bound = {}             # {import ordinal: bool}
        self.init = None            # state right after instantiation: {'mem', 'all_globals', 'table', 'mem_bytes'} (init_dump=True)
        self.child_dumps = {}       # {child k: {'self': dump, 'parent': dump}} right after k was made by NewChild (init_dump=True); filled
                                    # on the CHILD's result; dump = {'mem', 'all_globals', 'table', 'mem_bytes', 'bound'}
        self.child_of = None        # parent instance when this instance was made by NewChild
        self.mem_exports = {}       # {export ordinal: {'index', 'same_object', 'pages', 'sha256', 'bytes'}}: every exported memory read through its accessor
        self.reinst_dump = None     # dump of the instance made after <module>FreeInstance + a second <module>Instantiate (reinst)
        self.func_exports = "absent"  # rows of instance.common.funcExports at the end: {'rows': [[func index, name hex]], 'terminated'} | None (NULL)
        self.messages = []
        self.build = []             # command lines
        self.ub = None              # first line of a sanitizer report

    def to_dict(self):
        d = dict(self.__dict__)
        d.pop("mem_bytes", None)
        if d.get("init"):
            d["init"] = {k: v for k, v in d["init"].items() if k != "mem_bytes"}
        d["mem_exports"] = {str(k): {f: v for f, v in x.items() if f != "bytes"} for k, x in self.mem_exports.items()}
        if d.get("reinst_dump"):
            d["reinst_dump"] = {k: v for k, v in d["reinst_dump"].items() if k != "mem_bytes"}
        d["child_dumps"] = {str(k): {w: ({f: v for f, v in dd.items() if f != "mem_bytes"} if w != "shared" else dd) for w, dd in x.items()}
                            for k, x in self.child_dumps.items()}
        d["globals"] = {k.hex() if isinstance(k, bytes) else str(k): v for k, v in self.globals.items()}
        return d

    def __repr__(self):
        return "RealResult(%r, %r, log=%d, mem=%r)" % (self.instantiate, self.results, len(self.host_log), self.mem)


# ------------------------------------------------------------------------------- translate
def _w2c2_limits():
    import resource
    # a translator gone wrong must not eat the machine: 6 GiB address space, 60 s CPU
    resource.setrlimit(resource.RLIMIT_AS, (6 << 30, 6 << 30))
    resource.setrlimit(resource.RLIMIT_CPU, (60, 60))


def translate(w2c2_exe, workdir, name, wasm_bytes, opts=(), timeout=120, env=None):
    """Run the real w2c2 in a fresh directory workdir/name; collects every file it writes."""
    tr = Translated()
    name = re.sub(r"[^A-Za-z0-9]", "", name) or "m"       # w2c2 derives the module name from the alphanumerics of the file name
    if name[0].isdigit():
        name = "m" + name
    d = os.path.join(workdir, name)
    if os.path.isdir(d):
        shutil.rmtree(d)
    os.makedirs(d)
    wasm = os.path.join(d, name + ".wasm")
    with open(wasm, "wb") as f:
        f.write(wasm_bytes)
    out = os.path.join(d, name + ".c")
    tr.cmd = [w2c2_exe] + list(opts) + [wasm, out]
    e = dict(os.environ)
    if env:
        e.update(env)
    try:
        p = subprocess.run(tr.cmd, stdout=subprocess.PIPE, stderr=subprocess.PIPE, timeout=timeout, env=e, cwd=d, preexec_fn=_w2c2_limits)
    except subprocess.TimeoutExpired:
        tr.stderr = "timeout"
        tr.dir, tr.name = d, name
        return tr
    tr.rc = p.returncode
    tr.stderr = p.stderr.decode("utf-8", "replace")[-2000:]
    tr.dir, tr.name = d, name
    tr.ok = p.returncode == 0 and os.path.exists(out)
    if tr.ok:
        tr.cfiles = [out] + [os.path.join(d, f) for f in sorted(os.listdir(d)) if re.fullmatch(r"[sd]\d{10}\.c", f)]
        tr.header = os.path.join(d, name + ".h")
        tr.other = [os.path.join(d, f) for f in sorted(os.listdir(d))
                    if f not in (name + ".wasm", name + ".c", name + ".h") and not re.fullmatch(r"[sd]\d{10}\.c", f)]
    return tr


# ------------------------------------------------------------------------------- header parsing
class HeaderInfo(object):
    pass


def parse_header(text, module, name):
    """Field names of the instance struct and the C names of imports / functions / exports, by position
    (the header lists: struct{common; memory imports; table imports; global imports; memories; tables;
    globals}; function imports; defined functions; exports of kind function|memory in export order)."""
    h = HeaderInfo()
    m = re.search(r"typedef struct %sInstance \{\n(.*?)\n\} %sInstance;" % (re.escape(name), re.escape(name)), text, re.S)
    if not m:
        raise E2EError("instance struct not found in header")
    fields = []
    for line in m.group(1).split("\n"):
        line = line.strip()
        if not line:
            continue
        fm = re.fullmatch(r"(.*?)(\w+);", line)
        if not fm:
            raise E2EError("cannot parse struct field %r" % line)
        fields.append((fm.group(1).strip(), fm.group(2)))
    n_mi = sum(1 for i in module.imports if i.kind == "memory")
    n_ti = sum(1 for i in module.imports if i.kind == "table")
    n_gi = sum(1 for i in module.imports if i.kind == "global")
    # an object imported several times ((module, field) of an earlier entry of the same kind) has ONE member, declared at its first entry
    # (w2c2 994dbb2; before: one member per entry — duplicate members, the header does not compile, which then is the finding)
    own = {k: import_owner(module, k) for k in ("memory", "table", "global")}
    d_mi, d_ti, d_gi = (len(set(own[k])) for k in ("memory", "table", "global"))
    rest_n = len(module.mems) + len(module.tables) + len(module.globals)
    if len(fields) == 1 + d_mi + d_ti + d_gi + rest_n:
        def members(kind, start):
            firsts = sorted(set(own[kind]))
            return [fields[start + firsts.index(o)] for o in own[kind]]
        pos = 1
        h.mem_imports = members("memory", pos); pos += d_mi
        h.table_imports = members("table", pos); pos += d_ti
        h.global_imports = members("global", pos); pos += d_gi
    elif len(fields) == 1 + n_mi + n_ti + n_gi + rest_n:
        pos = 1
        h.mem_imports = fields[pos:pos + n_mi]; pos += n_mi
        h.table_imports = fields[pos:pos + n_ti]; pos += n_ti
        h.global_imports = fields[pos:pos + n_gi]; pos += n_gi
    else:
        raise E2EError("instance struct has %d fields, module shape wants %d (or %d with one member per import entry)"
                       % (len(fields), 1 + d_mi + d_ti + d_gi + rest_n, 1 + n_mi + n_ti + n_gi + rest_n))
    h.mems = fields[pos:pos + len(module.mems)]; pos += len(module.mems)
    h.tables = fields[pos:pos + len(module.tables)]; pos += len(module.tables)
    h.globals = fields[pos:pos + len(module.globals)]
    rest = text[m.end():]
    end = rest.find("void %sInstantiate(" % name)
    if end < 0:
        raise E2EError("Instantiate prototype not found in header")
    decls = []
    for dm in re.finditer(r"^[ \t]*([^\n;{}#]+?)\s*;", rest[:end], re.M):
        t = dm.group(1).strip()
        nm = re.search(r"(\w+)\s*\(", t)
        if nm:
            decls.append((nm.group(1), t))
    n_fi = sum(1 for i in module.imports if i.kind == "func")
    exps = [e for e in module.exports if e.kind in ("func", "memory")]
    if len(decls) != n_fi + len(module.funcs) + len(exps):
        raise HeaderShape("the generated header declares %d functions; the module has %d function imports + %d functions + %d function/memory exports "
                          "(one declaration each)" % (len(decls), n_fi, len(module.funcs), len(exps)))
    h.func_imports = [d[0] for d in decls[:n_fi]]
    h.func_import_decls = [d[1] for d in decls[:n_fi]]
    h.funcs = [d[0] for d in decls[n_fi:n_fi + len(module.funcs)]]
    h.exports = {}
    h.export_list = []
    for e, d in zip(exps, decls[n_fi + len(module.funcs):]):
        h.exports.setdefault((e.kind, bytes(e.name)), d[0])
        h.export_list.append((e.kind, bytes(e.name), e.index, d[0]))
    return h


def c_string(b):
    return '"' + "".join("\\%03o" % c for c in bytes(b)) + '"'


def lit(ty, bits):
    ty = ty if isinstance(ty, str) else VTN[ty]
    if ty == "i32":
        return "0x%xU" % (bits & 0xFFFFFFFF)
    if ty == "i64":
        return "0x%xULL" % (bits & 0xFFFFFFFFFFFFFFFF)
    if ty == "f32":
        return "f32_of(0x%xU)" % (bits & 0xFFFFFFFF)
    return "f64_of(0x%xULL)" % (bits & 0xFFFFFFFFFFFFFFFF)


def show(ty, expr):
    """printf format + argument printing `expr` of wasm type ty as `ty:hexbits`."""
    ty = ty if isinstance(ty, str) else VTN[ty]
    if ty == "i32":
        return "i32:%x", "(unsigned)(%s)" % expr
    if ty == "i64":
        return "i64:%llx", "(unsigned long long)(%s)" % expr
    if ty == "f32":
        return "f32:%x", "(unsigned)bits_f32(%s)" % expr
    return "f64:%llx", "(unsigned long long)bits_f64(%s)" % expr


def gen_main(module, name, header_text, script, imports_spec=None, instances=1, init_dump=False, children=None, reinst=None):
    """C text of the embedder for `script` = [(instance, export name bytes, [(ty, bits)])].
    children = {k: (parent, at)}: instance k is not instantiated at start-up but made by `parent`'s common.newChild (the emitted
    <module>NewChild) right before script entry `at` (at = len(script): after the last call); the resolver gives it the parent's
    imported memories and globals and a table of its own."""
    children = children or {}
    # reinst = [k]: after the last call instance k is released with <module>FreeInstance and instantiated AGAIN in the same process (its
    # memories / tables then come out of recycled heap chunks); the new instance is dumped (phase `reinst`)
    h = parse_header(header_text, module, name)
    gl = (imports_spec or {}).get("globals", {})
    storage, alloc, resolve, hosts, funcids, dumps = [], [], [], [], [], []
    fidx = 0
    mi = ti = gi = 0
    seen_host = set()
    for n, im in enumerate(module.imports):
        if im.kind == "func":
            ft = module.types[im.desc]
            cname = h.func_imports[fidx]
            if cname in seen_host:
                fidx += 1
                continue            # two imports mangled to one C identifier: the compile error (if any) is the finding
            seen_host.add(cname)
            ret = CT[ft.results[0]] if ft.results else "void"
            params = "".join(", %s a%d" % (CT[t], k) for k, t in enumerate(ft.params))
            body = ["%s %s(void* instance%s) {" % (ret, cname, params), "  U64 h = 0xcbf29ce484222325ULL ^ %dULL;" % fidx]
            fmts, fargs = [], []
            for k, t in enumerate(ft.params):
                e = {A.I32: "(U64)a%d", A.I64: "a%d", A.F32: "canon32(a%d)", A.F64: "canon64(a%d)"}[t] % k
                body.append("  U64 b%d = %s;" % (k, e))
                fmts.append(" %s:%%llx" % VTN[t])
                fargs.append(", (unsigned long long)b%d" % k)
            for k in range(len(ft.params)):
                body.append("  h = hmix(h, b%d);" % k)
            body.append("  h = hfin(h);")
            body.append('  OUT("h %%d %%d %d %%d%s\\n", cur, callno, instOk(instance)%s);' % (fidx, "".join(fmts), "".join(fargs)))
            if ft.results:
                body.append("  return hres_%s(h);" % VTN[ft.results[0]])
            body.append("}")
            hosts.append("\n".join(body))
            funcids.append("  {(wasmFunc)&%s, %d}," % (cname, fidx))
            fidx += 1
        elif im.kind == "memory":
            lim = im.desc
            n0 = import_owner_entry(module, n)      # an object imported once more: the host object of its first entry (one per C symbol)
            if n0 == n:
                storage.append("static wasmMemory* impmem%d[NINST];" % n)
                alloc.append("    impmem%d[k] = wasmMemoryAllocate(%dU, %dU, %s);" % (n, lim.min, lim.max if lim.max is not None else 65536, "true" if lim.shared else "false"))
                mf = (imports_spec or {}).get("mem_fill") or {}
                for off, hx in (mf.get(n, mf.get(str(n))) or []):      # bytes the embedder wrote before instantiation
                    alloc.append('    memcpy(impmem%d[k]->data + %dU, %s, %d);' % (n, int(off), c_string(bytes.fromhex(hx)), len(hx) // 2))
                resolve.append("  if (!strcmp(module, %s) && !strcmp(name, %s)) return impmem%d[rescur];" % (c_string(im.module), c_string(im.field), n))
            dumps.append('    OUT("b %%d %d %%d\\n", k, INST(k).%s == impmem%d[impOwner[k]]);' % (n, h.mem_imports[mi][1], n0))
            mi += 1
        elif im.kind == "table":
            lim = im.desc.limits
            n0 = import_owner_entry(module, n)
            if n0 == n:
                storage.append("static wasmTable imptab%d[NINST];" % n)
                alloc.append("    wasmTableAllocate(&imptab%d[k], %dU, %uU);" % (n, lim.min, lim.max if lim.max is not None else 4294967295))
                resolve.append("  if (!strcmp(module, %s) && !strcmp(name, %s)) return &imptab%d[cur];" % (c_string(im.module), c_string(im.field), n))
            # (an imported table is never shared with a child: a wasm table entry is a closure over its defining instance, w2c2's is a C
            #  function pointer called with the CALLER's instance — with a table shared between instances the two differ by design)
            dumps.append('    OUT("b %%d %d %%d\\n", k, INST(k).%s == &imptab%d[k]);' % (n, h.table_imports[ti][1], n0))
            ti += 1
        else:
            vt = im.desc.valtype
            n0 = import_owner_entry(module, n)
            if n0 == n:
                bits = int(gl.get(n, gl.get(str(n), 0)))
                storage.append("static %s impglob%d[NINST];" % (CT[vt], n))
                alloc.append("    impglob%d[k] = %s;" % (n, lit(vt, bits)))
                resolve.append("  if (!strcmp(module, %s) && !strcmp(name, %s)) return &impglob%d[rescur];" % (c_string(im.module), c_string(im.field), n))
            dumps.append('    OUT("b %%d %d %%d\\n", k, INST(k).%s == &impglob%d[impOwner[k]]);' % (n, h.global_imports[gi][1], n0))
            f, a = show(vt, "impglob%d[impOwner[k]]" % n0)
            dumps.append('    OUT("g %%d %d %s\\n", k, %s);' % (gi, f, a))
            gi += 1
    n_fi = fidx_total = sum(1 for i in module.imports if i.kind == "func")
    for k, cname in enumerate(h.funcs):
        funcids.append("  {(wasmFunc)&%s, %d}," % (cname, n_fi + k))
    n_gi = gi
    for k, g in enumerate(module.globals):
        f, a = show(g.type.valtype, "INST(k).%s" % h.globals[k][1])
        dumps.append('    OUT("g %%d %d %s\\n", k, %s);' % (n_gi + k, f, a))
    # table 0
    timp = [n for n, i in enumerate(module.imports) if i.kind == "table"]
    if timp:
        dumps.append("    dumpTable(k, &imptab%d[k]);" % timp[0])
    elif module.tables:
        dumps.append("    if (INST(k).%s.data != NULL || INST(k).%s.size == 0) dumpTable(k, &INST(k).%s);" % ((h.tables[0][1],) * 3))
    dumps.append("    dumpFuncExports(k, %d);" % (len(module.exports) + 2))
    # memory 0
    mimp = [n for n, i in enumerate(module.imports) if i.kind == "memory"]
    acc = None
    for kind, ename, index, cname in h.export_list:
        if kind == "memory" and index == 0:
            acc = cname
            break
    # every exported memory through its `<module>_<name>` accessor: the object the accessor returns must be the instance's memory of the
    # EXPORT's index; its page count and bytes are dumped (memories other than 0 are reachable only this way)
    n_mi_ = len(h.mem_imports)
    for ordn, (kind, ename, index, cname) in enumerate(h.export_list):
        if kind != "memory":
            continue
        fld = "INST(k).%s" % (h.mem_imports[index][1] if index < n_mi_ else h.mems[index - n_mi_][1])
        dumps.append("    if (alive[k]) dumpAccessor(k, %d, %d, %s(&INST(k)), %s);" % (ordn, index, cname, fld))
    if mimp or module.mems:
        field = "impmem%d[impOwner[k]]" % mimp[0] if mimp else "INST(k).%s" % h.mems[0][1]
        accok = "(alive[k] ? %s(&INST(k)) == %s : -1)" % (acc, field) if acc else "-1"
        dumps.append("    if (%s != NULL) dumpMemory(k, %s, %s);" % (field, field, accok))
    # calls
    calls = []
    sigs = {}
    for e in module.exports:
        if e.kind == "func":
            sigs.setdefault(bytes(e.name), module.func_sig(e.index))
    nth = {}
    for cn, (ins, ename, args) in enumerate(script):
        ename = ename.encode("utf-8") if isinstance(ename, str) else bytes(ename)
        if ename not in sigs:
            raise E2EError("no exported function %r" % ename)
        sig = sigs[ename]
        cname = h.exports[("func", ename)]
        if len(args) != len(sig.params):
            raise E2EError("call %d: %d args for %d params" % (cn, len(args), len(sig.params)))
        argl = "".join(", " + lit(t, b) for (t, b) in args)
        call = "%s(&INST(%d)%s)" % (cname, ins, argl)
        pre = ""
        nth[ins] = nth.get(ins, 0) + 1
        if nth[ins] % 2 == 0 and 0 not in ename:          # every other call OF THIS INSTANCE (its projection does not depend on the interleaving)
            # every other call goes through the name table <module>FuncExports (lookup by name, call through the row's pointer), the
            # others through the <module>_<name> symbol: both must reach the exported function
            # the row's pointer is the exported function itself: a defined function takes <module>Instance*, an exported import is one of
            # the host functions above (void*): call through exactly that type
            fexp = [e.index for e in module.exports if e.kind == "func" and bytes(e.name) == ename][0]
            itype = "void*" if fexp < n_fi else "%sInstance*" % name
            ptype = "%s (*)(%s%s)" % (CT[sig.results[0]] if sig.results else "void", itype, "".join(", " + CT[t] for t in sig.params))
            pre = 'wasmFunc lk = lookupExport(%d, %s); if (lk == NULL) { OUT("r %d nolookup\\n"); } else ' % (ins, c_string(ename), cn)
            call = "((%s)lk)((%s)&INST(%d)%s)" % (ptype, itype, ins, argl)
        if sig.results:
            f, a = show(sig.results[0], "r")
            stmt = '%s{ %s r = %s; OUT("r %d val %s\\n", %s); }' % (pre, CT[sig.results[0]], call, cn, f, a)
        else:
            stmt = '%s{ %s; OUT("r %d val\\n"); }' % (pre, call, cn)
        for ck in sorted(children):
            if children[ck][1] == cn:
                calls.append("  newChild(%d, %d);" % (ck, children[ck][0]))
        calls.append("  cur = %d; callno = %d;\n  if (!alive[cur]) OUT(\"r %d skip\\n\");\n  else if (!setjmp(jb)) { %s }\n  else OUT(\"r %d trap %%d\\n\", trapCode);"
                     % (ins, cn, cn, stmt, cn))
    for ck in sorted(children):
        if children[ck][1] >= len(script):
            calls.append("  newChild(%d, %d);" % (ck, children[ck][0]))
    for rk in (reinst or ()):
        calls.append("  reinstantiate(%d);" % rk)
    t = open(TMPL).read()
    share = ['    OUT("s %%d %d %%d\\n", k, INST(k).%s == INST(parent).%s);' % (len(h.mem_imports) + j, f[1], f[1]) for j, f in enumerate(h.mems)]
    rep = {"@@CHILD_SHARE@@": "\n".join(share), "@@SKIP_CHILD@@": "    if (isChildSlot[k]) { alive[k] = 0; continue; }" if children else "",
           "@@CHILD_SLOTS@@": "".join("%d, " % (1 if k in children else 0) for k in range(instances)),
           "@@HEADER@@": name + ".h", "@@NINST@@": str(instances), "@@MOD@@": name,
           "@@IMPORT_STORAGE@@": "\n".join(storage), "@@HOST_FUNCS@@": "\n\n".join(hosts),
           "@@RESOLVE@@": "\n".join(resolve), "@@FUNC_IDS@@": "\n".join(funcids),
           "@@ALLOC_IMPORTS@@": "\n".join(alloc), "@@CALLS@@": "\n".join(calls), "@@DUMPS@@": "\n".join(dumps),
           "@@INIT_DUMP@@": "1" if init_dump else "0"}
    for k, v in rep.items():
        t = t.replace(k, v)
    return t


# ------------------------------------------------------------------------------- build + run
def build_cmd(cc, copts, sanitize, repo_copy, tr, main_c, exe):
    cmd = [cc] + list(copts)
    if not any(o == "-w" or o.startswith("-W") for o in copts):
        cmd.append("-w")
    if sanitize:
        cmd += list(SAN_FLAGS)
    cmd += ["-I", os.path.join(repo_copy, "w2c2"), "-I", tr.dir] + list(tr.cfiles) + [main_c] + list(getattr(tr, "objs", [])) + \
        ["-o", exe, "-lm", "-lpthread"]
    return cmd


def link_datasegments(tr):
    """`-d gnu-ld`: turn the `datasegments` blob w2c2 wrote into an object defining _binary_datasegments_start (as the
    project's README does: ld -r -b binary); the object is added to the link by build_cmd."""
    blob = os.path.join(tr.dir, "datasegments")
    if not os.path.exists(blob):
        raise E2EError("-d gnu-ld: w2c2 wrote no `datasegments` file")
    obj = os.path.join(tr.dir, "datasegments.o")
    p = subprocess.run(["ld", "-r", "-b", "binary", "-z", "noexecstack", "-o", "datasegments.o", "datasegments"], cwd=tr.dir,
                       stdout=subprocess.PIPE, stderr=subprocess.PIPE, text=True)
    if p.returncode != 0:
        raise E2EError("ld -r -b binary failed: " + p.stderr[-300:])
    tr.objs = [obj]


def first_san_line(stderr):
    for line in stderr.splitlines():
        if "runtime error:" in line or "ERROR: AddressSanitizer" in line or "ERROR: LeakSanitizer" in line:
            line = re.sub(r"^.*?([\w.]+\.[ch]:\d+)", r"\1", line) if "runtime error:" in line else line
            return re.sub(r"0x[0-9a-f]{6,}", "0x…", line.strip())[:300]
    return None


def parse_func_exports(ws):
    """`<func index>:=<hex name>… end:<0|1>` | `null` -> {'rows': [[func index, name hex | None]], 'terminated': bool} | None"""
    if ws == ["null"]:
        return None
    rows = []
    for t in ws[:-1]:
        i, _, nm = t.partition(":")
        rows.append([int(i), nm[1:] if nm.startswith("=") else None])
    return {"rows": rows, "terminated": ws[-1] == "end:1"}


def expected_func_exports(module):
    """rows of <module>FuncExports per the documentation: every function export, in export order, (function index, name)"""
    return [[e.index, bytes(e.name).hex()] for e in module.exports if e.kind == "func"]


def parse_output(out, module, instances, ncalls, script, rundir, keep_mem=False):
    rs = [RealResult() for _ in range(instances)]
    per_call = {}
    done = False
    phase = "final"
    child_k = None
    inits = [{"mem": None, "all_globals": {}, "table": None, "mem_bytes": None} for _ in range(instances)]

    for line in out.splitlines():
        w = line.split()
        if not w:
            continue
        if w[0] == "p":
            phase = w[1]
            if phase in ("child", "prechild", "reinst"):
                child_k = int(w[2])
            continue
        if phase == "child" and w[0] == "s":
            rs[child_k].child_dumps.setdefault(child_k, {}).setdefault("shared", {})[int(w[2])] = w[3] == "1"
            continue
        if phase in ("child", "prechild") and w[0] in ("b", "g", "t", "m"):
            who = "parent_before" if phase == "prechild" else ("self" if int(w[1]) == child_k else "parent")
            dd = rs[child_k].child_dumps.setdefault(child_k, {}).setdefault(who, {"mem": None, "all_globals": {}, "table": None, "mem_bytes": None, "bound": {}})
            if w[0] == "g":
                t, b = w[3].split(":")
                dd["all_globals"][int(w[2])] = (t, int(b, 16))
            elif w[0] == "t":
                dd["table"] = [None if int(x.split(":")[1]) == -1 else int(x.split(":")[1]) for x in w[3:]]
            elif w[0] == "b":
                dd["bound"][int(w[2])] = w[3] == "1"
            else:
                data = open(os.path.join(rundir, w[4]), "rb").read()
                dd["mem"] = {"sha256": hashlib.sha256(data).hexdigest(), "pages": int(w[2])}
                dd["mem_bytes"] = data if keep_mem else None
            continue
        if phase in ("init", "child", "prechild", "reinst") and w[0] in ("x", "a"):
            continue
        if phase == "reinst" and w[0] in ("b", "g", "t", "m"):
            dd = rs[child_k].reinst_dump
            if dd is None:
                dd = rs[child_k].reinst_dump = {"mem": None, "all_globals": {}, "table": None, "mem_bytes": None, "bound": {}}
            if w[0] == "g":
                t, b = w[3].split(":")
                dd["all_globals"][int(w[2])] = (t, int(b, 16))
            elif w[0] == "t":
                dd["table"] = [None if int(x.split(":")[1]) == -1 else int(x.split(":")[1]) for x in w[3:]]
            elif w[0] == "b":
                dd["bound"][int(w[2])] = w[3] == "1"
            else:
                data = open(os.path.join(rundir, w[4]), "rb").read()
                dd["mem"] = {"sha256": hashlib.sha256(data).hexdigest(), "pages": int(w[2])}
                dd["mem_bytes"] = data if keep_mem else None
            continue
        if phase == "init" and w[0] in ("b", "g", "t", "m"):
            if w[0] == "g":
                t, b = w[3].split(":")
                inits[int(w[1])]["all_globals"][int(w[2])] = (t, int(b, 16))
            elif w[0] == "t":
                inits[int(w[1])]["table"] = [None if int(x.split(":")[1]) == -1 else int(x.split(":")[1]) for x in w[3:]]
            elif w[0] == "m":
                data = open(os.path.join(rundir, w[4]), "rb").read()
                inits[int(w[1])]["mem"] = {"sha256": hashlib.sha256(data).hexdigest(), "pages": int(w[2])}
                inits[int(w[1])]["mem_bytes"] = data if keep_mem else None
            continue
        if w[0] == "i":
            r = rs[int(w[1])]
            r.instantiate = ("ok",) if w[2] == "ok" else (("skip",) if w[2] == "skip" else ("trap", TRAP_CLASS.get(int(w[3]), "trap%s" % w[3])))
        elif w[0] == "c":
            rs[int(w[1])].child_of = int(w[2])
            if w[3] != "1":
                rs[int(w[1])].host_inst_ok = False
        elif w[0] == "h":
            r = rs[int(w[1])]
            r.host_log.append((int(w[3]), [(a.split(":")[0], int(a.split(":")[1], 16)) for a in w[5:]]))
            r.host_calls.append(int(w[2]))
            if w[4] != "1":
                r.host_inst_ok = False
        elif w[0] == "r":
            cn = int(w[1])
            if w[2] == "val":
                per_call[cn] = ("val", [(a.split(":")[0], int(a.split(":")[1], 16)) for a in w[3:]])
            elif w[2] == "trap":
                per_call[cn] = ("trap", TRAP_CLASS.get(int(w[3]), "trap%s" % w[3]))
            elif w[2] == "nolookup":
                per_call[cn] = ("nolookup", "the export is not in <module>FuncExports")
            else:
                per_call[cn] = ("skip",)
        elif w[0] == "b":
            rs[int(w[1])].bound[int(w[2])] = w[3] == "1"
        elif w[0] == "g":
            t, b = w[3].split(":")
            rs[int(w[1])].all_globals[int(w[2])] = (t, int(b, 16))
        elif w[0] == "t":
            tab = []
            for s in w[3:]:
                v = int(s.split(":")[1])
                tab.append(None if v == -1 else v)
            rs[int(w[1])].table = tab
        elif w[0] == "m":
            r = rs[int(w[1])]
            data = open(os.path.join(rundir, w[4]), "rb").read()
            r.mem = {"sha256": hashlib.sha256(data).hexdigest(), "pages": int(w[2])}
            r.mem_accessor_ok = {"1": True, "0": False}.get(w[3])
            if keep_mem:
                r.mem_bytes = data
        elif w[0] == "a":
            # a <inst> <export ordinal> <memory index> <accessor == instance field> <pages> <file>
            data = open(os.path.join(rundir, w[6]), "rb").read()
            rs[int(w[1])].mem_exports[int(w[2])] = {"index": int(w[3]), "same_object": w[4] == "1", "pages": int(w[5]),
                                                    "sha256": hashlib.sha256(data).hexdigest(), "bytes": data if keep_mem else None}
        elif w[0] == "x":
            rs[int(w[1])].func_exports = parse_func_exports(w[2:])
        elif w[0] == "done":
            done = True
        elif w[0] == "err":
            raise E2EError("embedder: " + line)
    for k, r in enumerate(rs):
        for e in module.exports:
            if e.kind == "global" and e.index in r.all_globals:
                r.globals[bytes(e.name)] = r.all_globals[e.index]
        if inits[k]["mem"] is not None or inits[k]["all_globals"] or inits[k]["table"] is not None:
            r.init = inits[k]
    return rs, per_call, done


def has_shared_memory(module):
    try:
        return any(getattr(l, "shared", False) for l in module.mems) or \
            any(i.kind == "memory" and getattr(i.desc, "shared", False) for i in module.imports)
    except Exception:
        return False


def run_real_multi(repo_copy, workdir, w2c2_exe, module, script, imports_spec=None, instances=1, w2c2_opts=(),
                   cc="gcc", copts=("-O1",), sanitize=False, name="m", timeout=20, keep_mem=False, wasm_bytes=None,
                   translated=None, keep=False, init_dump=False, children=None, reinst=None):
    """script = [(instance, export name, [(ty, bits)])].  Returns [RealResult] (one per instance); the
    `results` of instance k are those of its own calls, in order.  children: see gen_main."""
    tr = translated or translate(w2c2_exe, workdir, name, wasm_bytes if wasm_bytes is not None else encode(module), w2c2_opts)
    rs = [RealResult() for _ in range(instances)]
    if has_shared_memory(module) and not any("WASM_THREADS" in o for o in copts):
        copts = tuple(copts) + ("-DWASM_THREADS_PTHREADS", "-pthread")       # shared memories need a threads implementation

    def fail(kind, msg, cmd=None):
        for r in rs:
            r.instantiate = (kind, msg)
            r.results = [("missing",)] * sum(1 for s in script if s[0] == rs.index(r))
            if cmd:
                r.build.append(" ".join(cmd))
        return rs
    if not tr.ok:
        return fail("w2c2_error", "rc=%r %s" % (tr.rc, tr.stderr[-300:]), tr.cmd)
    if "gnu-ld" in tr.cmd and not getattr(tr, "objs", None):
        link_datasegments(tr)
    try:
        try:
            main_text = gen_main(module, tr.name, open(tr.header).read(), script, imports_spec, instances, init_dump, children, reinst)
        except HeaderShape as ex:
            return fail("header_mismatch", str(ex), tr.cmd)
        main_c = os.path.join(tr.dir, "e2e_main_%s.c" % tr.name)
        with open(main_c, "w") as f:
            f.write(main_text)
        exe = os.path.join(tr.dir, "e2e_%s_%s%s" % (cc, "".join(c for c in "".join(copts) if c.isalnum()), "_san" if sanitize else ""))
        cmd = build_cmd(cc, copts, sanitize, repo_copy, tr, main_c, exe)
        p = subprocess.run(cmd, stdout=subprocess.PIPE, stderr=subprocess.PIPE, text=True, cwd=tr.dir)
        if p.returncode != 0:
            errs = [l for l in p.stderr.splitlines() if "error" in l][:4]
            return fail("build_error", " | ".join(errs)[:600] or p.stderr[-400:], cmd)
        # MALLOC_PERTURB_ (glibc): bytes handed out by malloc / left by free are non-zero, calloc stays zero: state that must be zero /
        # null after instantiation (table slots, memory bytes, struct fields) but is taken from malloc shows up in the dumps
        env = dict(os.environ, ASAN_OPTIONS="detect_leaks=0:abort_on_error=0:allocator_may_return_null=1", UBSAN_OPTIONS="print_stacktrace=0",
                   MALLOC_PERTURB_="165")
        try:
            q = subprocess.run([exe], stdout=subprocess.PIPE, stderr=subprocess.PIPE, cwd=tr.dir, timeout=timeout, env=env)
            out, err, rc = q.stdout.decode("ascii", "replace"), q.stderr.decode("utf-8", "replace"), q.returncode
        except subprocess.TimeoutExpired as te:
            out, err, rc = (te.stdout or b"").decode("ascii", "replace"), "", "timeout"
        rs, per_call, done = parse_output(out, module, instances, len(script), script, tr.dir, keep_mem)
        abnormal = None
        if not done:
            san = first_san_line(err)
            if san:
                abnormal = ("ub", san)
            elif rc == "timeout":
                abnormal = ("timeout", "no result within %ss" % timeout)
            else:
                abnormal = ("crash", "rc=%r %s" % (rc, err.strip().splitlines()[-1][:200] if err.strip() else ""))
        first_missing = True
        for cn, (ins, ename, args) in enumerate(script):
            r = rs[ins]
            if cn in per_call:
                r.results.append(per_call[cn])
            elif abnormal and first_missing and r.instantiate is not None:
                r.results.append(abnormal)
                first_missing = False
            else:
                r.results.append(("missing",))
        for r in rs:
            r.build.append(" ".join(cmd))
            if abnormal:
                if abnormal[0] == "ub":
                    r.ub = abnormal[1]
                r.messages.append("%s: %s" % abnormal)
                if r.instantiate is None:
                    r.instantiate = abnormal
        return rs
    finally:
        if not keep and translated is None:
            shutil.rmtree(tr.dir, ignore_errors=True)


def run_real(repo_copy, workdir, w2c2_exe, module, calls, imports_spec=None, w2c2_opts=(), cc="gcc", copts=("-O1",),
             sanitize=False, **kw):
    """One instance; `calls` = [(export name, [(ty, bits)])] as for wasmgen.v8.run."""
    script = [(0, n, a) for n, a in calls]
    return run_real_multi(repo_copy, workdir, w2c2_exe, module, script, imports_spec, 1, w2c2_opts, cc, copts, sanitize, **kw)[0]


# ------------------------------------------------------------------------------- comparison
def is_nan(ty, bits):
    if ty == "f32":
        return (bits & 0x7FFFFFFF) > 0x7F800000
    if ty == "f64":
        return (bits & 0x7FFFFFFFFFFFFFFF) > 0x7FF0000000000000
    return False


def same_vals(a, b):
    if len(a) != len(b):
        return False
    for (t1, b1), (t2, b2) in zip(a, b):
        if t1 != t2:
            return False
        if b1 != b2 and not (is_nan(t1, b1) and is_nan(t2, b2)):
            return False
    return True


def trap_compatible(real_cls, v8_cls):
    if real_cls == v8_cls:
        return True
    # V8 reports both NaN and out-of-range float->int as "unrepresentable"; w2c2 distinguishes them
    return v8_cls == "invalid_conversion" and real_cls == "int_overflow"


def same_result(r, v):
    if r[0] != v[0]:
        return False
    if r[0] == "val":
        return same_vals(r[1], v[1])
    if r[0] == "trap":
        return trap_compatible(r[1], v[1])
    return r[0] == "ok"


def compare(real, v8, what=("instantiate", "results", "host_log", "mem", "globals")):
    """Disagreements between a RealResult and a wasmgen.v8.RunResult of the same module + calls.
    Returns (diffs, info): diffs = [{'kind', 'call', 'real', 'v8'}], info = {'compared_calls', 'skipped_after'}."""
    diffs = []
    info = {"compared_calls": 0, "skipped_after": None}
    vi = v8.instantiate
    if vi[0] in ("invalid", "link", "error"):
        raise E2EError("V8 did not accept the module: %r %r" % (vi, v8.messages[:1]))
    if real.instantiate[0] in ("w2c2_error", "build_error", "header_mismatch"):
        diffs.append({"kind": real.instantiate[0], "call": None, "real": real.instantiate, "v8": vi})
        return diffs, info
    if vi[0] == "trap" and vi[1] in V8_ONLY_TRAPS:
        info["skipped_after"] = "instantiate"
        return diffs, info
    if "instantiate" in what and not same_result(real.instantiate, vi):
        diffs.append({"kind": "instantiate", "call": None, "real": real.instantiate, "v8": vi})
        return diffs, info
    stop = None
    if "results" in what and vi[0] == "ok":
        for k, v in enumerate(v8.results):
            if v[0] == "error":
                raise E2EError("V8 call error: %r" % (v,))
            if v[0] == "trap" and v[1] in V8_ONLY_TRAPS:
                stop = k
                info["skipped_after"] = k
                break
            r = real.results[k] if k < len(real.results) else ("missing",)
            info["compared_calls"] += 1
            if not same_result(r, v):
                diffs.append({"kind": "ub" if r[0] == "ub" else "result", "call": k, "real": r, "v8": v})
                if r[0] in ("ub", "crash", "timeout", "missing"):
                    stop = k
                    break
    if "host_log" in what:
        rl = list(zip(real.host_calls, real.host_log))
        if stop is not None:
            rl = [x for x in rl if x[0] < stop]
        vl = v8.host_log
        n = len(rl) if stop is not None else max(len(rl), len(vl))
        for k in range(n):
            a = rl[k][1] if k < len(rl) else None
            b = vl[k] if k < len(vl) else None
            if a is None or b is None or a[0] != b[0] or not same_vals(a[1], b[1]):
                diffs.append({"kind": "host_log", "call": rl[k][0] if k < len(rl) else None, "entry": k, "real": a, "v8": b})
                break
        if not real.host_inst_ok:
            diffs.append({"kind": "host_instance", "call": None, "real": "an imported function did not receive the calling instance", "v8": None})
    if stop is None:
        if "mem" in what and v8.mem is not None and real.mem is not None:
            if real.mem["pages"] != v8.mem["pages"] or real.mem["sha256"] != v8.mem["sha256"]:
                diffs.append({"kind": "memory", "call": None, "real": real.mem, "v8": {k: v8.mem[k] for k in ("sha256", "pages")}})
        if "globals" in what:
            for nm, (t, b) in sorted(v8.globals.items()):
                if nm in real.globals:
                    rt, rb = real.globals[nm]
                    if t in ("i32", "i64", "f32", "f64") and not same_vals([(rt, rb)], [(t, b)]):
                        diffs.append({"kind": "global", "call": None, "name": nm.hex(), "real": (rt, rb), "v8": (t, b)})
    return diffs, info


# ------------------------------------------------------------------------------- small independent specs
def const_value(module, expr, imports_spec):
    """Value of an offset/initialiser constant expression (i32.const / global.get of an import)."""
    if expr.op == "global.get":
        ords = [n for n, i in enumerate(module.imports) if i.kind == "global"]
        gl = (imports_spec or {}).get("globals", {})
        n = ords[expr.imm[0]]
        return int(gl.get(n, gl.get(str(n), 0)))
    return expr.imm[0]


def import_owner(module, kind):
    """per import entry of `kind` (in order): the ordinal (among the entries of that kind) of the FIRST entry with the same (module, field)
    — an object imported several times is one host object, one C symbol, one member of the instance"""
    first, out = {}, []
    for im in module.imports:
        if im.kind == kind:
            out.append(first.setdefault((bytes(im.module), bytes(im.field)), len(out)))
    return out


def import_owner_entry(module, n):
    """index into module.imports of the first entry that is the same object as entry n"""
    im = module.imports[n]
    for k, o in enumerate(module.imports):
        if o.kind == im.kind and bytes(o.module) == bytes(im.module) and bytes(o.field) == bytes(im.field):
            return k
    return n


def canon_func(module):
    """function index -> the index under which the embedder's observers know that function: an import entry that repeats the
    (module, field) of an earlier function import IS the earlier host function (one C symbol, one JS function)"""
    first, out, k = {}, {}, 0
    for im in module.imports:
        if im.kind == "func":
            out[k] = first.setdefault((bytes(im.module), bytes(im.field)), k)
            k += 1
    return out


def canon_table(module, t):
    c = canon_func(module)
    return None if t is None else [c.get(f, f) if f is not None else None for f in t]


def expected_table(module, imports_spec):
    """Table 0 after instantiation per the specification (element segments applied in order); function identities as the embedder
    observes them (canon_func)."""
    tabs = module.all_tables()
    if not tabs:
        return None
    t = [None] * tabs[0].limits.min
    for seg in module.elems:
        off = const_value(module, seg.offset, imports_spec) & 0xFFFFFFFF
        for k, f in enumerate(seg.funcs):
            if off + k < len(t):
                t[off + k] = f
    return canon_table(module, t)


def expected_memory_after_init(module, imports_spec):
    """(pages, bytes) of memory 0 right after the active data segments were copied (start function not run)."""
    mems = module.all_mems()
    if not mems:
        return None
    data = bytearray(mems[0].min * 65536)
    mf = (imports_spec or {}).get("mem_fill") or {}
    mimp = [n for n, i in enumerate(module.imports) if i.kind == "memory"]
    if mimp:
        for off, hx in (mf.get(mimp[0], mf.get(str(mimp[0]))) or []):
            data[int(off):int(off) + len(hx) // 2] = bytes.fromhex(hx)
    for seg in module.datas:
        if seg.mode == "active" and (seg.memory or 0) == 0:
            off = const_value(module, seg.offset, imports_spec) & 0xFFFFFFFF
            if off + len(seg.data) <= len(data):
                data[off:off + len(seg.data)] = seg.data
    return mems[0].min, bytes(data)


def op_histogram(module, hist=None):
    hist = {} if hist is None else hist

    def walk(body):
        for ins in body:
            hist[ins.op] = hist.get(ins.op, 0) + 1
            if ins.body:
                walk(ins.body)
            if ins.else_body:
                walk(ins.else_body)
    for f in module.funcs:
        walk(f.body)
    return hist
