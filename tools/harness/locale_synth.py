"""locale_synth — adversarial process environments for the translator (C07: the constants' C text must not depend on them).

No locale with a decimal COMMA is installed in the sandbox (only C / C.utf8 / POSIX) and neither localedef's charmaps nor
locale sources exist, so one is synthesised: the compiled C.utf8 locale directory is copied and the `decimal_point`
fields of its LC_NUMERIC file (field 0: the string, field 3: the wide character) are patched from '.' to ','.  glibc loads
it through LOCPATH.  A tiny C program that ADOPTS the environment's locale (`setlocale(LC_ALL, "")`) and prints 0.5 with
"%g" tells whether the synthesised locale is really effective here ("0,5"); if it is not, the caller records the
sub-check as not effective and falls back to the static tie (Props/C07Env.no_locale_change).
"""
import os
import shutil
import struct
import subprocess

NAME = "xx_XX.UTF-8"
SOURCES = ("/usr/lib/locale/C.utf8", "/usr/lib/locale/C.UTF-8", "/usr/lib64/locale/C.utf8", "/usr/share/locale/C.utf8")

PROBE_C = r'''
#include <stdio.h>
#include <locale.h>
int main(void) {
    const char* l = setlocale(LC_ALL, "");
    printf("%s %g\n", l ? l : "(null)", 0.5);
    return 0;
}
'''


def make_comma_locale(workdir):
    """-> LOCPATH directory holding locale NAME, or None when no compiled C.utf8 locale of the expected layout exists"""
    src = next((c for c in SOURCES if os.path.isfile(os.path.join(c, "LC_NUMERIC"))), None)
    if src is None:
        return None
    root = os.path.join(workdir, "locpath")
    dst = os.path.join(root, NAME)
    shutil.rmtree(root, ignore_errors=True)
    shutil.copytree(src, dst)
    p = os.path.join(dst, "LC_NUMERIC")
    b = bytearray(open(p, "rb").read())
    if len(b) < 8:
        return None
    magic, n = struct.unpack_from("<II", b, 0)
    if n < 4 or len(b) < 8 + 4 * n:
        return None
    offs = struct.unpack_from("<%dI" % n, b, 8)
    if b[offs[0]:offs[0] + 2] != b".\0" or struct.unpack_from("<I", b, offs[3])[0] != ord("."):
        return None
    b[offs[0]] = ord(",")
    struct.pack_into("<I", b, offs[3], ord(","))
    open(p, "wb").write(b)
    return root


def clean_env():
    """the check's environment without any locale / time-zone selection"""
    return {k: v for k, v in os.environ.items() if not (k.startswith("LC_") or k in ("LANG", "LANGUAGE", "LOCPATH", "TZ"))}


def build_probe(workdir):
    src = os.path.join(workdir, "locprobe.c")
    open(src, "w").write(PROBE_C)
    exe = os.path.join(workdir, "locprobe")
    p = subprocess.run(["gcc", "-O0", src, "-o", exe], stdout=subprocess.PIPE, stderr=subprocess.PIPE, text=True)
    if p.returncode != 0:
        raise RuntimeError("locale probe build failed: " + p.stderr[-500:])
    return exe


def probe(exe, env):
    """what a program that adopts the environment's locale prints for 0.5: e.g. 'xx_XX.UTF-8 0,5' / 'C 0.5'"""
    p = subprocess.run([exe], env=env, stdout=subprocess.PIPE, stderr=subprocess.PIPE, text=True, timeout=30)
    return p.stdout.strip()


def environments(workdir):
    """[(name, complete environment dict, comma expected?)] — comma expected iff a program adopting the locale prints `0,5`"""
    base = clean_env()
    locpath = make_comma_locale(workdir)
    envs = []
    if locpath:
        for var in ("LC_ALL", "LC_NUMERIC", "LANG"):
            envs.append(("comma-decimal locale via %s" % var, dict(base, LOCPATH=locpath, **{var: NAME}), True))
        envs.append(("comma-decimal LC_NUMERIC under LANG=C.UTF-8", dict(base, LOCPATH=locpath, LANG="C.UTF-8", LC_NUMERIC=NAME), True))
    envs.append(("LC_ALL=C.UTF-8", dict(base, LC_ALL="C.UTF-8"), False))
    envs.append(("LC_ALL names a locale that is not installed", dict(base, LC_ALL="de_DE.UTF-8", LANG="fr_FR"), False))
    envs.append(("TZ=Asia/Kathmandu LANGUAGE=de", dict(base, TZ="Asia/Kathmandu", LANGUAGE="de:fr"), False))
    envs.append(("empty environment", {"PATH": os.environ.get("PATH", "/usr/bin:/bin")}, False))
    return envs
