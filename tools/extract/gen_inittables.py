"""gen_inittables — regenerate lean/W2c2Verif/Gen/InitTables.lean from /repo/w2c2/c.c.

The text of `<module>InitTables` is written by `wasmCWriteInitTables`: a declaration of `offset` (iff the module has element
segments), one `wasmTableAllocate(&i->t<k>, min, max);` per DEFINED table, and per element segment `offset = <expr>;` followed by one
store `<table>.data[offset + <n>] = (wasmFunc)&<function>;` per entry.  Everything is extracted as DATA, in source order, as lists of
guarded pieces — with BOTH branches of every `if (pretty)` (guard `.pretty true` / `.pretty false`): the two copies of a format string
are two separately written pieces of C and nothing in the C forces them to print the same arguments.  Which C variable feeds a `%u`
decides the piece: `functionIndexIndex` (the loop counter = POSITION inside the segment) is `.position`, `functionIndex`
(= elementSegment.functionIndices[functionIndexIndex]) is `.funcIndex`, `table.min` / `table.max` are `.tableMin` / `.tableMax`.
Any other statement, argument, literal or loop shape raises ExtractFail (= broken tie).

Model/InitTables.lean interprets the lists; Props/C04Tables.lean proves that the pretty and the compact text consist of the same
tokens and that the text of a segment denotes `Model.writeSeg` (slot offset + position := listed function) — what
`Props.C04.elem_init_correct` is about.
"""
import os
import re

from cfront import ExtractFail
from gen_instantiate import strip_comments, function_body
from gen_initmem import parse_stmts, must_unwrap, split_args, nows, c_unescape, find_for

GEN_NAME = "InitTables"
C = "w2c2/c.c"
KW = [("U32offset;", "declOffset"), ("wasmTableAllocate(", "allocOpen"), (",", "comma"), (");", "closeSemi"), ("offset=", "offsetAssign"),
      (";", "semi"), (".data[offset+", "dataOffsetPlus"), ("]=(wasmFunc)", "closeAssignCast")]
KW_OF = dict(KW)
FMT_ARGS = {("%u", "functionIndexIndex"): "position", ("%u", "functionIndex"): "funcIndex", ("%u", "table.min"): "tableMin", ("%u", "table.max"): "tableMax"}
DECLS = {
    "constWasmTabletable=module->tables.tables[tableIndex]": None,
    "constWasmElementSegmentelementSegment=module->elementSegments.elementSegments[elementSegmentIndex]": None,
    "constBuffercode=elementSegment.offset": ("code", "elementSegment.offset"),
    "constU32functionIndex=elementSegment.functionIndices[functionIndexIndex]": ("functionIndex", "elementSegment.functionIndices[functionIndexIndex]"),
}


def literal_pieces(lit, where):
    """a literal may be several known chunks in a row (", %u, %u);" is split at the conversions before it gets here)"""
    t = nows(c_unescape(lit))
    out = []
    while t:
        for text, name in sorted(KW, key=lambda kv: -len(kv[0])):
            if t.startswith(text):
                out.append(".kw .%s" % name)
                t = t[len(text):]
                break
        else:
            raise ExtractFail(where, "emitted literal `%s` is not a known chunk of InitTables" % lit)
    return out


def leaf(text, where, aliases):
    t = nows(text)
    if t in ("fputs(indentation,file)", "MUST(stringBuilderReset(&stringBuilder))"):
        return []
    m = re.fullmatch(r'fputs\s*\(\s*"((?:[^"\\]|\\.)*)"\s*,\s*file\s*\)', text, re.S)
    if m:
        return literal_pieces(m.group(1), where)
    m = re.fullmatch(r"fprintf\s*\((.*)\)", text, re.S)
    if m:
        args = split_args(m.group(1))
        if len(args) < 2 or nows(args[0]) != "file" or not re.fullmatch(r'"(?:[^"\\]|\\.)*"', args[1]):
            raise ExtractFail(where, "fprintf of an unexpected shape: %s" % text[:60])
        fmt = args[1][1:-1]
        rest = args[2:]
        out = []
        pos = 0
        for sm in re.finditer(r"%(llu|lu|u|s|d|x)", fmt):
            out += literal_pieces(fmt[pos:sm.start()], where)
            pos = sm.end()
            if not rest:
                raise ExtractFail(where, "fprintf: more conversions than arguments")
            a = nows(rest.pop(0))
            key = (sm.group(0), a)
            if key not in FMT_ARGS:
                raise ExtractFail(where, "fprintf conversion `%s` of `%s` is not a known item of InitTables" % key)
            if a == "functionIndex" and aliases.get("functionIndex") != "elementSegment.functionIndices[functionIndexIndex]":
                raise ExtractFail(where, "`functionIndex` is not the listed function of the current entry")
            out.append(".%s" % FMT_ARGS[key])
        out += literal_pieces(fmt[pos:], where)
        if rest:
            raise ExtractFail(where, "fprintf: more arguments than conversions")
        return out
    if t == "wasmCWriteFileTableUse(file,module,assertSizeU32(tableImportCount)+tableIndex,true)":
        return [".tableRef"]
    if t == "wasmCWriteFileTableUse(file,module,elementSegment.tableIndex,false)":
        return [".segTable"]
    if t == "wasmCWriteFileFunctionUse(file,module,moduleName,functionIndex,true,multipleModules)":
        if aliases.get("functionIndex") != "elementSegment.functionIndices[functionIndexIndex]":
            raise ExtractFail(where, "`functionIndex` is not the listed function of the current entry")
        return [".funcRef"]
    if t == "MUST(wasmCWriteConstantExpr(&stringBuilder,module,code))":
        if aliases.get("code") != "elementSegment.offset":
            raise ExtractFail(where, "`code` is not the segment's offset expression")
        return ["%pending-offset"]
    if t == "fputs(stringBuilder.string,file)":
        return ["%flush-offset"]
    raise ExtractFail(where, "statement outside the accepted shapes of the InitTables emitter: %s" % text[:80])


def flatten(stmts, guards, where, aliases, out, stop_for=None):
    """appends (guards, piece) in source order.  `stop_for`: head of a nested `for` that ends this level (returned as (body, rest))"""
    for n, st in enumerate(stmts):
        k = st[0]
        if k == "block":
            r = flatten(st[1], guards, where, aliases, out, stop_for)
            if r is not None:
                if any(s[0] != "stmt" or nows(s[1]) for s in stmts[n + 1:]):
                    raise ExtractFail(where, "statements after the inner loop's block")
                return r
        elif k == "stmt":
            t = nows(st[1])
            if t in DECLS:
                if DECLS[t]:
                    aliases[DECLS[t][0]] = DECLS[t][1]
                continue
            if stop_for and t == "U32functionIndexIndex=0":
                continue
            for x in leaf(st[1], where, aliases):
                out.append((list(guards), x))
        elif k == "if":
            if nows(st[1]) != "pretty":
                raise ExtractFail(where, "condition `%s` inside an InitTables loop" % st[1].strip())
            a = []
            flatten([st[2]], guards + [".pretty true"], where, aliases, a)
            if st[3] is None:
                if a:
                    raise ExtractFail(where, "`if (pretty)` without else emits more than indentation: %r" % (a,))
                continue
            out.extend(a)
            flatten([st[3]], guards + [".pretty false"], where, aliases, out)
        elif k == "for" and stop_for and nows(st[1]) == stop_for:
            body = st[2][1] if st[2][0] == "block" else [st[2]]
            if stmts[n + 1:]:
                raise ExtractFail(where, "statements after the inner loop")
            return body
        else:
            raise ExtractFail(where, "`%s` statement inside an InitTables loop" % k)
    return None


def fuse_offset(leaves, where):
    out = []
    pending = None
    for g, x in leaves:
        if x == "%pending-offset":
            if pending is not None:
                raise ExtractFail(where, "offset expression rendered twice")
            pending = g
        elif x == "%flush-offset":
            if pending is None or pending != g:
                raise ExtractFail(where, "stringBuilder flushed without / under other conditions than the offset expression")
            out.append((g, ".offsetExpr"))
            pending = None
        else:
            if pending is not None:
                raise ExtractFail(where, "something is emitted between rendering and flushing the offset expression")
            out.append((g, x))
    if pending is not None:
        raise ExtractFail(where, "offset expression rendered but never written")
    return out


def loops(src):
    body, line = function_body(src, "wasmCWriteInitTables", C)
    where = "%s:%d" % (C, line)
    top = parse_stmts(must_unwrap(body), where)
    plain_top = [nows(s[1]) for s in top if s[0] == "stmt"]
    for want in ("constU32elementSegmentCount=module->elementSegments.count", "constU32tableCount=module->tables.count",
                 "constsize_ttableImportCount=module->tableImports.length"):
        if want not in plain_top:
            raise ExtractFail(where, "missing `%s`" % want)
    ifs = [s for s in top if s[0] == "if"]
    if len(ifs) != 1 or nows(ifs[0][1]) != "tableCount>0||elementSegmentCount>0" or ifs[0][3] is not None:
        raise ExtractFail(where, "outer guard of the InitTables definition changed")
    inner = ifs[0][2][1]
    plain = [nows(s[1]) for s in inner if s[0] == "stmt"]
    if [p for p in plain if p.startswith("fprintf(")] != ['fprintf(file,"staticvoid%sInitTables(%sInstance*i){\\n",moduleName,moduleName)']:
        raise ExtractFail(where, "InitTables header line changed")
    if 'fputs("}\\n\\n",file)' not in plain:
        raise ExtractFail(where, "closing brace of InitTables not found")
    # declaration of `offset`
    dif = [s for s in inner if s[0] == "if"]
    if len(dif) != 1 or nows(dif[0][1]) != "elementSegmentCount>0" or dif[0][3] is not None:
        raise ExtractFail(where, "the declaration of `offset` is no longer guarded by elementSegmentCount > 0 alone")
    decl = []
    flatten([dif[0][2]], [".hasElems"], where, {}, decl)
    blocks = [s for s in inner if s[0] == "block"]
    if len(blocks) != 2 or [s[0] for s in inner].index("if") > [k for k, s in enumerate(inner) if s[0] == "block"][0]:
        raise ExtractFail(where, "expected the declaration, then two blocks (tables, element segments)")
    # table loop
    tbody, tbefore, tafter = find_for(blocks[0][1], ";tableIndex<tableCount;tableIndex++", where, "table loop")
    if [nows(s[1]) for s in tbefore if s[0] == "stmt"] != ["U32tableIndex=0"] or tafter or len(tbefore) != 1:
        raise ExtractFail(where, "table loop does not start at index 0 / has neighbours")
    tl = []
    if flatten(tbody, [], where, {}, tl) is not None:
        raise ExtractFail(where, "nested loop in the table loop")
    # segment loop with the nested entry loop
    sbody, sbefore, safter = find_for(blocks[1][1], ";elementSegmentIndex<elementSegmentCount;elementSegmentIndex++", where, "element segment loop")
    if [nows(s[1]) for s in sbefore if s[0] == "stmt"] != ["U32elementSegmentIndex=0"] or safter or len(sbefore) != 1:
        raise ExtractFail(where, "element segment loop does not start at index 0 / has neighbours")
    aliases = {}
    sh = []
    ebody = flatten(sbody, [], where, aliases, sh, stop_for=";functionIndexIndex<elementSegment.functionIndexCount;functionIndexIndex++")
    if ebody is None:
        raise ExtractFail(where, "entry loop (functionIndexIndex from 0 to functionIndexCount) not found at the end of the segment loop")
    if "U32functionIndexIndex=0" not in nows(body):
        raise ExtractFail(where, "entry loop does not start at position 0")
    sh = fuse_offset(sh, where)
    el = []
    if flatten(ebody, [], where, aliases, el) is not None:
        raise ExtractFail(where, "nested loop in the entry loop")
    for g, x in tl:
        if x in (".position", ".funcIndex", ".funcRef", ".segTable", ".offsetExpr"):
            raise ExtractFail(where, "table loop refers to element segments")
    for g, x in sh + el:
        if x in (".tableRef", ".tableMin", ".tableMax"):
            raise ExtractFail(where, "element segment loop refers to the table being allocated")
    return decl, tl, sh, el


def lean_rows(rows):
    return "[\n" + ",\n".join("  ([%s], %s)" % (", ".join(g), x) for g, x in rows) + "\n]"


def generate(repo):
    src = strip_comments(open(os.path.join(repo, "w2c2", "c.c")).read())
    decl, tl, sh, el = loops(src)
    out = ["/- GENERATED by tools/extract/gen_inittables.py from w2c2/c.c — do not edit. -/",
           "namespace W2c2Verif.Gen.InitTables",
           "",
           "/-- the literal text chunks (white space removed) that `wasmCWriteInitTables` prints -/",
           "inductive Kw | " + " | ".join(n for _, n in KW),
           "  deriving DecidableEq, Repr, Inhabited",
           "",
           "def Kw.text : Kw → String"]
    for t, n in KW:
        out.append('  | .%s => "%s"' % (n, t))
    out += ["",
            "/-- one chunk of emitted text -/",
            "inductive Piece",
            "  | kw (k : Kw)",
            "  | tableRef        -- wasmCWriteFileTableUse(file, module, tableImportCount + tableIndex, true): `&i->t<k>`",
            "  | tableMin | tableMax   -- %u of table.min / table.max",
            "  | offsetExpr      -- wasmCWriteConstantExpr of elementSegment.offset",
            "  | segTable        -- wasmCWriteFileTableUse(file, module, elementSegment.tableIndex, false): `i->t<k>` / `(*i-><import>)`",
            "  | position        -- %u of functionIndexIndex: the POSITION of the entry inside its segment (loop counter from 0)",
            "  | funcIndex       -- %u of functionIndex = elementSegment.functionIndices[functionIndexIndex]: the function the entry lists",
            "  | funcRef         -- wasmCWriteFileFunctionUse(file, module, moduleName, functionIndex, true, multipleModules): `&<function>`",
            "  deriving DecidableEq, Repr, Inhabited",
            "",
            "/-- a condition on the path to a piece -/",
            "inductive Guard",
            "  | pretty (b : Bool)   -- branch of an `if (pretty)` … `else`",
            "  | hasElems            -- elementSegmentCount > 0",
            "  deriving DecidableEq, Repr, Inhabited",
            "",
            "/-- printed once, before the loops -/",
            "def declPart : List (List Guard × Piece) := " + lean_rows(decl),
            "",
            "/-- body of the loop over ALL defined tables, index 0 upwards -/",
            "def tableLoop : List (List Guard × Piece) := " + lean_rows(tl),
            "",
            "/-- body of the loop over ALL element segments, index 0 upwards, before its inner loop -/",
            "def segHead : List (List Guard × Piece) := " + lean_rows(sh),
            "",
            "/-- body of the inner loop over ALL entries of the segment, position 0 upwards (nothing follows it in the segment loop) -/",
            "def entryLoop : List (List Guard × Piece) := " + lean_rows(el),
            "",
            "end W2c2Verif.Gen.InitTables"]
    return "\n".join(out) + "\n"


if __name__ == "__main__":
    import sys
    sys.stdout.write(generate(sys.argv[1] if len(sys.argv) > 1 else "/repo"))
