"""gen_inittables — regenerate lean/W2c2Verif/Gen/InitTables.lean from /repo/w2c2/c.c.

The text of `<module>InitTables` is written by `wasmCWriteInitTables`: a declaration of `offset` (iff the module has element
segments), one `wasmTableAllocate(&i->t<k>, min, max);` per DEFINED table, and per element segment `offset = <expr>;` followed by one
store `<table>.data[offset + <n>] = (wasmFunc)&<function>;` per entry.  Everything is extracted as DATA, in source order, as lists of
guarded pieces — with BOTH branches of every `if (pretty)` (guard `.pretty true` / `.pretty false`): the two copies of a format string
are two separately written pieces of C and nothing in the C forces them to print the same arguments.  Which C variable feeds a `%u`
decides the piece: `functionIndexIndex` (the loop counter = POSITION inside the segment) is `.position`, `functionIndex`
(= elementSegment.functionIndices[functionIndexIndex]) is `.funcIndex`, `table.min` / `table.max` are `.tableMin` / `.tableMax`.
Read on the normal form of tools/extract/cnorm.py (local names free, temporaries substituted, for ≡ while, `if (c) A else B` ≡
`if (!c) B else A`, literals by value).  Any other statement, argument, literal or loop shape raises ExtractFail (= broken tie).

Model/InitTables.lean interprets the lists; Props/C04Tables.lean proves that the pretty and the compact text consist of the same
tokens and that the text of a segment denotes `Model.writeSeg` (slot offset + position := listed function) — what
`Props.C04.elem_init_correct` is about.
"""
import os
import re

from cfront import ExtractFail
from gen_instantiate import strip_comments, function_body
import cnorm

GEN_NAME = "InitTables"
C = "w2c2/c.c"
KW = [("U32offset;", "declOffset"), ("wasmTableAllocate(", "allocOpen"), (",", "comma"), (");", "closeSemi"), ("offset=", "offsetAssign"),
      (";", "semi"), (".data[offset+", "dataOffsetPlus"), ("]=(wasmFunc)", "closeAssignCast")]
SEG = "module->elementSegments.elementSegments[$i1]"
TAB = "module->tables.tables[$i0]"
FMT_ARGS = {("%u", "$i0", "entry"): "position", ("%u", SEG + ".functionIndices[$i0]", "entry"): "funcIndex",
            ("%u", TAB + ".min", "table"): "tableMin", ("%u", TAB + ".max", "table"): "tableMax"}
TABLE_REF = ("wasmCWriteFileTableUse(file,module,assertSizeU32(module->tableImports.length)+$i0,true)",
             "wasmCWriteFileTableUse(file,module,$i0+assertSizeU32(module->tableImports.length),true)",
             "wasmCWriteFileTableUse(file,module,(assertSizeU32(module->tableImports.length)+$i0),true)")


def nows(s):
    return re.sub(r"\s+", "", s)


def c_unescape(s):
    return s.replace("\\n", "\n").replace("\\t", "\t").replace('\\"', '"').replace("\\\\", "\\")


def literal_pieces(lit, where):
    """a literal may be several known chunks in a row"""
    t = nows(c_unescape(lit))
    out = []
    while t:
        for text, name in sorted(KW, key=lambda kv: -len(kv[0])):
            if t.startswith(text):
                out.append(".kw .%s" % name)
                t = t[len(text):]
                break
        else:
            raise ExtractFail(where, "emitted literal `%s` is not a known chunk of InitTables" % lit)
    return out


def split_args(s):
    return [x.strip() for x in cnorm._split_top(s, ",")]


def leaf(text, where, ctx, sb):
    """one `do` statement (canonical text) of loop `ctx` ('decl' | 'table' | 'seg' | 'entry') -> pieces"""
    if text in ("fputs(indentation,file)", "MUST(stringBuilderReset(&%s))" % sb):
        return []
    m = re.fullmatch(r'fputs\("((?:[^"\\]|\\.)*)",file\)', text, re.S)
    if m:
        return literal_pieces(m.group(1), where)
    m = re.fullmatch(r"fprintf\((.*)\)", text, re.S)
    if m:
        args = split_args(m.group(1))
        if len(args) < 2 or args[0] != "file" or not re.fullmatch(r'"(?:[^"\\]|\\.)*"', args[1], re.S):
            raise ExtractFail(where, "fprintf of an unexpected shape: %s" % text[:60])
        fmt = args[1][1:-1]
        rest = args[2:]
        out = []
        pos = 0
        for sm in re.finditer(r"%(llu|lu|u|s|d|x)", fmt):
            out += literal_pieces(fmt[pos:sm.start()], where)
            pos = sm.end()
            if not rest:
                raise ExtractFail(where, "fprintf: more conversions than arguments")
            a = rest.pop(0)
            key = (sm.group(0), a, ctx)
            if key not in FMT_ARGS:
                raise ExtractFail(where, "fprintf conversion `%s` of `%s` is not a known item of the %s loop of InitTables" % key)
            out.append(".%s" % FMT_ARGS[key])
        out += literal_pieces(fmt[pos:], where)
        if rest:
            raise ExtractFail(where, "fprintf: more arguments than conversions")
        return out
    if ctx == "table" and text in TABLE_REF:
        return [".tableRef"]
    if ctx == "entry" and text == "wasmCWriteFileTableUse(file,module,%s.tableIndex,false)" % SEG:
        return [".segTable"]
    if ctx == "entry" and text == "wasmCWriteFileFunctionUse(file,module,moduleName,%s.functionIndices[$i0],true,multipleModules)" % SEG:
        return [".funcRef"]
    if ctx == "seg" and text == "MUST(wasmCWriteConstantExpr(&%s,module,%s.offset))" % (sb, SEG):
        return ["%pending-offset"]
    if ctx == "seg" and text == "fputs(%s.string,file)" % sb:
        return ["%flush-offset"]
    raise ExtractFail(where, "statement outside the accepted shapes of the InitTables emitter (%s loop): %s" % (ctx, text[:90]))


def flatten(nodes, guards, where, ctx, sb, out):
    for nd in nodes:
        if nd[0] == "do":
            for x in leaf(nd[1], where, ctx, sb):
                out.append((list(guards), x))
        elif nd[0] == "if" and nd[1] == "pretty":
            a = []
            flatten(nd[2], guards + [".pretty true"], where, ctx, sb, a)
            if not nd[3]:
                if a:
                    raise ExtractFail(where, "`if (pretty)` without else emits more than indentation: %r" % (a,))
                continue
            out.extend(a)
            flatten(nd[3], guards + [".pretty false"], where, ctx, sb, out)
        else:
            raise ExtractFail(where, "`%s` %r inside the %s part of InitTables" % (nd[0], nd[1] if len(nd) > 1 else "", ctx))


def fuse_offset(leaves, where):
    out = []
    pending = None
    for g, x in leaves:
        if x == "%pending-offset":
            if pending is not None:
                raise ExtractFail(where, "offset expression rendered twice")
            pending = g
        elif x == "%flush-offset":
            if pending is None or pending != g:
                raise ExtractFail(where, "stringBuilder flushed without / under other conditions than the offset expression")
            out.append((g, ".offsetExpr"))
            pending = None
        else:
            if pending is not None:
                raise ExtractFail(where, "something is emitted between rendering and flushing the offset expression")
            out.append((g, x))
    if pending is not None:
        raise ExtractFail(where, "offset expression rendered but never written")
    return out


def loops(src):
    body, line = function_body(src, "wasmCWriteInitTables", C)
    where = "%s:%d" % (C, line)
    nodes = cnorm.normalize(body, where)
    if len(nodes) != 2 or nodes[0][0] != "if" or nodes[1] != ("return", "true") or nodes[0][3]:
        raise ExtractFail(where, "wasmCWriteInitTables is not one guarded definition")
    g = nodes[0][1]
    atoms = sorted(x for x, p in g[1]) if isinstance(g, tuple) and g[0] == "or" and all(p for _, p in g[1]) else None
    if atoms != ["0<module->elementSegments.count", "0<module->tables.count"]:
        raise ExtractFail(where, "outer guard of the InitTables definition changed: %r" % (g,))
    inner = list(nodes[0][2])
    # the string builder used for the offset expression
    sb = None
    for nd in inner:
        m = re.fullmatch(r"(\$v\d+)=emptyStringBuilder", nd[1]) if nd[0] == "do" else None
        if m:
            sb = m.group(1)
    if sb is None:
        raise ExtractFail(where, "no string builder")
    skip = ("%s=emptyStringBuilder" % sb, "MUST(stringBuilderInitialize(&%s))" % sb, "stringBuilderFree(&%s)" % sb)
    inner = [nd for nd in inner if not (nd[0] == "do" and nd[1] in skip)]
    if not inner or inner[0] != ("do", 'fprintf(file,"static void %sInitTables(%sInstance* i) {\\n",moduleName,moduleName)'):
        raise ExtractFail(where, "InitTables header line changed")
    if inner[-1] != ("do", 'fputs("}\\n\\n",file)'):
        raise ExtractFail(where, "closing brace of InitTables not found")
    mid = inner[1:-1]
    if len(mid) != 3 or mid[0][0] != "if" or mid[0][1] != "0<module->elementSegments.count" or mid[0][3]:
        raise ExtractFail(where, "expected: declaration of `offset` (iff there are element segments), table loop, element segment loop")
    decl = []
    flatten(mid[0][2], [".hasElems"], where, "decl", sb, decl)
    tl_node, sl_node = mid[1], mid[2]
    if tl_node[0] != "loop" or tl_node[1:4] != ("$i0", "0", "module->tables.count"):
        raise ExtractFail(where, "table loop does not run over all defined tables from index 0: %r" % (tl_node[:4],))
    tl = []
    flatten(tl_node[4], [], where, "table", sb, tl)
    if sl_node[0] != "loop" or sl_node[1:4] != ("$i1", "0", "module->elementSegments.count"):
        raise ExtractFail(where, "element segment loop does not run over all segments from index 0 (with one inner loop): %r" % (sl_node[:4],))
    sbody = sl_node[4]
    if not sbody or sbody[-1][0] != "loop" or sbody[-1][1:4] != ("$i0", "0", SEG + ".functionIndexCount"):
        raise ExtractFail(where, "entry loop (position from 0 to functionIndexCount) not found at the end of the segment loop")
    sh = []
    flatten(sbody[:-1], [], where, "seg", sb, sh)
    sh = fuse_offset(sh, where)
    el = []
    flatten(sbody[-1][4], [], where, "entry", sb, el)
    return decl, tl, sh, el


def lean_rows(rows):
    return "[\n" + ",\n".join("  ([%s], %s)" % (", ".join(g), x) for g, x in rows) + "\n]"


def generate(repo):
    src = strip_comments(open(os.path.join(repo, "w2c2", "c.c")).read())
    decl, tl, sh, el = loops(src)
    out = ["/- GENERATED by tools/extract/gen_inittables.py from w2c2/c.c — do not edit. -/",
           "namespace W2c2Verif.Gen.InitTables",
           "",
           "/-- the literal text chunks (white space removed) that `wasmCWriteInitTables` prints -/",
           "inductive Kw | " + " | ".join(n for _, n in KW),
           "  deriving DecidableEq, Repr, Inhabited",
           "",
           "def Kw.text : Kw → String"]
    for t, n in KW:
        out.append('  | .%s => "%s"' % (n, t))
    out += ["",
            "/-- one chunk of emitted text -/",
            "inductive Piece",
            "  | kw (k : Kw)",
            "  | tableRef        -- wasmCWriteFileTableUse(file, module, tableImportCount + tableIndex, true): `&i->t<k>`",
            "  | tableMin | tableMax   -- %u of table.min / table.max",
            "  | offsetExpr      -- wasmCWriteConstantExpr of elementSegment.offset",
            "  | segTable        -- wasmCWriteFileTableUse(file, module, elementSegment.tableIndex, false): `i->t<k>` / `(*i-><import>)`",
            "  | position        -- %u of functionIndexIndex: the POSITION of the entry inside its segment (loop counter from 0)",
            "  | funcIndex       -- %u of functionIndex = elementSegment.functionIndices[functionIndexIndex]: the function the entry lists",
            "  | funcRef         -- wasmCWriteFileFunctionUse(file, module, moduleName, functionIndex, true, multipleModules): `&<function>`",
            "  deriving DecidableEq, Repr, Inhabited",
            "",
            "/-- a condition on the path to a piece -/",
            "inductive Guard",
            "  | pretty (b : Bool)   -- branch of an `if (pretty)` … `else`",
            "  | hasElems            -- elementSegmentCount > 0",
            "  deriving DecidableEq, Repr, Inhabited",
            "",
            "/-- printed once, before the loops -/",
            "def declPart : List (List Guard × Piece) := " + lean_rows(decl),
            "",
            "/-- body of the loop over ALL defined tables, index 0 upwards -/",
            "def tableLoop : List (List Guard × Piece) := " + lean_rows(tl),
            "",
            "/-- body of the loop over ALL element segments, index 0 upwards, before its inner loop -/",
            "def segHead : List (List Guard × Piece) := " + lean_rows(sh),
            "",
            "/-- body of the inner loop over ALL entries of the segment, position 0 upwards (nothing follows it in the segment loop) -/",
            "def entryLoop : List (List Guard × Piece) := " + lean_rows(el),
            "",
            "end W2c2Verif.Gen.InitTables"]
    return "\n".join(out) + "\n"


if __name__ == "__main__":
    import sys
    sys.stdout.write(generate(sys.argv[1] if len(sys.argv) > 1 else "/repo"))
