"""cfront — a small C front end for the table- and macro-shaped parts of w2c2.

Lexer, a configurable mini-preprocessor (so that *every* #if branch of w2c2_base.h can be
selected: little/big endian, builtin/fallback, with/without threads), a cpp-faithful macro
expander (argument pre-expansion, `##` pasting, rescans, blue paint), a recursive-descent
parser for the expression / statement subset the header uses, and a printer to the Lean
`CExpr` / `CStmt` terms of W2c2Verif.CSem.Expr.

Anything outside the accepted grammar raises ExtractFail(file, line, why); the checks treat
that as a broken tie between model and code, never as "fine".
"""
import re
import struct


class ExtractFail(Exception):
    def __init__(self, where, why):
        super().__init__(f"EXTRACT-FAIL {where}: {why}")
        self.where = where
        self.why = why


# --------------------------------------------------------------------------- lexer

TOKEN_RE = re.compile(r"""
    (?P<ws>[ \t\r\f\v]+)
  | (?P<nl>\n)
  | (?P<comment>/\*.*?\*/)
  | (?P<lcomment>//[^\n]*)
  | (?P<num>(?:0[xX][0-9a-fA-F]+|(?:\d+\.\d*|\.\d+|\d+)(?:[eE][+-]?\d+)?)[uUlLfF]*(?:i64)?)
  | (?P<id>[A-Za-z_][A-Za-z0-9_]*)
  | (?P<str>"(?:[^"\\\n]|\\.)*")
  | (?P<chr>'(?:[^'\\\n]|\\.)*')
  | (?P<op>\#\#|\#|<<=|>>=|\.\.\.|->|\+\+|--|<<|>>|<=|>=|==|!=|&&|\|\||\+=|-=|\*=|/=|%=|&=|\|=|\^=|[-+*/%<>=!~&|^?:;,.(){}\[\]])
""", re.X | re.S)


class Tok:
    __slots__ = ("kind", "text", "line", "space", "noexp")

    def __init__(self, kind, text, line=0, space=False):
        self.kind = kind
        self.text = text
        self.line = line
        self.space = space      # preceded by whitespace
        self.noexp = False      # painted blue

    def __repr__(self):
        return f"{self.text}"


def lex(text, fname="<text>"):
    """Tokenise; returns a list of logical lines, each a list of Tok."""
    text = text.replace("\\\r\n", "\\\n")
    # splice continuation lines but keep line numbering approximately right
    out_lines = []
    cur = []
    pos = 0
    line = 1
    space = False
    text = re.sub(r"\\\n", "\x00", text)      # mark splices
    while pos < len(text):
        if text[pos] == "\x00":
            pos += 1
            line += 1
            space = True
            continue
        m = TOKEN_RE.match(text, pos)
        if not m:
            raise ExtractFail(f"{fname}:{line}", f"cannot lex at {text[pos:pos+20]!r}")
        kind = m.lastgroup
        s = m.group()
        pos = m.end()
        if kind == "ws":
            space = True
        elif kind in ("comment", "lcomment"):
            line += s.count("\n") + s.count("\x00")
            space = True
        elif kind == "nl":
            out_lines.append(cur)
            cur = []
            line += 1
            space = False
        else:
            if "\x00" in s:
                s = s.replace("\x00", "")
            cur.append(Tok(kind, s, line, space))
            space = False
    if cur:
        out_lines.append(cur)
    return out_lines


def toks_text(toks):
    out = []
    for i, t in enumerate(toks):
        if i and t.space:
            out.append(" ")
        out.append(t.text)
    return "".join(out)


# --------------------------------------------------------------------------- preprocessor

class Macro:
    def __init__(self, name, params, body, line, variadic=False):
        self.name = name
        self.params = params          # None for object-like
        self.body = body              # list[Tok]
        self.line = line

    def __repr__(self):
        p = "" if self.params is None else "(" + ",".join(self.params) + ")"
        return f"#define {self.name}{p} {toks_text(self.body)}"


class Cpp:
    """Mini preprocessor.  `predef` maps names to replacement text (object-like) or to a
    python callable for function-like operators used in #if (e.g. __has_builtin)."""

    def __init__(self, predef=None, has_builtin=True, fname="<text>"):
        self.macros = {}
        self.fname = fname
        self.has_builtin = has_builtin
        self.defined_order = []
        self.operators = set()     # compiler operators that count as defined (e.g. __has_builtin on gcc >= 10)
        self.text_out = []            # non-directive token lines (after conditional selection)
        for k, v in (predef or {}).items():
            self.macros[k] = Macro(k, None, [t for l in lex(v) for t in l], 0)

    # ---- #if expression evaluation
    def _eval_if(self, toks, line):
        # replace defined X / defined(X)
        out = []
        i = 0
        while i < len(toks):
            t = toks[i]
            if t.kind == "id" and t.text == "defined":
                if toks[i + 1].text == "(":
                    name = toks[i + 2].text
                    i += 4
                else:
                    name = toks[i + 1].text
                    i += 2
                out.append(Tok("num", "1" if (name in self.macros or name in self.operators) else "0", t.line))
                continue
            if t.kind == "id" and t.text in ("__has_builtin", "__has_feature", "__has_extension") \
                    and t.text not in self.macros:
                # compiler operator: answer per configuration
                j = i + 1
                if j < len(toks) and toks[j].text == "(":
                    depth = 0
                    while True:
                        if toks[j].text == "(":
                            depth += 1
                        if toks[j].text == ")":
                            depth -= 1
                            if depth == 0:
                                break
                        j += 1
                    val = "1" if (t.text == "__has_builtin" and self.has_builtin) else "0"
                    out.append(Tok("num", val, t.line))
                    i = j + 1
                    continue
            out.append(t)
            i += 1
        exp = self.expand(out)
        # remaining identifiers are 0
        exp2 = []
        k = 0
        while k < len(exp):
            t = exp[k]
            if t.kind == "id":
                # function-like leftovers such as __has_builtin(x) when defined as macro → handled by expand
                exp2.append(Tok("num", "0", t.line))
            else:
                exp2.append(t)
            k += 1
        p = Parser(exp2, f"{self.fname}:{line}")
        e = p.parse_expr()
        if p.pos != len(p.toks):
            raise ExtractFail(f"{self.fname}:{line}", "trailing tokens in #if")
        return const_int(e, f"{self.fname}:{line}")

    # ---- macro expansion (C99 6.10.3)
    def expand(self, toks, hide=frozenset()):
        out = []
        i = 0
        toks = list(toks)
        while i < len(toks):
            t = toks[i]
            if t.kind != "id" or t.noexp or t.text not in self.macros or t.text in hide:
                if t.kind == "id" and t.text in hide:
                    t2 = Tok(t.kind, t.text, t.line, t.space)
                    t2.noexp = True
                    out.append(t2)
                else:
                    out.append(t)
                i += 1
                continue
            m = self.macros[t.text]
            if m.params is None:
                rep = self._subst(m, [], hide)
                toks[i:i + 1] = self._paint(rep, hide | {m.name}, t)
                continue
            # function-like: need '('
            j = i + 1
            if j >= len(toks) or toks[j].text != "(":
                out.append(t)
                i += 1
                continue
            args, end = self._collect_args(toks, j)
            if len(m.params) == 0 and len(args) == 1 and not args[0]:
                args = []
            if len(args) != len(m.params):
                raise ExtractFail(f"{self.fname}:{t.line}",
                                  f"macro {m.name} expects {len(m.params)} args, got {len(args)}")
            rep = self._subst(m, args, hide)
            toks[i:end + 1] = self._paint(rep, hide | {m.name}, t)
        return out

    def _paint(self, rep, hide, at):
        # rescan with the macro name hidden; implemented by recursive expand with hide set
        res = self.expand(rep, hide)
        if res:
            first = res[0]
            res[0] = Tok(first.kind, first.text, at.line, at.space)
            res[0].noexp = first.noexp
        for r in res:
            r.noexp = r.noexp or False
        # mark so outer loop does not re-expand: result is fully expanded under `hide`;
        # tokens equal to hidden names were painted.  Other identifiers may legitimately be
        # re-examined by the outer scan together with following tokens (function-like
        # macro names whose '(' comes from the rest of the line) – cpp does the same.
        return res

    def _collect_args(self, toks, lpar):
        depth = 0
        args = [[]]
        j = lpar
        while j < len(toks):
            t = toks[j]
            if t.text == "(":
                depth += 1
                if depth > 1:
                    args[-1].append(t)
            elif t.text == ")":
                depth -= 1
                if depth == 0:
                    return args, j
                args[-1].append(t)
            elif t.text == "," and depth == 1:
                args.append([])
            else:
                args[-1].append(t)
            j += 1
        raise ExtractFail(f"{self.fname}:{toks[lpar].line}", "unterminated macro call")

    def _subst(self, m, args, hide):
        params = m.params or []
        body = m.body
        out = []
        i = 0
        n = len(body)
        while i < n:
            t = body[i]
            nxt_paste = i + 1 < n and body[i + 1].text == "##"
            prev_paste = i > 0 and body[i - 1].text == "##"
            if t.text == "##":
                # paste last of out with next (param unexpanded or token)
                i += 1
                rhs_t = body[i]
                if rhs_t.kind == "id" and rhs_t.text in params:
                    rhs = [Tok(x.kind, x.text, x.line, x.space) for x in args[params.index(rhs_t.text)]]
                else:
                    rhs = [Tok(rhs_t.kind, rhs_t.text, rhs_t.line, rhs_t.space)]
                if out and rhs:
                    lhs = out.pop()
                    pasted = lhs.text + rhs[0].text
                    lt = lex(pasted)
                    pt = [x for l in lt for x in l]
                    if len(pt) != 1:
                        raise ExtractFail(f"{self.fname}:{t.line}", f"bad paste {pasted!r}")
                    pt[0].space = lhs.space
                    out.append(pt[0])
                    out.extend(rhs[1:])
                else:
                    out.extend(rhs)
                i += 1
                continue
            if t.kind == "id" and t.text in params:
                a = args[params.index(t.text)]
                if nxt_paste or prev_paste:
                    rep = [Tok(x.kind, x.text, x.line, x.space) for x in a]
                else:
                    rep = self.expand([Tok(x.kind, x.text, x.line, x.space) for x in a], hide)
                    rep = [self._copy(x) for x in rep]
                if rep:
                    rep[0].space = t.space
                out.extend(rep)
            else:
                out.append(self._copy(t))
            i += 1
        return out

    @staticmethod
    def _copy(t):
        c = Tok(t.kind, t.text, t.line, t.space)
        c.noexp = t.noexp
        return c

    # ---- directives
    def run(self, text):
        lines = lex(text, self.fname)
        stack = []      # entries: [taking, taken_before, parent_taking]
        taking = True
        for ln in lines:
            if not ln:
                continue
            if ln[0].text == "#" and len(ln) > 1 or (ln[0].text == "#" and len(ln) == 1):
                if len(ln) == 1:
                    continue
                d = ln[1].text
                rest = ln[2:]
                line = ln[0].line
                if d in ("if", "ifdef", "ifndef"):
                    if taking:
                        if d == "if":
                            c = self._eval_if(rest, line) != 0
                        elif d == "ifdef":
                            c = rest[0].text in self.macros or rest[0].text in self.operators
                        else:
                            c = rest[0].text not in self.macros and rest[0].text not in self.operators
                    else:
                        c = False
                    stack.append([c, c, taking])
                    taking = taking and c
                elif d == "elif":
                    top = stack[-1]
                    if top[2] and not top[1]:
                        c = self._eval_if(rest, line) != 0
                        top[0] = c
                        top[1] = c
                    else:
                        top[0] = False
                    taking = top[2] and top[0]
                elif d == "else":
                    top = stack[-1]
                    top[0] = top[2] and not top[1]
                    top[1] = True
                    taking = top[2] and top[0]
                elif d == "endif":
                    top = stack.pop()
                    taking = top[2]
                elif not taking:
                    continue
                elif d == "define":
                    name = rest[0].text
                    if len(rest) > 1 and rest[1].text == "(" and not rest[1].space:
                        params = []
                        j = 2
                        while rest[j].text != ")":
                            if rest[j].text != ",":
                                params.append(rest[j].text)
                            j += 1
                        body = rest[j + 1:]
                    else:
                        params = None
                        body = rest[1:]
                    self.macros[name] = Macro(name, params, body, line)
                    self.defined_order.append(name)
                elif d == "undef":
                    self.macros.pop(rest[0].text, None)
                elif d == "error":
                    raise ExtractFail(f"{self.fname}:{line}", "#error reached: " + toks_text(rest))
                elif d in ("include", "pragma"):
                    pass
                else:
                    raise ExtractFail(f"{self.fname}:{line}", f"unknown directive #{d}")
            else:
                if taking:
                    self.text_out.append(ln)
        return self


# --------------------------------------------------------------------------- AST

class E:
    pass


class Var(E):
    def __init__(self, n): self.n = n


class IntLit(E):
    def __init__(self, value, ty, text=""): self.value = value; self.ty = ty; self.text = text


class FloatLit(E):
    def __init__(self, bits, ty, text=""): self.bits = bits; self.ty = ty; self.text = text


class Cast(E):
    def __init__(self, ty, e): self.ty = ty; self.e = e


class Un(E):
    def __init__(self, op, e): self.op = op; self.e = e


class Bin(E):
    def __init__(self, op, a, b): self.op = op; self.a = a; self.b = b


class Cond(E):
    def __init__(self, c, a, b): self.c = c; self.a = a; self.b = b


class TrapE(E):
    def __init__(self, name): self.name = name


class Call(E):
    def __init__(self, f, args): self.f = f; self.args = args


class Comma(E):
    def __init__(self, a, b): self.a = a; self.b = b


class Deref(E):       # *(T*)(e)   — memory access through a cast pointer (BE macros)
    def __init__(self, ty, e): self.ty = ty; self.e = e


class AddrOf(E):
    def __init__(self, e): self.e = e


class Index(E):
    def __init__(self, a, i): self.a = a; self.i = i


class Member(E):
    def __init__(self, e, name, arrow): self.e = e; self.name = name; self.arrow = arrow


class AssignE(E):
    def __init__(self, op, lhs, rhs): self.op = op; self.lhs = lhs; self.rhs = rhs


class SizeofT(E):
    def __init__(self, ty): self.ty = ty


def subst_vars(e, env):
    """Copy of expression `e` with every `Var` whose name is a key of `env` replaced by env[name] (copy propagation of
    single-assignment temporaries)."""
    if isinstance(e, Var):
        return env.get(e.n, e)
    if isinstance(e, list):
        return [subst_vars(x, env) for x in e]
    if isinstance(e, E):
        c = object.__new__(type(e))
        for k, v in e.__dict__.items():
            c.__dict__[k] = subst_vars(v, env) if isinstance(v, (E, list)) else v
        return c
    return e


TYPE_NAMES = {"U8": "u8", "I8": "i8", "U16": "u16", "I16": "i16", "U32": "u32", "I32": "i32",
              "U64": "u64", "I64": "i64", "F32": "f32", "F64": "f64",
              # lower-case f32 appears in one TRUNC_SAT instantiation as an unused type argument
              }
C_BASE_TYPES = {
    ("int",): "i32", ("unsigned", "int"): "u32", ("unsigned",): "u32",
    ("long", "long"): "i64", ("unsigned", "long", "long"): "u64",
    ("size_t",): "u64", ("bool",): "i32", ("float",): "f32", ("double",): "f64",
    ("time_t",): "i64", ("long", "int"): "i64", ("long",): "i64",
}

TRAP_NAMES = {"trapUnreachable": "unreachable", "trapDivByZero": "divByZero",
              "trapIntOverflow": "intOverflow", "trapInvalidConversion": "invalidConversion",
              "trapAllocationFailed": "allocationFailed"}

BINOPS = {"+": "add", "-": "sub", "*": "mul", "/": "div", "%": "rem", "<<": "shl", ">>": "shr",
          "&": "band", "|": "bor", "^": "bxor", "==": "eq", "!=": "ne", "<": "lt", "<=": "le",
          ">": "gt", ">=": "ge", "&&": "land", "||": "lor"}

PREC = [["||"], ["&&"], ["|"], ["^"], ["&"], ["==", "!="], ["<", "<=", ">", ">="],
        ["<<", ">>"], ["+", "-"], ["*", "/", "%"]]


def f32_bits(x):
    return struct.unpack("<I", struct.pack("<f", x))[0]


def f64_bits(x):
    return struct.unpack("<Q", struct.pack("<d", x))[0]


def parse_number(text, where):
    t = text
    if t.endswith("i64"):
        t = t[:-3] + "ll"
    is_hex = t[:2].lower() == "0x"
    if not is_hex and (("." in t) or ("e" in t.lower()) or t.lower().endswith("f")) \
            and not re.fullmatch(r"\d+[uUlL]*", t):
        # floating literal
        if t[-1] in "fF":
            body = t[:-1]
            if body.endswith("."):
                body += "0"
            from fractions import Fraction
            v = float(Fraction(body)) if "e" not in body.lower() else float(body)
            # correctly rounded decimal → binary32: go through exact rational
            return FloatLit(round_decimal_to_f32(body), "f32", text)
        body = t
        if body.endswith("."):
            body += "0"
        return FloatLit(f64_bits(float(body)), "f64", text)
    m = re.fullmatch(r"(0[xX][0-9a-fA-F]+|\d+)([uUlL]*)", t)
    if not m:
        raise ExtractFail(where, f"bad number {text!r}")
    digits, suf = m.group(1), m.group(2).lower()
    if is_hex:
        v = int(digits, 16)
    elif len(digits) > 1 and digits[0] == "0":
        v = int(digits, 8)
    else:
        v = int(digits, 10)
    uns = "u" in suf
    ll = suf.count("l") >= 1
    # C99 6.4.4.1 on an LP64/LLP64-agnostic reading: int is 32 bits, (long) long is 64 bits
    if uns:
        cands = ["u64"] if ll else ["u32", "u64"]
    elif is_hex or (len(digits) > 1 and digits[0] == "0"):
        cands = ["i64", "u64"] if ll else ["i32", "u32", "i64", "u64"]
    else:
        cands = ["i64"] if ll else ["i32", "i64"]
    rng = {"i32": 2**31 - 1, "u32": 2**32 - 1, "i64": 2**63 - 1, "u64": 2**64 - 1}
    for c in cands:
        if v <= rng[c]:
            return IntLit(v, c, text)
    raise ExtractFail(where, f"integer literal too large {text!r}")


def round_decimal_to_f32(body):
    """Correctly rounded decimal → binary32 via exact rationals (as gcc's MPFR-based parser)."""
    from fractions import Fraction
    if "e" in body.lower():
        mant, ex = re.split("[eE]", body)
        q = Fraction(mant) * Fraction(10) ** int(ex)
    else:
        q = Fraction(body)
    if q == 0:
        return 0
    # find e such that 2^23 <= q / 2^e < 2^24
    import math
    e = math.floor(math.log2(q)) - 23
    while q / Fraction(2) ** e >= 2**24:
        e += 1
    while q / Fraction(2) ** e < 2**23:
        e -= 1
    emin = -149
    if e < emin:
        e = emin
    scaled = q / Fraction(2) ** e
    m = scaled.numerator // scaled.denominator
    rem = scaled - m
    if rem > Fraction(1, 2) or (rem == Fraction(1, 2) and m % 2 == 1):
        m += 1
    if m >= 2**24:
        m //= 2
        e += 1
    if m < 2**23:
        return m   # subnormal
    ex = e + 149 + 1
    if ex >= 255:
        return 0x7f800000
    return (ex << 23) | (m - 2**23)


class Parser:
    def __init__(self, toks, where, typedefs=None):
        self.toks = toks
        self.pos = 0
        self.where = where
        self.typedefs = dict(TYPE_NAMES)
        if typedefs:
            self.typedefs.update(typedefs)

    def fail(self, why):
        ctx = toks_text(self.toks[max(0, self.pos - 3):self.pos + 4])
        raise ExtractFail(self.where, f"{why} near `{ctx}`")

    def peek(self, k=0):
        return self.toks[self.pos + k].text if self.pos + k < len(self.toks) else None

    def peek_tok(self, k=0):
        return self.toks[self.pos + k] if self.pos + k < len(self.toks) else None

    def eat(self, text=None):
        if self.pos >= len(self.toks):
            self.fail(f"unexpected end, wanted {text}")
        t = self.toks[self.pos]
        if text is not None and t.text != text:
            self.fail(f"expected {text!r}, got {t.text!r}")
        self.pos += 1
        return t

    # -- types
    def try_type(self):
        """Parse a type name at the current position if there is one; returns (ty, ptr_depth) or None."""
        save = self.pos
        words = []
        while self.peek() in ("const", "volatile", "static", "struct"):
            self.pos += 1
        t = self.peek_tok()
        if t is None or t.kind != "id":
            self.pos = save
            return None
        if t.text in self.typedefs:
            self.pos += 1
            ty = self.typedefs[t.text]
        else:
            while self.peek() in ("unsigned", "signed", "int", "long", "short", "char", "float", "double",
                                  "size_t", "bool", "time_t"):
                words.append(self.eat().text)
            key = tuple(w for w in words if w != "signed")
            if not words or key not in C_BASE_TYPES:
                self.pos = save
                return None
            ty = C_BASE_TYPES[key]
        while self.peek() in ("const", "volatile"):
            self.pos += 1
        ptr = 0
        while self.peek() == "*":
            self.pos += 1
            ptr += 1
            while self.peek() in ("const", "volatile"):
                self.pos += 1
        return ty, ptr

    # -- expressions
    def parse_expr(self):
        e = self.parse_assign()
        while self.peek() == ",":
            self.eat()
            e = Comma(e, self.parse_assign())
        return e

    def parse_assign(self):
        lhs = self.parse_cond()
        if self.peek() in ("=", "+=", "-=", "*=", "/=", "%=", "&=", "|=", "^=", "<<=", ">>="):
            op = self.eat().text
            rhs = self.parse_assign()
            return AssignE(op, lhs, rhs)
        return lhs

    def parse_cond(self):
        c = self.parse_bin(0)
        if self.peek() == "?":
            self.eat()
            a = self.parse_expr()
            self.eat(":")
            b = self.parse_cond()
            return Cond(c, a, b)
        return c

    def parse_bin(self, level):
        if level == len(PREC):
            return self.parse_unary()
        e = self.parse_bin(level + 1)
        while self.peek() in PREC[level]:
            op = self.eat().text
            r = self.parse_bin(level + 1)
            e = Bin(BINOPS[op], e, r)
        return e

    def parse_unary(self):
        p = self.peek()
        if p == "-":
            self.eat()
            return Un("neg", self.parse_unary())
        if p == "+":
            self.eat()
            return self.parse_unary()
        if p == "!":
            self.eat()
            return Un("lnot", self.parse_unary())
        if p == "~":
            self.eat()
            return Un("bnot", self.parse_unary())
        if p == "*":
            self.eat()
            inner = self.parse_unary()
            if isinstance(inner, Cast) and getattr(inner, "ptr", 0) == 1:
                return Deref(inner.ty, inner.e)
            return Deref(None, inner)
        if p == "&":
            self.eat()
            return AddrOf(self.parse_unary())
        if p == "sizeof":
            self.eat()
            self.eat("(")
            ty = self.try_type()
            if ty is None:
                e = self.parse_expr()
                self.eat(")")
                return Call("sizeof", [e])
            self.eat(")")
            return SizeofT(ty[0])
        if p == "(":
            save = self.pos
            self.eat()
            ty = self.try_type()
            if ty is not None and self.peek() == ")":
                self.eat()
                e = self.parse_unary()
                c = Cast(ty[0], e)
                c.ptr = ty[1]
                return c
            self.pos = save
        return self.parse_postfix()

    def parse_postfix(self):
        e = self.parse_primary()
        while True:
            p = self.peek()
            if p == "(" and isinstance(e, Var):
                self.eat()
                args = []
                if self.peek() != ")":
                    args.append(self.parse_assign())
                    while self.peek() == ",":
                        self.eat()
                        args.append(self.parse_assign())
                self.eat(")")
                e = Call(e.n, args)
            elif p == "[":
                self.eat()
                i = self.parse_expr()
                self.eat("]")
                e = Index(e, i)
            elif p == "->":
                self.eat()
                e = Member(e, self.eat().text, True)
            elif p == ".":
                self.eat()
                e = Member(e, self.eat().text, False)
            else:
                return e

    def parse_primary(self):
        t = self.peek_tok()
        if t is None:
            self.fail("unexpected end of expression")
        if t.text == "(":
            self.eat()
            e = self.parse_expr()
            self.eat(")")
            return e
        if t.kind == "num":
            self.eat()
            return parse_number(t.text, self.where)
        if t.kind == "id":
            self.eat()
            return Var(t.text)
        if t.kind == "str":
            self.eat()
            return Var(t.text)
        self.fail(f"unexpected token {t.text!r}")


def const_int(e, where):
    """Evaluate an integer constant expression (for #if)."""
    if isinstance(e, IntLit):
        return e.value
    if isinstance(e, Un):
        v = const_int(e.e, where)
        return {"neg": -v, "lnot": int(not v), "bnot": ~v}[e.op]
    if isinstance(e, Bin):
        if e.op == "land":
            return int(bool(const_int(e.a, where)) and bool(const_int(e.b, where)))
        if e.op == "lor":
            return int(bool(const_int(e.a, where)) or bool(const_int(e.b, where)))
        a = const_int(e.a, where)
        b = const_int(e.b, where)
        import operator as o
        f = {"add": o.add, "sub": o.sub, "mul": o.mul, "div": lambda x, y: int(x / y) if y else 0,
             "rem": lambda x, y: x % y if y else 0, "shl": o.lshift, "shr": o.rshift,
             "band": o.and_, "bor": o.or_, "bxor": o.xor, "eq": o.eq, "ne": o.ne, "lt": o.lt,
             "le": o.le, "gt": o.gt, "ge": o.ge}[e.op]
        return int(f(a, b))
    if isinstance(e, Cond):
        return const_int(e.a, where) if const_int(e.c, where) else const_int(e.b, where)
    raise ExtractFail(where, "not an integer constant expression")


# --------------------------------------------------------------------------- Lean printer

def lean_str(s):
    return '"' + s.replace("\\", "\\\\").replace('"', '\\"') + '"'


def lean_val(ty, value):
    w = {"u8": 8, "i8": 8, "u16": 16, "i16": 16, "u32": 32, "i32": 32, "u64": 64, "i64": 64,
         "f32": 32, "f64": 64}[ty]
    return f"(.{ty} {value % (1 << w)}#{w})"


def simplify(e, where):
    """Normalise the idioms of the header: TRAP(x) = (trap(x), 0); NAN; INFINITY."""
    if isinstance(e, Comma):
        if isinstance(e.a, Call) and e.a.f == "trap" and len(e.a.args) == 1 and isinstance(e.a.args[0], Var) \
                and e.a.args[0].n in TRAP_NAMES and isinstance(e.b, IntLit) and e.b.value == 0:
            return TrapE(TRAP_NAMES[e.a.args[0].n])
        raise ExtractFail(where, "comma expression other than TRAP(x)")
    if isinstance(e, Call):
        if e.f == "__builtin_nanf" or e.f == "__builtin_nan":
            return FloatLit(0x7fc00000, "f32") if e.f == "__builtin_nanf" else FloatLit(0x7ff8000000000000, "f64")
        if e.f == "__builtin_inff":
            return FloatLit(0x7f800000, "f32")
        return Call(e.f, [simplify(a, where) for a in e.args])
    if isinstance(e, Cast):
        c = Cast(e.ty, simplify(e.e, where))
        c.ptr = getattr(e, "ptr", 0)
        return c
    if isinstance(e, Un):
        return Un(e.op, simplify(e.e, where))
    if isinstance(e, Bin):
        return Bin(e.op, simplify(e.a, where), simplify(e.b, where))
    if isinstance(e, Cond):
        return Cond(simplify(e.c, where), simplify(e.a, where), simplify(e.b, where))
    return e


def to_lean(e, where):
    if isinstance(e, Var):
        return f"(.var {lean_str(e.n)})"
    if isinstance(e, IntLit):
        return f"(.lit {lean_val(e.ty, e.value)})"
    if isinstance(e, FloatLit):
        return f"(.lit {lean_val(e.ty, e.bits)})"
    if isinstance(e, Cast):
        if getattr(e, "ptr", 0):
            raise ExtractFail(where, "pointer cast in value expression")
        return f"(.cast .{e.ty} {to_lean(e.e, where)})"
    if isinstance(e, Un):
        return f"(.un .{e.op} {to_lean(e.e, where)})"
    if isinstance(e, Bin):
        return f"(.bin .{e.op} {to_lean(e.a, where)} {to_lean(e.b, where)})"
    if isinstance(e, Cond):
        return f"(.cond {to_lean(e.c, where)} {to_lean(e.a, where)} {to_lean(e.b, where)})"
    if isinstance(e, TrapE):
        return f"(.trap .{e.name})"
    if isinstance(e, Call):
        if len(e.args) == 1:
            return f"(.call1 {lean_str(e.f)} {to_lean(e.args[0], where)})"
        if len(e.args) == 2:
            return f"(.call2 {lean_str(e.f)} {to_lean(e.args[0], where)} {to_lean(e.args[1], where)})"
        raise ExtractFail(where, f"call of {e.f} with {len(e.args)} arguments")
    raise ExtractFail(where, f"expression form {type(e).__name__} not in the value fragment")


def parse_expr_tokens(toks, where, typedefs=None):
    p = Parser(toks, where, typedefs)
    e = p.parse_expr()
    if p.pos != len(p.toks):
        p.fail("trailing tokens")
    return e


# --------------------------------------------------------------------------- statements / functions

class FuncDef:
    def __init__(self, name, ret, params, body_toks, line):
        self.name = name
        self.ret = ret            # (ty, ptr) or "void"
        self.params = params      # list of (name, (ty, ptr) | raw-text)
        self.body_toks = body_toks
        self.line = line


def find_functions(token_lines, where, typedefs=None):
    """Find top-level function definitions `… name ( params ) { body }` in preprocessed text."""
    toks = [t for l in token_lines for t in l]
    res = {}
    i = 0
    n = len(toks)
    depth = 0
    start = 0
    while i < n:
        t = toks[i]
        if t.text == "{" and depth == 0:
            # look back for `name ( ... )`
            j = i - 1
            if j >= 0 and toks[j].text == ")":
                # match parens backwards
                d = 0
                k = j
                while k >= 0:
                    if toks[k].text == ")":
                        d += 1
                    elif toks[k].text == "(":
                        d -= 1
                        if d == 0:
                            break
                    k -= 1
                name_tok = toks[k - 1]
                if name_tok.kind == "id":
                    # body
                    d = 0
                    e = i
                    while e < n:
                        if toks[e].text == "{":
                            d += 1
                        elif toks[e].text == "}":
                            d -= 1
                            if d == 0:
                                break
                        e += 1
                    head = toks[start:k - 1]
                    res[name_tok.text] = FuncDef(name_tok.text, head, toks[k + 1:j], toks[i + 1:e], name_tok.line)
                    i = e + 1
                    start = i
                    continue
            # struct/enum/extern "C" block: skip balanced
            d = 0
            e = i
            while e < n:
                if toks[e].text == "{":
                    d += 1
                elif toks[e].text == "}":
                    d -= 1
                    if d == 0:
                        break
                e += 1
            i = e + 1
            continue
        if t.text == ";" and depth == 0:
            start = i + 1
        i += 1
    return res


def split_params(toks):
    out = [[]]
    d = 0
    for t in toks:
        if t.text == "(":
            d += 1
        elif t.text == ")":
            d -= 1
        if t.text == "," and d == 0:
            out.append([])
        else:
            out[-1].append(t)
    return [p for p in out if p]


class StmtParser(Parser):
    """Statements of the value fragment: declarations with initialiser, assignments, compound
    assignments, `if (c) { … }` without else, `return e;`."""

    def parse_block_items(self):
        items = []
        while self.pos < len(self.toks) and self.peek() != "}":
            items.append(self.parse_stmt())
        return items

    def parse_stmt(self):
        p = self.peek()
        if p == "{":
            self.eat()
            items = self.parse_block_items()
            self.eat("}")
            return ("block", items)
        if p == "if":
            self.eat()
            self.eat("(")
            c = self.parse_expr()
            self.eat(")")
            body = self.parse_stmt()
            if self.peek() == "else":
                self.eat()
                els = self.parse_stmt()
                return ("ifelse", c, body, els)
            return ("if", c, body)
        if p == "return":
            self.eat()
            if self.peek() == ";":
                self.eat()
                return ("retvoid",)
            e = self.parse_expr()
            self.eat(";")
            return ("ret", e)
        save = self.pos
        ty = self.try_type()
        if ty is not None and self.peek_tok() is not None and self.peek_tok().kind == "id":
            name = self.eat().text
            if self.peek() == "=":
                self.eat()
                e = self.parse_assign()
                self.eat(";")
                return ("decl", name, ty, e)
            if self.peek() == ";":
                self.eat()
                return ("declnoinit", name, ty)
            self.fail("unsupported declaration")
        self.pos = save
        e = self.parse_expr()
        self.eat(";")
        return ("expr", e)


def stmt_to_lean(s, where):
    k = s[0]
    if k == "block":
        return seq_to_lean(s[1], where)
    if k == "if":
        return f"(.ifThen {to_lean(simplify(s[1], where), where)} {stmt_to_lean(s[2], where)})"
    if k == "ret":
        return f"(.ret {to_lean(simplify(s[1], where), where)})"
    if k == "decl":
        name, ty, e = s[1], s[2], s[3]
        if ty[1]:
            raise ExtractFail(where, "pointer declaration in value fragment")
        return f"(.decl {lean_str(name)} .{ty[0]} {to_lean(simplify(e, where), where)})"
    if k == "expr":
        e = s[1]
        if isinstance(e, AssignE) and isinstance(e.lhs, Var):
            rhs = to_lean(simplify(e.rhs, where), where)
            if e.op == "=":
                return f"(.assign {lean_str(e.lhs.n)} {rhs})"
            return f"(.opAssign {lean_str(e.lhs.n)} .{BINOPS[e.op[:-1]]} {rhs})"
        raise ExtractFail(where, "expression statement outside the value fragment")
    raise ExtractFail(where, f"statement kind {k} outside the value fragment")


def seq_to_lean(items, where):
    if not items:
        return ".skip"
    out = stmt_to_lean(items[-1], where)
    for s in reversed(items[:-1]):
        out = f"(.seq {stmt_to_lean(s, where)} {out})"
    return out
