"""gen_literals — regenerate lean/W2c2Verif/Gen/Literals.lean from wasmCWriteLiteral (c.c) and the
number formatters of stringbuilder.c: the masks / comparison constants that classify a float
constant (NaN / infinity / negative zero / finite), the text fragments, printf formats and
buffer sizes.

The extraction is SEMANTIC (tools/extract/csem.py): every case of wasmCWriteLiteral is turned into the decision tree it
computes — conditions in negation normal form over `bits` after copy propagation of the `const` temporaries and named
constants, literals by value (`W2C2_LL(0x…U)`, `0x007fffffU` = `0x7fffffU`), `switch` = if chain, either branch order — whose
leaves are the texts written; the facts are read off that tree.  Local and parameter names are free (parameters are taken by
position, the formatter's buffer / length by the role they play in `sprintf` and `stringBuilderAppendSized`).  A tree of any
other shape (a new branch, a missing class, a truncating cast around a mask test) is an ExtractFail, i.e. a broken tie."""
import os
import re
import sys

import cfront
import csem as cs
from cfront import ExtractFail, lean_str, Var, Call, Un, Cast, Member, Bin

GEN_NAME = "Literals"

FORMATTERS = ("stringBuilderAppendU32", "stringBuilderAppendI32", "stringBuilderAppendU64", "stringBuilderAppendI64",
              "stringBuilderAppendF32", "stringBuilderAppendF64", "stringBuilderAppendCharHex", "stringBuilderAppendU32Hex",
              "stringBuilderAppendU64Hex")
TYPEDEFS = {"WasmValueType": "u32", "WasmValue": "u64", "StringBuilder": "u64"}


def _functions(repo, fname):
    import gen_files            # the shared preprocessing (configuration macros, MUST(_) expanded to its if/return)
    return gen_files.functions_of(repo, fname)[0]


# ----------------------------------------------------------------------------- wasmCWriteLiteral as decision trees

class _Lit:
    def __init__(self, where, builder, value):
        self.where, self.builder, self.value = where, builder, value

    def fail(self, why):
        raise ExtractFail(self.where, why)

    def event(self, call):
        """one `MUST (f(builder, …))` → ('text', bytes) for the plain appends, else (function, [canonical arguments])"""
        if not (isinstance(call, Call) and call.args and isinstance(call.args[0], Var) and call.args[0].n == self.builder):
            self.fail("a statement of wasmCWriteLiteral is not an append to the builder")
        if call.f == "stringBuilderAppend" and len(call.args) == 2 and cs.is_str(cs.subst(call.args[1], self.env)):
            return ("text", cs.str_value(cs.subst(call.args[1], self.env), self.where))
        if call.f == "stringBuilderAppendChar" and len(call.args) == 2 and cs.int_value(cs.subst(call.args[1], self.env)) is not None:
            v = cs.int_value(cs.subst(call.args[1], self.env))
            if not 0 < v < 128:
                self.fail("non-ASCII character appended")
            return ("text", bytes([v]))
        return (call.f, [cs.key(cs.subst(a, self.env), casts=False) for a in call.args[1:]])

    def tree(self, stmts, acc):
        """statement list → ('leaf', events) | ('if', condition, then-tree, else-tree); what follows an if is part of both arms"""
        for n, s in enumerate(stmts):
            k = s[0]
            if k == "decl":
                if s[1].name in self.env:
                    continue
                self.fail(f"`{s[1].name}` is not a constant temporary")
            if k == "if":
                c, T, E = s[1], s[2], s[3]
                # MUST (call): if (!(call)) { return false; }
                if E is None and len(T) == 1 and T[0][0] == "return" and T[0][1] is not None and cs.int_value(T[0][1]) == 0 \
                        and isinstance(cs.strip(c, casts=False), Un) and cs.strip(c, casts=False).op == "lnot" \
                        and isinstance(cs.strip(cs.strip(c, casts=False).e, casts=False), Call):
                    acc = acc + [self.event(cs.strip(cs.strip(c, casts=False).e, casts=False))]
                    continue
                rest = stmts[n + 1:]
                return ("if", cs.truth(cs.subst(c, self.env)), self.tree(T + rest, acc), self.tree((E or []) + rest, acc))
            if k == "block":
                return self.tree(s[1] + stmts[n + 1:], acc)
            if k == "break":
                break
            self.fail(f"unexpected {k} statement in a case of wasmCWriteLiteral")
        merged = []
        for e in acc:
            if e[0] == "text" and merged and merged[-1][0] == "text":
                merged[-1] = ("text", merged[-1][1] + e[1])
            else:
                merged.append(e)
        return ("leaf", merged)

    def case(self, body):
        body = cs.lower(body, self.where)
        self.env = cs.constant_env(body, [self.builder, self.value])
        return self.tree(body, [])

    # -- reading a float case
    def test(self, node, bits):
        """('if', atom, T, F) → (kind, mask|None, constant, tree when EQUAL, tree when different)"""
        if node[0] != "if" or not isinstance(node[1], cs.BAtom) or node[1].op not in ("eq", "ne"):
            self.fail("a test of the float classification is not an (in)equality")
        a, b = node[1].a, node[1].b
        if cs.int_value(b) is None:
            a, b = b, a
        c = cs.int_value(b)
        if c is None:
            self.fail("a test of the float classification does not compare with a constant")
        eq, ne = (node[2], node[3]) if node[1].op == "eq" else (node[3], node[2])
        a = cs.strip(a, casts=False)
        if cs.key(a, casts=False) == bits:
            return ("bits", None, c, eq, ne)
        if isinstance(a, Bin) and a.op == "band":
            x, m = a.a, a.b
            if cs.key(x, casts=False) != bits:
                x, m = m, x
            if cs.key(x, casts=False) == bits and cs.int_value(m) is not None:
                return ("masked", cs.int_value(m), c, eq, ne)
        self.fail("a test of the float classification is not `bits == K` / `(bits & M) == K`: " + cs.bkey(node[1]))

    def float_case(self, body, width):
        t = self.case(body)
        ity = {32: "u32", 64: "u64"}[width]
        bits = f"({ity}){self.value}.i{width}"
        k, emask, ecmp, special, normal = self.test(t, bits)
        if k != "masked":
            self.fail("exponent test `(bits & M) == M` not found")
        k, sigmask, zero, inf, nan = self.test(special, bits)
        if k != "masked" or zero != 0:
            self.fail("`significand == 0` test not found")
        k, smask, zero, pos, neg = self.test(inf, bits)
        if k != "masked" or zero != 0:
            self.fail("sign test not found")
        if pos != ("leaf", [("text", b"INFINITY")]) or neg != ("leaf", [("text", b"-INFINITY")]):
            self.fail("INFINITY / '-' fragments not found")
        if nan[0] != "leaf" or len(nan[1]) != 3 or nan[1][0][0] != "text" or nan[1][2] != ("text", b")") \
                or not re.fullmatch(rb"\w+\(0x", nan[1][0][1]) or not re.fullmatch(rf"stringBuilderAppendU{width}Hex", nan[1][1][0]) \
                or nan[1][1][1] != [bits]:
            self.fail("NaN branch (reinterpret call with hex literal) not found")
        k, _, negzero, nz, fin = self.test(normal, bits)
        if k != "bits" or nz[0] != "leaf" or len(nz[1]) != 1 or nz[1][0][0] != "text":
            self.fail("negative-zero branch not found")
        if fin[0] != "leaf" or len(fin[1]) != 1 or not re.fullmatch(rf"stringBuilderAppendF{width}", fin[1][0][0]) \
                or fin[1][0][1] != [f"{self.value}.f{width}"]:
            self.fail("finite branch not found")
        return dict(emask=emask, ecmp=ecmp, smask=smask, sigmask=sigmask, negzero=negzero, negzero_text=nz[1][0][1].decode("ascii"),
                    nan_prefix=nan[1][0][1].decode("ascii"), hexfn=nan[1][1][0], decfn=fin[1][0][0])


def literal_cases(f, where):
    """wasmCWriteLiteral → {value-type label: case body}; `switch (valueType)` or the equivalent if/else-if chain"""
    ps = cs.param_names(f)
    if len(ps) != 3:
        raise ExtractFail(where, "wasmCWriteLiteral no longer takes (builder, valueType, value)")
    body = cs.lower(cs.parse_stmts(f.body_toks, where, TYPEDEFS), where)
    chain = [s for s in body if s[0] == "if"]
    if len(chain) != 1 or [s[0] for s in body if s is not chain[0]] != ["return"]:
        raise ExtractFail(where, "wasmCWriteLiteral is not one dispatch on the value type followed by `return true`")
    cases = {}
    node = chain[0]
    while True:
        t = cs.truth(node[1])
        atoms = t.items if isinstance(t, cs.BOp) and t.op == "or" else [t]
        for a in atoms:
            if not (isinstance(a, cs.BAtom) and a.op == "eq"):
                raise ExtractFail(where, "dispatch of wasmCWriteLiteral is not a comparison of the value type")
            x, l = (a.a, a.b) if cs.key(a.a) == ps[1] else (a.b, a.a)
            if cs.key(x) != ps[1] or not isinstance(cs.strip(l), Var):
                raise ExtractFail(where, "dispatch of wasmCWriteLiteral is not a comparison of the value type")
            if cs.strip(l).n in cases:
                raise ExtractFail(where, f"value type {cs.strip(l).n} is handled twice")
            cases[cs.strip(l).n] = node[2]
        els = node[3]
        if els is not None and len(els) == 1 and els[0][0] == "if":
            node = els[0]
            continue
        if els is None or not any(s[0] == "return" and s[1] is not None and cs.int_value(s[1]) == 0 for s in els):
            raise ExtractFail(where, "an unknown value type must make wasmCWriteLiteral fail")
        break
    return ps, cases


# ----------------------------------------------------------------------------- the number formatters

def formatter(funcs, fn, where):
    """`char B[N]; L = sprintf(B, FMT, ARG); return stringBuilderAppendSized(builder, B, (size_t) L);` → (N, FMT, text of ARG),
    with the locals bound by their roles and the parameters by position"""
    import gen_files as gf
    if fn not in funcs:
        raise ExtractFail(where, f"{fn} not found")
    f = funcs[fn]
    ps = cs.param_names(f)
    if len(ps) != 2:
        raise ExtractFail(where, f"{fn}: expected (stringBuilder, value)")
    toks = cs.rename(f.body_toks, dict(zip(ps, ("stringBuilder", "value"))), f"{where}:{fn}")
    if gf.count_calls(toks, "sprintf") != 1:
        raise ExtractFail(where, f"{fn}: buffer/sprintf not found")
    args, _ = gf.find_call(toks, "sprintf", where)
    if len(args) != 3:
        raise ExtractFail(where, f"{fn}: sprintf(buffer, format, value) not found")
    buf = gf.single_id(args[0], where, f"{fn}: the buffer sprintf writes")
    size = gf.const_int(gf.local_array(toks, buf, f"{where}:{fn}"), {}, where)
    fmt = gf.c_string(gf.string_constant(toks, args[1], where), where).decode("ascii")
    length = gf.receiver_of(toks, "sprintf", f"{where}:{fn}")
    # the receiver is written once (by sprintf); a preceding `int L = <literal>;` that sprintf's result overwrites is allowed
    dummy = [i for i, t in enumerate(toks) if t.text == length and 0 < i < len(toks) - 3 and toks[i - 1].kind == "id" and toks[i + 1].text == "="
             and toks[i + 2].kind == "num" and toks[i + 3].text == ";"]
    first_use = min(i for i, t in enumerate(toks) if t.text == length)
    if gf.count_writes(toks, length) - (1 if dummy and dummy[0] == first_use else 0) != 1:
        raise ExtractFail(where, f"{fn}: the length returned by sprintf is changed before it is used")
    n = gf.norm(toks).replace(" ", "")
    if not re.search(rf"returnstringBuilderAppendSized\(stringBuilder,{re.escape(buf)},(?:\(size_t\))?{re.escape(length)}\);$", n):
        raise ExtractFail(where, f"{fn}: does not append exactly what sprintf wrote")
    return size, fmt, cfront.toks_text(args[2]).strip()


def generate(repo):
    funcs = _functions(repo, "c.c")
    if "wasmCWriteLiteral" not in funcs:
        raise ExtractFail("c.c", "wasmCWriteLiteral not found")
    f = funcs["wasmCWriteLiteral"]
    where = f"c.c:{f.line}"
    ps, cases = literal_cases(f, where)

    def blk(name):
        if name not in cases:
            raise ExtractFail("c.c", f"case {name} not found in wasmCWriteLiteral")
        return cases[name]
    L = _Lit(where + ":wasmCWriteLiteral", ps[0], ps[2])
    i32 = L.case(blk("wasmValueTypeI32"))

    def i32_leaves(t):
        return [t[1]] if t[0] == "leaf" else i32_leaves(t[2]) + i32_leaves(t[3])
    sufs = []
    for ev in i32_leaves(i32):
        # every path: the decimal digits of value.i32, then (possibly) a text
        if not ev or ev[0] != ("stringBuilderAppendI32", [f"{ps[2]}.i32"]) or len(ev) > 2 or (len(ev) == 2 and ev[1][0] != "text"):
            raise ExtractFail("c.c", "i32 literal is no longer `<%i><suffix>`")
        sufs.append(ev[1][1].decode("ascii") if len(ev) == 2 else "")
    # the suffix is a FACT (Props/C07.i32_literal_always_unsigned): written on every path (whatever the value's sign), and which
    i32_always = i32[0] == "leaf" or len(set(sufs)) == 1
    i32_suffix = max(sufs, key=len)
    i64 = L.case(blk("wasmValueTypeI64"))
    if i64[0] != "leaf" or len(i64[1]) != 3 or i64[1][0][0] != "text" or i64[1][2][0] != "text" \
            or i64[1][1] != ("stringBuilderAppendI64", [f"{ps[2]}.i64"]):
        raise ExtractFail("c.c", "i64 literal is no longer `W2C2_LL(<%lli>U)`")
    i64pre, i64suf = i64[1][0][1].decode("ascii"), i64[1][2][1].decode("ascii")
    L.where = "c.c:wasmCWriteLiteral/F32"
    f32 = L.float_case(blk("wasmValueTypeF32"), 32)
    L.where = "c.c:wasmCWriteLiteral/F64"
    f64 = L.float_case(blk("wasmValueTypeF64"), 64)
    out = ["-- GENERATED by tools/extract/gen_literals.py from /repo/w2c2/{c.c,stringbuilder.c} — do not edit.",
           "namespace W2c2Verif.Gen", "",
           "structure FloatLitCfg where",
           "  expMask : Nat      -- `(bits & expMask) == expCmp` selects NaN/infinity",
           "  expCmp : Nat",
           "  signMask : Nat",
           "  sigMask : Nat      -- `bits & sigMask == 0` selects infinity (else NaN)",
           "  negZero : Nat      -- `bits == negZero` selects the negative-zero literal",
           "  negZeroText : String",
           "  nanPrefix : String -- reinterpret call with a hex literal",
           "  hexFormatter : String",
           "  decFormatter : String",
           "  deriving Repr", ""]
    for n, c in (("f32", f32), ("f64", f64)):
        out.append(f"def {n}LitCfg : FloatLitCfg := {{ expMask := {c['emask']}, expCmp := {c['ecmp']}, signMask := {c['smask']}, "
                   f"sigMask := {c['sigmask']}, negZero := {c['negzero']}, negZeroText := {lean_str(c['negzero_text'])}, "
                   f"nanPrefix := {lean_str(c['nan_prefix'])}, hexFormatter := {lean_str(c['hexfn'])}, decFormatter := {lean_str(c['decfn'])} }}")
    out.append(f"def i32LitSuffix : String := {lean_str(i32_suffix)}")
    out.append("/-- the suffix is appended on EVERY path of the i32 case (it does not depend on the value, e.g. its sign) -/")
    out.append(f"def i32LitSuffixAlways : Bool := {'true' if i32_always else 'false'}")
    out.append(f"def i64LitPrefix : String := {lean_str(i64pre)}")
    out.append(f"def i64LitSuffix : String := {lean_str(i64suf)}")
    out.append("")
    out.append("/-- (function, buffer size, printf format, argument expression) of every number formatter of stringbuilder.c -/")
    out.append("def formatters : List (String × Nat × String × String) := [")
    rows = []
    sb = _functions(repo, "stringbuilder.c")
    for fn in FORMATTERS:
        size, fmt, arg = formatter(sb, fn, "stringbuilder.c")
        rows.append(f"  ({lean_str(fn)}, {size}, {lean_str(fmt)}, {lean_str(arg)})")
    out.append(",\n".join(rows))
    out.append("]")
    out.append("")
    out.append("end W2c2Verif.Gen")
    return "\n".join(out) + "\n"


if __name__ == "__main__":
    try:
        sys.stdout.write(generate(sys.argv[1] if len(sys.argv) > 1 else "/repo"))
    except ExtractFail as e:
        print(str(e), file=sys.stderr)
        sys.exit(3)
