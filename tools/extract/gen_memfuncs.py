"""gen_memfuncs — regenerate lean/W2c2Verif/Gen/MemFuncs.lean from /repo/w2c2/w2c2_base.h.

`wasmMemoryGrow` (configuration: little endian, WASM_THREADS_PTHREADS) is flattened, IN SOURCE
ORDER, into the atomic steps of a small register machine (Model/ConcBase.lean: `MStep`):

  set r e          local := pure U32 expression over locals / parameters
  read r f         local := memory->f            (ONE plain read of a descriptor field)
  write f e        memory->f := e                (ONE plain write of a descriptor field)
  brUnless c k     `if (c) { <k steps> }`        (forward skip of the k steps of the body when c == 0)
  ret e | lock | unlock | realloc r p n | memset p off v n | abort

The non-shared path is captured too: `realloc(memory->data, <size>)` becomes `realloc r p n` (n = the byte size
expression), `memset(<pointer local> + <offset>, <value>, <length>)` becomes `memset p off v n` with the destination
split into the pointer register and the U32 offset expression (any other destination shape is an ExtractFail), so
that Model/GrowContent.lean can state which bytes of the block returned by realloc are zeroed.

Every occurrence of `memory->f` inside an expression becomes its own `read` step into a fresh
temporary, in evaluation order, immediately before the step that uses it — so the position of each
shared access relative to WASM_MUTEX_LOCK / WASM_MUTEX_UNLOCK is exactly the source's.  (The operand
of a short-circuit `||`/`&&` is read unconditionally; reads have no side effect, and the only such
operand in the pinned tree is the immutable `maxPages`.)  Anything outside the accepted statement
shapes raises ExtractFail: the tie is then broken, never silently approximated.

Also generated: the size computation and the descriptor initialisation of `wasmMemoryAllocate`.
"""
import os
import sys
from cfront import (ExtractFail, StmtParser, Var, IntLit, Cast, Un, Bin, Cond, Call, AddrOf, Member,
                    AssignE, Comma, lean_str, toks_text, split_params, Parser)
import gen_macros

GEN_NAME = "MemFuncs"
W = "w2c2_base.h"
FIELDS = {"data": "data", "size": "size", "pages": "pages", "maxPages": "maxPages", "shared": "shared"}
BINOPS = {"add", "sub", "mul", "eq", "ne", "lt", "le", "gt", "ge", "lor", "land"}
TYPEDEFS = {"void": "void", "wasmMemory": "wasmMemory"}
U32MAX = (1 << 32) - 1


class Flattener:
    def __init__(self, where, memvar, params):
        self.where = where
        self.memvar = memvar
        self.regs = []          # names, index = register number
        self.types = {}
        for n, t in params:
            self.declare(n, t)
        self.ntemps = 0

    def fail(self, why):
        raise ExtractFail(self.where, why)

    def declare(self, name, ty):
        if name in self.regs:
            self.fail(f"local `{name}` declared twice (block scoping is not modelled)")
        self.regs.append(name)
        self.types[name] = ty
        return len(self.regs) - 1

    def temp(self, fld):
        name = f"%{fld}{self.ntemps}"
        self.ntemps += 1
        return self.declare(name, "u32")

    def reg(self, name):
        if name not in self.regs:
            self.fail(f"unknown identifier `{name}`")
        return self.regs.index(name)

    def is_field(self, e):
        return isinstance(e, Member) and e.arrow and isinstance(e.e, Var) and e.e.n == self.memvar

    def field(self, e):
        if e.name not in FIELDS:
            self.fail(f"access to descriptor field `{e.name}` is not modelled")
        return FIELDS[e.name]

    def const(self, e):
        """integer constant expression or None"""
        if isinstance(e, IntLit):
            return e.value
        if isinstance(e, Un) and e.op == "neg":
            v = self.const(e.e)
            return None if v is None else -v
        if isinstance(e, Cast) and not getattr(e, "ptr", 0) and e.ty == "u32":
            v = self.const(e.e)
            return None if v is None else v % (1 << 32)
        return None

    def expr(self, e, pre):
        """Lean MExpr term; appends the `read` steps of embedded field accesses to `pre`."""
        c = self.const(e)
        if c is not None:
            if not 0 <= c <= U32MAX:
                self.fail(f"constant {c} is not a U32 value")
            return f"(.lit {c})"
        if isinstance(e, Var):
            if e.n == "true":
                return "(.lit 1)"
            if e.n == "false":
                return "(.lit 0)"
            return f"(.reg {self.reg(e.n)})"
        if self.is_field(e):
            f = self.field(e)
            t = self.temp(f)
            pre.append(f".read {t} .{f}")
            return f"(.reg {t})"
        if isinstance(e, Cast):
            if getattr(e, "ptr", 0) or e.ty not in ("u32",):
                self.fail("cast other than (U32) in a value expression")
            return self.expr(e.e, pre)       # operands are U32 already: the cast is the identity
        if isinstance(e, Un) and e.op == "lnot":
            return f"(.lnot {self.expr(e.e, pre)})"
        if isinstance(e, Bin) and e.op == "mul" and any(isinstance(x, Cast) and x.ty == "u64" and not getattr(x, "ptr", 0)
                                                       for x in (e.a, e.b)):
            # `(size_t) a * b`: the product is computed in 64 bits (no U32 wrap)
            a = self.expr(e.a.e if isinstance(e.a, Cast) and e.a.ty == "u64" else e.a, pre)
            b = self.expr(e.b.e if isinstance(e.b, Cast) and e.b.ty == "u64" else e.b, pre)
            return f"(.wmul {a} {b})"
        if isinstance(e, Bin) and e.op in BINOPS:
            a = self.expr(e.a, pre)
            b = self.expr(e.b, pre)
            return f"(.{e.op} {a} {b})"
        if isinstance(e, Cond):
            c_ = self.expr(e.c, pre)
            a = self.expr(e.a, pre)
            b = self.expr(e.b, pre)
            return f"(.cond {c_} {a} {b})"
        self.fail(f"expression form {type(e).__name__} is outside the U32 fragment")

    def mutex_call(self, e):
        """((void)pthread_mutex_lock(&memory->mutex)) → 'lock' / 'unlock' / None"""
        if isinstance(e, Cast) and e.ty == "void":
            e = e.e
        if isinstance(e, Call) and e.f in ("pthread_mutex_lock", "pthread_mutex_unlock") and len(e.args) == 1:
            a = e.args[0]
            if isinstance(a, AddrOf) and isinstance(a.e, Member) and a.e.arrow and isinstance(a.e.e, Var) \
                    and a.e.e.n == self.memvar and a.e.name == "mutex":
                return "lock" if e.f.endswith("_lock") else "unlock"
            self.fail("mutex operation on something other than &memory->mutex")
        return None

    def check_ty(self, ty):
        t, ptr = ty
        if (t, ptr) in (("u32", 0), ("i32", 0), ("u8", 1)):      # U32, bool (C_BASE_TYPES maps bool→i32), U8*
            return
        self.fail(f"local of type {t}{'*' * ptr} is outside the modelled types (U32, bool, U8*)")

    def stmts(self, items):
        out = []
        for s in items:
            out += self.stmt(s)
        return out

    def stmt(self, s):
        k = s[0]
        pre = []
        if k == "block":
            return self.stmts(s[1])
        if k == "decl":
            name, ty, e = s[1], s[2], s[3]
            self.check_ty(ty)
            if self.is_field(e):
                r = self.declare(name, ty)
                return [f".read {r} .{self.field(e)}"]
            if isinstance(e, Cast) and getattr(e, "ptr", 0) == 1 and isinstance(e.e, Call) and e.e.f == "realloc" \
                    and len(e.e.args) == 2:
                p = self.expr(e.e.args[0], pre)
                n = self.expr(e.e.args[1], pre)
                r = self.declare(name, ty)
                return pre + [f".realloc {r} {p} {n}"]
            t = self.expr(e, pre)
            r = self.declare(name, ty)
            return pre + [f".set {r} {t}"]
        if k == "expr":
            e = s[1]
            m = self.mutex_call(e)
            if m:
                return ["." + m]
            if isinstance(e, AssignE) and e.op == "=":
                if isinstance(e.lhs, Var) and isinstance(e.rhs, Cast) and getattr(e.rhs, "ptr", 0) == 1 \
                        and isinstance(e.rhs.e, Call) and e.rhs.e.f == "realloc" and len(e.rhs.e.args) == 2:
                    if self.types.get(e.lhs.n) != ("u8", 1):
                        self.fail("result of realloc assigned to a non-pointer local")
                    pp = self.expr(e.rhs.e.args[0], pre)
                    nn = self.expr(e.rhs.e.args[1], pre)
                    return pre + [f".realloc {self.reg(e.lhs.n)} {pp} {nn}"]
                if self.is_field(e.lhs) and isinstance(e.rhs, Cast) and getattr(e.rhs, "ptr", 0) == 1 \
                        and isinstance(e.rhs.e, Call) and e.rhs.e.f == "realloc" and len(e.rhs.e.args) == 2:
                    # memory->data = (U8*)realloc(…): the result goes through a temporary pointer register
                    pp = self.expr(e.rhs.e.args[0], pre)
                    nn = self.expr(e.rhs.e.args[1], pre)
                    tr = self.declare(f"%realloc{self.ntemps}", ("u8", 1))
                    self.ntemps += 1
                    return pre + [f".realloc {tr} {pp} {nn}", f".write .{self.field(e.lhs)} (.reg {tr})"]
                if isinstance(e.lhs, Var):
                    t = self.expr(e.rhs, pre)
                    return pre + [f".set {self.reg(e.lhs.n)} {t}"]
                if self.is_field(e.lhs):
                    t = self.expr(e.rhs, pre)
                    return pre + [f".write .{self.field(e.lhs)} {t}"]
            if isinstance(e, Call) and e.f == "memset" and len(e.args) == 3:
                dst = e.args[0]
                if isinstance(dst, Var) and self.types.get(dst.n) == ("u8", 1):
                    ptr, off = self.reg(dst.n), "(.lit 0)"
                elif isinstance(dst, Bin) and dst.op == "add" and isinstance(dst.a, Var) \
                        and self.types.get(dst.a.n) == ("u8", 1):
                    ptr, off = self.reg(dst.a.n), self.expr(dst.b, pre)
                elif self.is_field(dst) and dst.name == "data":
                    ptr, off = self.temp("data"), "(.lit 0)"
                    pre.append(f".read {ptr} .data")
                elif isinstance(dst, Bin) and dst.op == "add" and self.is_field(dst.a) and dst.a.name == "data":
                    ptr = self.temp("data")
                    pre.append(f".read {ptr} .data")
                    off = self.expr(dst.b, pre)
                else:
                    self.fail("memset destination is not `<pointer>` or `<pointer> + <offset>` with pointer = a U8* local "
                              "or memory->data")
                v = self.expr(e.args[1], pre)
                n = self.expr(e.args[2], pre)
                return pre + [f".memset {ptr} {off} {v} {n}"]
            if isinstance(e, Call) and e.f == "abort" and not e.args:
                return [".abort"]
            self.fail("expression statement of an unmodelled shape")
        if k == "if":
            c = self.expr(s[1], pre)
            body = self.stmt(s[2])
            return pre + [f".brUnless {c} {len(body)}"] + body
        if k == "ifelse":
            # if (c) A else B  →  brUnless c (|A|+1); A; brUnless 0 |B|; B      (`brUnless 0 k` = jump)
            c = self.expr(s[1], pre)
            a = self.stmt(s[2])
            b = self.stmt(s[3])
            return pre + [f".brUnless {c} {len(a) + 1}"] + a + [f".brUnless (.lit 0) {len(b)}"] + b
        if k == "declnoinit":
            self.check_ty(s[2])
            self.declare(s[1], s[2])       # indeterminate until assigned; registers start at 0 in the model
            return []
        if k == "ret":
            t = self.expr(s[1], pre)
            return pre + [f".ret {t}"]
        self.fail(f"statement kind `{k}` is outside the modelled fragment")


def parse_params(f, where):
    """[(name, (ty, ptr))]; the wasmMemory* parameter is returned separately."""
    mem = None
    params = []
    for p in split_params(f.params):
        pp = Parser(p, where, TYPEDEFS)
        ty = pp.try_type()
        if ty is None or pp.pos != len(p) - 1:
            raise ExtractFail(where, f"unsupported parameter: {toks_text(p)}")
        name = p[-1].text
        if ty == ("wasmMemory", 1):
            mem = name
        elif ty in (("u32", 0), ("i32", 0)):
            params.append((name, ty[0]))
        else:
            raise ExtractFail(where, f"parameter `{toks_text(p)}` has an unmodelled type")
    return mem, params


def body_items(f, where):
    sp = StmtParser(f.body_toks, where, TYPEDEFS)
    items = sp.parse_block_items()
    if sp.pos != len(sp.toks):
        sp.fail("trailing tokens in body")
    return items


def flatten_grow(view):
    """→ (register names, steps, source text)"""
    fs = view.funcs()
    if "wasmMemoryGrow" not in fs:
        raise ExtractFail(W, "wasmMemoryGrow not found")
    f = fs["wasmMemoryGrow"]
    where = f"{W}:{f.line}"
    if [t.text for t in f.ret if t.text == "U32"] != ["U32"]:
        raise ExtractFail(where, "wasmMemoryGrow does not return U32")
    mem, params = parse_params(f, where)
    if mem is None or [n for n, _ in params] != ["delta"]:
        raise ExtractFail(where, "wasmMemoryGrow(wasmMemory*, U32 delta) expected")
    fl = Flattener(where, mem, params)
    steps = fl.stmts(body_items(f, where))
    if not steps or not steps[-1].startswith(".ret"):
        raise ExtractFail(where, "wasmMemoryGrow does not end in a return")
    return fl.regs, steps, toks_text(f.body_toks)


def flatten_size(view):
    """wasmMemorySize(memory) → (register names, steps, source text); register 0 is reserved (unused argument slot)"""
    fs = view.funcs()
    if "wasmMemorySize" not in fs:
        raise ExtractFail(W, "wasmMemorySize not found (memory.size must go through a header function that takes "
                             "the lock of a shared memory)")
    f = fs["wasmMemorySize"]
    where = f"{W}:{f.line}"
    if [t.text for t in f.ret if t.text == "U32"] != ["U32"]:
        raise ExtractFail(where, "wasmMemorySize does not return U32")
    mem, params = parse_params(f, where)
    if mem is None or params:
        raise ExtractFail(where, "wasmMemorySize(wasmMemory*) expected")
    fl = Flattener(where, mem, [("%arg", "u32")])
    steps = fl.stmts(body_items(f, where))
    if not steps or not steps[-1].startswith(".ret"):
        raise ExtractFail(where, "wasmMemorySize does not end in a return")
    check_locked_reads(steps, where, "wasmMemorySize")
    return fl.regs, steps, toks_text(f.body_toks)


def check_locked_reads(steps, where, fname):
    """Walk every path of the flattened steps for a SHARED memory (`read r .shared` yields 1) and fail on a read
    of pages/size outside lock…unlock (the same discipline `ReadsUnderLock` decides in Lean)."""
    import re

    def walk(pc, held, known, depth):
        if depth > 4 * len(steps) + 8:
            raise ExtractFail(where, f"{fname}: path does not terminate")
        if pc >= len(steps):
            raise ExtractFail(where, f"{fname}: falls off the end")
        st = steps[pc]
        m = re.match(r"\.read (\d+) \.(\w+)", st)
        if m:
            r, f = int(m.group(1)), m.group(2)
            if f in ("pages", "size") and not held:
                raise ExtractFail(where, f"{fname}: `memory->{f}` of a shared memory is read without the lock (step {pc})")
            k2 = dict(known)
            if f == "shared":
                k2[r] = 1
            else:
                k2.pop(r, None)
            return walk(pc + 1, held, k2, depth + 1)
        m = re.match(r"\.brUnless \(\.(reg|lit) (\d+)\) (\d+)", st)
        if m:
            kind, v, k = m.group(1), int(m.group(2)), int(m.group(3))
            val = v if kind == "lit" else known.get(v)
            if val is None:
                walk(pc + 1, held, known, depth + 1)
                return walk(pc + 1 + k, held, known, depth + 1)
            return walk(pc + 1 if val != 0 else pc + 1 + k, held, known, depth + 1)
        m = re.match(r"\.brUnless .* (\d+)$", st)
        if m:
            walk(pc + 1, held, known, depth + 1)
            return walk(pc + 1 + int(m.group(1)), held, known, depth + 1)
        if st == ".lock":
            return walk(pc + 1, True, known, depth + 1)
        if st == ".unlock":
            return walk(pc + 1, False, known, depth + 1)
        if st.startswith(".ret"):
            if held:
                raise ExtractFail(where, f"{fname}: returns with the mutex held (step {pc})")
            return
        if st == ".abort":
            return
        m = re.match(r"\.set (\d+) ", st)
        if m:
            k2 = dict(known)
            k2.pop(int(m.group(1)), None)
            return walk(pc + 1, held, k2, depth + 1)
        return walk(pc + 1, held, known, depth + 1)

    walk(0, False, {}, 0)


def alloc_parts(view):
    fs = view.funcs()
    if "wasmMemoryAllocate" not in fs:
        raise ExtractFail(W, "wasmMemoryAllocate not found")
    f = fs["wasmMemoryAllocate"]
    where = f"{W}:{f.line}"
    _, params = parse_params(f, where)
    if [n for n, _ in params] != ["initialPages", "maxPages", "shared"]:
        raise ExtractFail(where, "wasmMemoryAllocate(initialPages, maxPages, shared) expected")
    fl = Flattener(where, "memory", params)
    size = None
    inits = []
    for s in body_items(f, where):
        if s[0] == "decl" and s[1] == "size":
            if s[2] != ("u32", 0):
                raise ExtractFail(where, "`size` is not declared U32")
            pre = []
            size = fl.expr(s[3], pre)
            if pre:
                raise ExtractFail(where, "size computation reads the descriptor")
            fl.declare("size", "u32")
        elif s[0] == "expr" and isinstance(s[1], AssignE) and fl.is_field(s[1].lhs) and s[1].lhs.name in FIELDS \
                and s[1].lhs.name != "data":
            pre = []
            inits.append((FIELDS[s[1].lhs.name], fl.expr(s[1].rhs, pre)))
            if pre:
                raise ExtractFail(where, "descriptor initialiser reads the descriptor")
    if size is None or sorted(n for n, _ in inits) != ["maxPages", "pages", "shared", "size"]:
        raise ExtractFail(where, "wasmMemoryAllocate: size computation / field initialisers not found")
    return fl.regs, size, inits


def grow_steps_of_header(hdr):
    """(regs, steps) of wasmMemoryGrow in the given header file (used by the C18 check on patched copies)."""
    view = gen_macros.HeaderView(hdr, gen_macros.configs()["le"])
    regs, steps, _ = flatten_grow(view)
    return regs, steps


def generate(repo):
    hdr = os.path.join(repo, "w2c2", "w2c2_base.h")
    view = gen_macros.HeaderView(hdr, gen_macros.configs()["le"])
    regs, steps, src = flatten_grow(view)
    sregs, ssteps, ssrc = flatten_size(view)
    aregs, asize, ainits = alloc_parts(view)
    out = ["-- GENERATED by tools/extract/gen_memfuncs.py from /repo/w2c2/w2c2_base.h — do not edit.",
           "import W2c2Verif.Model.ConcBase",
           "namespace W2c2Verif.Gen",
           "open W2c2Verif.Model",
           "",
           "/-- registers of `wasmMemoryGrow`: parameters first, then locals in declaration order; `%f<n>` is the",
           "    temporary holding one read of `memory->f`. -/",
           "def growRegs : List String := [" + ", ".join(lean_str(r) for r in regs) + "]",
           "",
           "/-- `wasmMemoryGrow` body (WASM_THREADS_PTHREADS), flattened in source order:",
           "    `" + src.replace("-/", "- /") + "` -/",
           "def growSteps : List MStep := ["]
    out.append(",\n".join(f"  /- {i:2d} -/ {s}" for i, s in enumerate(steps)))
    out += ["]", "",
            "/-- registers of `wasmMemorySize` (register 0 is an unused argument slot) -/",
            "def sizeRegs : List String := [" + ", ".join(lean_str(r) for r in sregs) + "]",
            "",
            "/-- `wasmMemorySize` body — what c.c emits for memory.size is a call of it:",
            "    `" + ssrc.replace("-/", "- /") + "` -/",
            "def sizeSteps : List MStep := [",
            ",\n".join(f"  /- {i:2d} -/ {s_}" for i, s_ in enumerate(ssteps)),
            "]", "",
            "/-- registers of `wasmMemoryAllocate` -/",
            "def allocRegs : List String := [" + ", ".join(lean_str(r) for r in aregs) + "]",
            "/-- `const U32 size = …` of `wasmMemoryAllocate` -/",
            f"def allocSize : MExpr := {asize}",
            "/-- descriptor fields as initialised by `wasmMemoryAllocate` (register `size` holds `allocSize`) -/",
            "def allocInit : List (MFld × MExpr) := [" + ", ".join(f"(.{f}, {e})" for f, e in ainits) + "]",
            f"def memPageSize : Nat := {int(toks_text(view.expand_call('WASM_PAGE_SIZE', None)))}",
            "", "end W2c2Verif.Gen"]
    return "\n".join(out) + "\n"


if __name__ == "__main__":
    repo = sys.argv[1] if len(sys.argv) > 1 else "/repo"
    try:
        sys.stdout.write(generate(repo))
    except ExtractFail as e:
        print(str(e), file=sys.stderr)
        sys.exit(3)
