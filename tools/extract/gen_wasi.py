"""gen_wasi — regenerate lean/W2c2Verif/Gen/Wasi.lean from /repo/wasi/wasi.c and wasi.h.

SEMANTIC extraction: wasi.c is preprocessed by the real preprocessor, parsed and EXECUTED by the small C
interpreter of wasi_cinterp.py on mock hosts (a descriptor table, guest memory, recording mocks for every libc /
w2c2 call).  Each fact below is read off the observed behaviour of a probe — the host calls made, their arguments,
the stores into guest memory, the result — never off the shape of the text:

  * C parameter types of every import (parsed declarations of the preprocessed functions);
  * whence tables: fd_seek(live fd, whence v) for v = 0…8 and large values -> third argument of `lseek`, or EINVAL;
  * where an invalid whence is rejected relative to the descriptor lookup (dead fd + invalid whence);
  * path_open: for every single oflags / fdflags bit the O_* bits added to `open`'s flag word, for every rights bit
    the access mode (read / write masks, access-mode table — then cross-checked on pseudo-random rights words),
    the creation mode, the O_DIRECTORY emulation by fstat, what is registered in the table;
  * errno translation: the result of a failing call for every host errno the executed code compares `errno` with
    (switch cases or ==/!= comparisons alike) and for an errno it does not mention (default);
  * filestat layouts of both ABIs: the memset and the stores fd_filestat_get performs for a stat result with
    distinctive field values (offset, store width, truncation width of each field);
  * iovec marshalling: which guest addresses fd_write / fd_read load for a 2-element vector and what they hand to
    writev / readv; that nothing is stored when the transfer fails;
  * structural facts of the descriptor code: does fd_close leave a NULL path in the table, are empty slots
    rejected, what happens with a NULL path in fd_readdir / fd_fdstat_get / fd_filestat_get (errno or NULL
    dereference), fd_sync / fd_datasync on a descriptor without native fd, embedded NUL in a guest path, does
    fd_readdir close the entry's native descriptor, does every path_* import validate its directory descriptor
    (never issued / path-less descriptor × relative / absolute guest path -> EBADF without any host call).

Local names, switch vs if/else chains, copy-propagated temporaries, `!x` / `x == 0` / `x == NULL`, swapped if/else
branches, `i++` / `i += 1`, for vs while, the spelling of literals and named constants are invisible to the probes.
Constants of wasi.h that the model uses by value (WASI_ERRNO_*, WASI_RIGHTS_*, …) are evaluated from the #defines.
Whatever the interpreter cannot execute (C outside its subset, a host call without mock, a branch on a value the
probe does not determine, an observation outside the expected repertoire) raises ExtractFail: the tie is reported
broken, nothing is guessed.
"""
import errno as pyerrno
import os
import random
import re

from cfront import ExtractFail
import wasi_cinterp as ci
from wasi_cinterp import Cell, Ptr, Interp

GEN_NAME = "Wasi"

ERRNOS = ["EPERM", "ENOENT", "ESRCH", "EINTR", "EIO", "ENXIO", "E2BIG", "ENOEXEC", "EBADF", "ECHILD", "EAGAIN",
          "ENOMEM", "EACCES", "EFAULT", "EBUSY", "EEXIST", "EXDEV", "ENODEV", "ENOTDIR", "EISDIR", "EINVAL", "ENFILE",
          "EMFILE", "ENOTTY", "ETXTBSY", "EFBIG", "ENOSPC", "ESPIPE", "EROFS", "EMLINK", "EPIPE", "EDOM", "ERANGE",
          "ENAMETOOLONG", "ENOTEMPTY", "ELOOP", "EOVERFLOW", "ENOSYS"]
OFLAG_BY_VALUE = {os.O_CREAT: "creat", os.O_DIRECTORY: "directory", os.O_EXCL: "excl", os.O_TRUNC: "trunc",
                  os.O_APPEND: "append", os.O_DSYNC: "dsync", os.O_NONBLOCK: "nonblock", os.O_SYNC: "sync"}
ACC_BY_VALUE = {os.O_RDONLY: "rdonly", os.O_WRONLY: "wronly", os.O_RDWR: "rdwr"}
WHENCE_BY_VALUE = {os.SEEK_SET: "set", os.SEEK_CUR: "cur", os.SEEK_END: "end"}
STORE_BYTES = {"i32_store8": 1, "i32_store16": 2, "i32_store": 4, "i64_store": 8}
HOST_PATH_CALLS = {"open", "stat", "lstat", "fstat", "rename", "unlink", "rmdir", "mkdir", "symlink", "readlink", "opendir"}
ABI = {"p1": "wasi_snapshot_preview1__", "un": "wasi_unstable__"}
S_IFREG, S_IFDIR = 0o100000, 0o040000


def strip_comments(text):
    return re.sub(r"/\*.*?\*/", lambda m: re.sub(r"[^\n]", " ", m.group(0)), text, flags=re.S)


def macros_of(header_text):
    text = header_text.replace("\\\n", " ")
    ms = {}
    for m in re.finditer(r"^[ \t]*#[ \t]*define[ \t]+(\w+)[ \t]+(.+)$", text, flags=re.M):
        ms[m.group(1)] = m.group(2).strip()
    return ms


def eval_const(expr, macros, where, depth=0):
    if depth > 40:
        raise ExtractFail(where, "macro recursion")

    def sub(m):
        n = m.group(0)
        if n in macros:
            return "(" + str(eval_const(macros[n], macros, where, depth + 1)) + ")"
        raise ExtractFail(where, f"unknown identifier {n} in constant expression")
    e = re.sub(r"\b[A-Za-z_]\w*\b", sub, expr)
    e = re.sub(r"(\d+)[uUlL]+", r"\1", e)
    if not re.fullmatch(r"[\d\s()|&<>+\-*~x0-9a-fA-F]*", e):
        raise ExtractFail(where, f"cannot evaluate `{expr}`")
    return int(eval(" ".join(e.split()), {"__builtins__": {}}))


class Crash(Exception):
    def __init__(self, kind):
        self.kind = kind


class World(object):
    """a mock host around one interpreter instance"""

    def __init__(self, unit):
        self.guest = Cell("guest")
        self.memory = Cell("memory")
        self.memory.field("data").v = Ptr(self.guest, 0)
        self.memory.field("size").v = 65536
        self.errno = Cell("errno"); self.errno.v = 0
        self.loads, self.stores, self.memsets, self.freed = [], [], [], []
        self.ret = {"open": 9, "lseek": 7, "writev": 5, "readv": 5, "close": 0, "closedir": 0, "fsync": 0, "fdatasync": 0,
                    "rename": 0, "unlink": 0, "rmdir": 0, "mkdir": 0, "symlink": 0, "readlink": 0, "fcntl": 0, "isatty": 0}
        self.stat = {"st_dev": 0x0D0E0F1011121314, "st_ino": 0x2122232425262728, "st_mode": S_IFREG, "st_nlink": 0x3132333435363738,
                     "st_size": 0x4142434445464748, "st_atim": (1111, 222), "st_mtim": (3333, 444), "st_ctim": (5555, 666)}
        self.load_value = lambda addr: (addr * 13 + 5) & 0xFFFF
        self.iov_seen = None
        m = {}
        m["wasiMemory"] = lambda it, inst: Ptr(self.memory)
        m["__errno_location"] = lambda it: Ptr(self.errno)
        for fn in ("i32_load", "i64_load", "i32_load8_u", "i32_load16_u"):
            m[fn] = self._load
        for fn in STORE_BYTES:
            m[fn] = (lambda f: lambda it, mem, addr, v: self.stores.append((f, addr, v)))(fn)
        m["memset"] = self._memset
        m["memcpy"] = self._memcpy
        m["memmove"] = self._memcpy
        m["memchr"] = self._memchr
        m["strlen"] = lambda it, p: len(self._cstr(it, p, "strlen"))
        m["strcpy"] = self._strcpy
        m["strcat"] = self._strcat
        m["strndup"] = self._strndup
        m["malloc"] = lambda it, n: Ptr(Cell("heap"), 0)
        m["calloc"] = lambda it, n, sz: Ptr(Cell("heap"), 0)
        m["realloc"] = lambda it, p, n: p
        m["free"] = self._free
        m["open"] = lambda it, p, fl, mode=0: self.ret["open"]
        m["fstat"] = self._fstat
        m["stat"] = lambda it, p, st: self._fstat(it, -1, st)
        m["lstat"] = lambda it, p, st: self._fstat(it, -1, st)
        m["opendir"] = lambda it, p: Ptr(Cell("DIR"))
        m["readdir"] = lambda it, d: 0
        m["seekdir"] = lambda it, d, pos: None
        m["rewinddir"] = lambda it, d: None
        m["telldir"] = lambda it, d: 0
        m["writev"] = self._iov("writev")
        m["readv"] = self._iov("readv")
        m["lseek"] = lambda it, fd, off, wh: self.ret["lseek"]
        for fn in ("close", "closedir", "fsync", "fdatasync", "isatty"):
            m[fn] = (lambda f: lambda it, *a: self.ret[f])(fn)
        m["fcntl"] = lambda it, *a: self.ret["fcntl"]
        for fn in ("rename", "unlink", "rmdir", "mkdir", "symlink", "readlink"):
            m[fn] = (lambda f: lambda it, *a: self.ret[f])(fn)
        self.it = Interp(unit, m)
        self.table = None

    # ---- mocks
    def _cstr(self, it, p, what):
        if p == 0:
            raise Crash("nullDeref")
        if isinstance(p, Ptr) and id(p.cell) in [id(c) for c in self.freed]:
            raise Crash("useAfterFree")
        return ci.read_cstr(it, p)

    def _load(self, it, mem, addr):
        self.loads.append(addr)
        return self.load_value(addr)

    def _memset(self, it, p, val, n):
        self.memsets.append((p, val, n))
        if isinstance(p, Ptr) and p.idx is not None and isinstance(n, int) and n <= 4096:
            for k in range(n):
                p.cell.elem(p.idx + k).v = val
        return p

    def _memcpy(self, it, dst, src, n):
        if dst == 0 or src == 0:
            raise Crash("nullDeref")
        for k in range(n):
            d, s = it.padd(dst, k).target(), it.padd(src, k).target()
            d.v = s.v if s.v is not None else ci.Unknown("copied")
        return dst

    def _memchr(self, it, p, c, n):
        for k in range(n):
            v = it.padd(p, k).target().v
            if v == c:
                return it.padd(p, k)
        return 0

    def _strcpy(self, it, dst, src):
        s = self._cstr(it, src, "strcpy")
        for k, b in enumerate(s + [0]):
            it.padd(dst, k).target().v = b
        return dst

    def _strcat(self, it, dst, src):
        d = self._cstr(it, dst, "strcat")
        s = self._cstr(it, src, "strcat")
        for k, b in enumerate(s + [0]):
            it.padd(dst, len(d) + k).target().v = b
        return dst

    def _strndup(self, it, p, n):
        s = self._cstr(it, p, "strndup")[:n]
        return Ptr(ci.bytes_cell(s + [0], "strndup"), 0)

    def _free(self, it, p):
        if p == 0:
            return None
        if any(c is p.cell for c in self.freed):
            raise Crash("doubleFree")
        self.freed.append(p.cell)
        return None

    def _fstat(self, it, fd, stp):
        st = stp.target()
        for k, v in self.stat.items():
            if isinstance(v, tuple):
                st.field(k).field("tv_sec").v = v[0]
                st.field(k).field("tv_nsec").v = v[1]
            else:
                st.field(k).v = v
        return 0

    def _iov(self, name):
        def f(it, fd, iov, cnt):
            segs = []
            for k in range(cnt):
                e = it.padd(iov, k).target()
                segs.append((e.field("iov_base").v, e.field("iov_len").v))
            self.iov_seen = (name, fd, segs, cnt)
            return self.ret[name]
        return f

    # ---- set-up
    def set_table(self, entries):
        arr = Cell("fdtable")
        for i, (fd, d, path) in enumerate(entries):
            e = arr.elem(i)
            e.field("fd").v = fd
            e.field("dir").v = d
            e.field("path").v = Ptr(ci.bytes_cell([ord(c) for c in path] + [0], f"path{i}"), 0) if isinstance(path, str) else path
        w = self.it.globals["wasi"]
        w.field("fds").field("fds").v = Ptr(arr, 0)
        w.field("fds").field("length").v = len(entries)
        w.field("fds").field("capacity").v = len(entries)
        self.table = arr

    def entry(self, i):
        e = self.table.elem(i)
        return e.field("fd").v, e.field("dir").v, e.field("path").v

    def table_len(self):
        return self.it.globals["wasi"].field("fds").field("length").v

    def put(self, addr, data):
        for k, b in enumerate(data):
            self.guest.elem(addr + k).v = b

    def call(self, name, *args):
        """-> ('ret', value) | ('crash', kind)"""
        self.it.calls = []
        try:
            return ("ret", self.it.invoke(name, list(args)))
        except Crash as c:
            return ("crash", c.kind)

    def called(self, *names):
        return [c for c in self.it.calls if c[0] in names]


STD_TABLE = [(0, 0, 0), (1, 0, 0), (2, 0, 0), (-1, 0, "sb"), (5, 0, "sb/f"), (-1, 0, 0)]
#             stdio ×3 (no path)            pre-open      opened file     empty (closed) slot


def world(unit, table=STD_TABLE):
    w = World(unit)
    w.set_table(table)
    w.put(100, [ord("f")])             # relative guest path "f" at 100
    w.put(110, [ord("/"), ord("x")])   # absolute guest path "/x" at 110
    return w


def expect(cond, where, why):
    if not cond:
        raise ExtractFail(where, why)


# ----------------------------------------------------------------------------- facts

CT_BITS = {k: v[0] for k, v in ci.INT_TYPES.items()}


def imports(unit):
    out = []
    for name in unit.order:
        for abi, pre in (("un", ABI["un"]), ("p1", ABI["p1"])):
            if name.startswith(pre):
                ps = []
                for pn, ty in unit.funcs[name].params:
                    if ty.ptr:
                        continue
                    if ty.base not in CT_BITS:
                        raise ExtractFail("wasi.c", f"unknown C type {ty.base} of {name}.{pn}")
                    ps.append((pn, CT_BITS[ty.base]))
                out.append((abi, name[len(pre):], ps))
    return out


def param_bits(imps, abi, name, index):
    for a, n, ps in imps:
        if a == abi and n == name:
            expect(index < len(ps), "wasi.c", f"import {name} has no parameter #{index}")
            return ps[index][1]
    raise ExtractFail("wasi.c", f"import {abi}:{name} not found")


def whence_table(unit, abi):
    rows = []
    for v in list(range(0, 9)) + [255, 256, 65535, 65536, 1 << 31, (1 << 32) - 1]:
        w = world(unit)
        r = w.call(ABI[abi] + "fd_seek", 0, 4, 0, v, 64)
        ls = w.called("lseek")
        if ls:
            expect(r == ("ret", 0) and len(ls) == 1 and ls[0][1][0] == 5 and ls[0][1][2] in WHENCE_BY_VALUE, "wasi.c",
                   f"{abi} fd_seek(whence {v}): unexpected lseek call {ls} / result {r}")
            rows.append((v, WHENCE_BY_VALUE[ls[0][1][2]]))
        else:
            expect(r[0] == "ret" and r[1] != 0, "wasi.c", f"{abi} fd_seek(whence {v}) succeeds without lseek")
    expect(rows and all(v < 9 for v, _ in rows), "wasi.c", f"{abi} fd_seek: whence table outside 0…8: {rows}")
    return rows


def seek_whence_first(unit, inval, badf):
    res = set()
    for abi in ABI:
        w = world(unit)
        r = w.call(ABI[abi] + "fd_seek", 0, 77, 0, 99, 64)
        expect(r[0] == "ret" and r[1] in (inval, badf) and not w.called("lseek"), "wasi.c", f"fd_seek(dead fd, bad whence) = {r}")
        res.add(r[1] == inval)
    expect(len(res) == 1, "wasi.c", "the two fd_seek imports treat an invalid whence differently")
    return res.pop()


def errno_table(unit):
    is_errno = lambda e: e == ("un", "*", ("call", ("var", "__errno_location"), []))
    # the functions executed on the error path of a failing host call
    probe = world(unit)
    probe.ret["fsync"] = -1
    probe.errno.v = 5
    seen_funcs = []
    orig = probe.it.invoke

    def tracing(name, args):
        if name in unit.funcs and name not in seen_funcs:
            seen_funcs.append(name)
        return orig(name, args)
    probe.it.invoke = tracing
    tracing(ABI["p1"] + "fd_sync", [0, 4])
    mentioned = []
    for fn in seen_funcs:
        for v in sorted(ci.consts_compared_with(unit.funcs[fn].body, is_errno)):
            if v not in mentioned:
                mentioned.append(v)
    expect(mentioned, "wasi.c", "no errno comparisons found on the error path of fd_sync")

    def translate(e):
        w = world(unit)
        w.ret["fsync"] = -1
        w.errno.v = e
        r = w.call(ABI["p1"] + "fd_sync", 0, 4)
        expect(r[0] == "ret" and isinstance(r[1], int), "wasi.c", f"failing fd_sync with errno {e}: {r}")
        return r[1]
    rows = []
    for v in mentioned:
        name = pyerrno.errorcode.get(v)
        if name == "EWOULDBLOCK":
            name = "EAGAIN"
        if name not in ERRNOS:
            raise ExtractFail("wasi.c", f"errno value {v} ({name}) unknown to Spec.Posix.Errno")
        rows.append((name, translate(v)))
    dflt = translate(9999)
    # every errno the model knows but the source does not mention must get the default
    for name in ERRNOS:
        v = getattr(pyerrno, name)
        if v not in mentioned:
            expect(translate(v) == dflt, "wasi.c", f"errno {name} is translated without being compared with")
    return rows, dflt


def path_open_facts(unit):
    def run(abi, oflags, rights, fdflags, mode=S_IFDIR):
        w = world(unit)
        w.stat["st_mode"] = mode
        r = w.call(ABI[abi] + "path_open", 0, 3, 0, 100, 1, oflags, rights, 0, fdflags, 200)
        return w, r

    def flags_of(abi, oflags, rights, fdflags):
        w, r = run(abi, oflags, rights, fdflags)
        op = w.called("open")
        expect(len(op) == 1 and r == ("ret", 0), "wasi.c", f"path_open(oflags {oflags}, rights {rights}, fdflags {fdflags}): {r}, open calls {op}")
        path = ci.read_cstr(w.it, op[0][1][0])
        expect(path == [ord(c) for c in "sb/f"], "wasi.c", f"path_open opens {bytes(path)!r} for \"f\" under \"sb\"")
        return op[0][1][1], (op[0][1][2] if len(op[0][1]) > 2 else None)
    base, mode = flags_of("p1", 0, 0, 0)
    expect(base in ACC_BY_VALUE, "wasi.c", f"path_open with no rights and flags passes {base:#o}")
    omap, fmap = [], []
    for b in range(32):
        for which, acc in ((0, omap), (1, fmap)):
            fl, _ = flags_of("p1", (1 << b) if which == 0 else 0, 0, (1 << b) if which == 1 else 0)
            d = fl ^ base
            if d:
                expect(d in OFLAG_BY_VALUE and fl == base | d, "wasi.c", f"{'oflags' if which == 0 else 'fdflags'} bit {b} changes the flag word by {d:#o}")
                acc.append((1 << b, OFLAG_BY_VALUE[d]))
    accm = lambda rights: flags_of("p1", 0, rights, 0)[0] & os.O_ACCMODE
    wbits = [b for b in range(64) if accm(1 << b) in (os.O_WRONLY, os.O_RDWR)]
    expect(wbits, "wasi.c", "no rights bit makes path_open open for writing")
    rbits = [b for b in range(64) if accm((1 << wbits[0]) | (1 << b)) == os.O_RDWR and (b not in wbits or accm(1 << b) == os.O_RDWR)]
    rd, wr = sum(1 << b for b in rbits), sum(1 << b for b in wbits)
    pure_r = [b for b in rbits if b not in wbits]
    pure_w = [b for b in wbits if b not in rbits]
    expect(pure_r and pure_w, "wasi.c", "rights masks of an unexpected form")
    acc = {"wr": accm((1 << pure_w[0]) | (1 << pure_r[0])), "w": accm(1 << pure_w[0]), "r": accm(1 << pure_r[0]), "none": accm(0)}
    expect(acc["r"] == acc["none"], "wasi.c", "access mode without write rights depends on the read rights")
    rng = random.Random(12345)
    for _ in range(120):
        x = rng.getrandbits(64) & rng.getrandbits(64)
        want = (acc["wr"] if x & rd else acc["w"]) if x & wr else acc["r"]
        expect(accm(x) == want, "wasi.c", f"access mode of rights {x:#x} is not determined by the read / write masks")
    for abi in ("un",):
        for (o, r_, f) in ((0, 0, 0), (0xF, wr | rd, 0x1F), (1, wr, 1), (2, rd, 4)):
            expect(flags_of(abi, o, r_, f) == flags_of("p1", o, r_, f), "wasi.c", "path_open of the two ABIs differ")
    # O_DIRECTORY emulation: the opened object is a regular file
    emu = False
    w, r = run("p1", 0, 0, 0, mode=S_IFREG)
    expect(r == ("ret", 0), "wasi.c", "path_open of a regular file without flags fails")
    for bit in range(32):              # some oflags bit makes path_open refuse what fstat says is no directory
        w, r = run("p1", 1 << bit, 0, 0, mode=S_IFREG)
        expect(r[0] == "ret", "wasi.c", "path_open on a file crashes")
        if r[1] != 0 and w.called("fstat") and w.table_len() == len(STD_TABLE):
            emu = True
    # what is registered
    w, r = run("p1", 0, 0, 0)
    expect(r == ("ret", 0) and w.table_len() == len(STD_TABLE) + 1, "wasi.c", "successful path_open does not append one descriptor")
    fd, d, p = w.entry(len(STD_TABLE))
    expect(fd == w.ret["open"] and d == 0 and isinstance(p, Ptr), "wasi.c", f"path_open registers {(fd, d, p)}")
    registers_resolved = ci.read_cstr(w.it, p) == [ord(c) for c in "sb/f"]
    st = [s for s in w.stores if s[1] == 200]
    expect(st == [("i32_store", 200, len(STD_TABLE))], "wasi.c", f"path_open stores {w.stores}")
    return rd, wr, {k: ACC_BY_VALUE[v] for k, v in acc.items()}, omap, fmap, mode, emu, registers_resolved


def filestat_layout(unit, abi):
    def run(mode):
        w = world(unit)
        w.stat["st_mode"] = mode
        r = w.call(ABI[abi] + "fd_filestat_get", 0, 4, 1000)
        expect(r == ("ret", 0) and len(w.called("fstat")) == 1, "wasi.c", f"{abi} fd_filestat_get on an open file: {r}")
        return w
    w, w2 = run(S_IFREG), run(S_IFDIR)
    ms = [m for m in w.memsets if isinstance(m[0], Ptr) and m[0].cell is w.guest]
    expect(len(ms) == 1 and ms[0][0].idx == 1000 and ms[0][1] == 0 and isinstance(ms[0][2], int), "wasi.c",
           f"{abi} fd_filestat_get: expected one zero-fill of the result area, saw {ms}")
    size = ms[0][2]
    s = w.stat
    roles = {"dev": s["st_dev"], "ino": s["st_ino"], "nlink": s["st_nlink"], "size": s["st_size"],
             "accessTime": s["st_atim"][0] * 10 ** 9 + s["st_atim"][1], "modificationTime": s["st_mtim"][0] * 10 ** 9 + s["st_mtim"][1],
             "creationTime": s["st_ctim"][0] * 10 ** 9 + s["st_ctim"][1]}
    rows = []
    expect(len(w.stores) == len(w2.stores), "wasi.c", "filestat stores depend on the file type")
    for (fn, addr, v), (fn2, addr2, v2) in zip(w.stores, w2.stores):
        expect(fn == fn2 and addr == addr2 and isinstance(v, int), "wasi.c", "filestat stores depend on the file type")
        nbytes = STORE_BYTES[fn]
        if v != v2:
            expect((v, v2) == (4, 3), "wasi.c", f"{abi} filestat: value depending on the file type is {(v, v2)}")
            name, bits = "wasiFileType", 64
        else:
            cands = [(n, b) for n, rv in roles.items() for b in (64, 32, 16, 8) if v == rv % (1 << b)]
            expect(cands, "wasi.c", f"{abi} filestat: stored value {v:#x} is no stat field")
            name = cands[0][0]
            bits = max(b for n, b in cands if n == name)
        rows.append((name, addr - 1000, nbytes, min(bits, 8 * nbytes)))
    expect(len(rows) == 8 and len({r[0] for r in rows}) == 8, "wasi.c", f"{abi} filestat: expected the 8 fields once each, got {[r[0] for r in rows]}")
    return size, rows


def iovec_facts(unit, call, host):
    res = None
    for abi in ABI:
        w = world(unit)
        r = w.call(ABI[abi] + call, 0, 4, 2000, 2, 3000)
        expect(r == ("ret", 0) and w.iov_seen and w.iov_seen[0] == host and w.iov_seen[1] == 5 and w.iov_seen[3] == 2, "wasi.c",
               f"{abi} {call} with two segments: {r}, host call {w.iov_seen}")
        byval = {w.load_value(a): a for a in w.loads}
        expect(len(byval) == len(set(w.loads)) == 4, "wasi.c", f"{call}: loads {w.loads}")
        addrs = []
        for base, ln in w.iov_seen[2]:
            expect(isinstance(base, Ptr) and base.cell is w.guest and base.idx in byval and ln in byval, "wasi.c",
                   f"{call}: segment {(base, ln)} is not (guest memory + loaded pointer, loaded length)")
            addrs.append((byval[base.idx], byval[ln]))
        stride = addrs[1][0] - addrs[0][0]
        expect(stride > 0 and addrs[1][1] - addrs[0][1] == stride, "wasi.c", f"{call}: iovec addresses {addrs}")
        expect(w.stores == [("i32_store", 3000, 5)], "wasi.c", f"{call}: stores {w.stores} for a transfer of 5 bytes")
        # a failing transfer stores nothing and returns the translated errno
        w2 = world(unit)
        w2.ret[host] = -1
        w2.errno.v = 5
        r2 = w2.call(ABI[abi] + call, 0, 4, 2000, 2, 3000)
        expect(r2[0] == "ret" and r2[1] != 0 and not w2.stores, "wasi.c", f"{call}: failing transfer gives {r2}, stores {w2.stores}")
        f = (stride, addrs[0][0] - 2000, addrs[0][1] - 2000)
        expect(res in (None, f), "wasi.c", f"{call}: the two ABIs marshal differently")
        res = f
    return res


def structure_flags(unit, C):
    """C: constants of wasi.h by value"""
    badf = C["WASI_ERRNO_BADF"]
    both = lambda f: {f(abi) for abi in ABI}

    def one(s, what):
        expect(len(s) == 1, "wasi.c", f"{what}: the two ABIs differ ({s})")
        return next(iter(s))

    def close_clears(abi):
        w = world(unit)
        r = w.call(ABI[abi] + "fd_close", 0, 4)
        expect(r == ("ret", 0) and len(w.called("close")) == 1 and len(w.freed) == 1, "wasi.c", f"fd_close of an opened file: {r}, {w.it.calls}")
        fd, d, p = w.entry(4)
        expect(fd == -1 and d == 0, "wasi.c", f"fd_close leaves {(fd, d)} in the table")
        return p == 0
    clears = one(both(close_clears), "fd_close")

    def rejects(abi):
        w = world(unit)
        a = w.call(ABI[abi] + "fd_close", 0, 5)
        w = world(unit)
        b = w.call(ABI[abi] + "fd_sync", 0, 5)
        expect(a[0] == b[0] == "ret", "wasi.c", "fd_close / fd_sync on an empty slot crash")
        if a[1] == badf and b[1] == badf:
            return True
        expect(a[1] == 0 and b[1] != badf, "wasi.c", f"empty slot: fd_close {a}, fd_sync {b}")
        return False
    get_rejects = one(both(rejects), "empty slot")

    def null_path(call, args, table):
        def f(abi):
            w = world(unit, table)
            r = w.call(ABI[abi] + call, *args)
            if r == ("crash", "nullDeref"):
                return None
            expect(r[0] == "ret" and r[1] != 0 and not w.called(*HOST_PATH_CALLS), "wasi.c", f"{call} on a descriptor without path: {r}")
            return r[1]
        return one(both(f), call)
    rd_null = null_path("fd_readdir", (0, 0, 500, 0, 0, 600), STD_TABLE)
    nofd = STD_TABLE[:4] + [(-1, Ptr(Cell("DIR")), 0)]          # no native fd, no path, but a DIR: passes any lookup
    fs_null = null_path("fd_fdstat_get", (0, 4, 500), nofd)
    fl_null = null_path("fd_filestat_get", (0, 4, 500), nofd)

    def negfd(call):
        def f(abi):
            w = world(unit)
            r = w.call(ABI[abi] + call, 0, 3)
            expect(r[0] == "ret" and r[1] != 0 and not w.called("fsync", "fdatasync"), "wasi.c", f"{call} on the pre-open: {r}")
            return r[1]
        return one(both(f), call)
    sync_neg, datasync_neg = negfd("fd_sync"), negfd("fd_datasync")

    def nul(abi):
        w = world(unit)
        w.put(120, [ord("a"), 0, ord("b")])
        r = w.call(ABI[abi] + "path_open", 0, 3, 0, 120, 3, 0, 0, 0, 0, 200)
        expect(r[0] == "ret", "wasi.c", "path_open with an embedded NUL crashes")
        return r[1] != 0 and not w.called("open")
    rejects_nul = one(both(nul), "embedded NUL")

    def rd_closes(abi):
        w = world(unit, STD_TABLE[:4] + [(5, 0, "sb/d")])
        r = w.call(ABI[abi] + "fd_readdir", 0, 4, 500, 0, 0, 600)
        expect(r == ("ret", 0) and len(w.called("opendir")) == 1, "wasi.c", f"fd_readdir on an opened directory: {r}")
        fd, d, p = w.entry(4)
        cl = [c for c in w.called("close") if c[1][0] == 5]
        expect(isinstance(d, Ptr) and isinstance(p, Ptr), "wasi.c", "fd_readdir does not register the DIR stream")
        if cl:
            expect(fd == 5, "wasi.c", "fd_readdir closes the native descriptor and rewrites the table entry — not modelled")
            return True
        expect(fd == 5, "wasi.c", "fd_readdir changes the native descriptor of the entry")
        return False
    rd_closes_fd = one(both(rd_closes), "fd_readdir")
    return clears, get_rejects, rd_null, fs_null, fl_null, sync_neg, datasync_neg, rejects_nul, rd_closes_fd


PATH_IMPORTS = {  # import -> argument builder (dirfd, guest path pointer, length) -> args; rename: both positions
    "path_open": lambda fd, p, l: [(0, fd, 0, p, l, 0, 0, 0, 0, 200)],
    "path_filestat_get": lambda fd, p, l: [(0, fd, 0, p, l, 1000)],
    "path_rename": lambda fd, p, l: [(0, fd, p, l, 3, 100, 1), (0, 3, 100, 1, fd, p, l)],
    "path_unlink_file": lambda fd, p, l: [(0, fd, p, l)],
    "path_remove_directory": lambda fd, p, l: [(0, fd, p, l)],
    "path_create_directory": lambda fd, p, l: [(0, fd, p, l)],
    "path_symlink": lambda fd, p, l: [(0, 100, 1, fd, p, l)],
    "path_readlink": lambda fd, p, l: [(0, fd, p, l, 500, 16, 600)],
}


def path_call_facts(unit, badf):
    facts = []
    for imp, mk in PATH_IMPORTS.items():
        ok = True
        for abi in ABI:
            for fd in (77, (1 << 32) - 1, 1):                     # never issued ×2, a standard stream (no path)
                for p, l in ((100, 1), (110, 2)):                 # relative "f", absolute "/x"
                    for args in mk(fd, p, l):
                        w = world(unit)
                        r = w.call(ABI[abi] + imp, *args)
                        if r != ("ret", badf) or w.called(*HOST_PATH_CALLS):
                            ok = False
        facts.append((imp, ok))
    return facts


def trace_facts(tunit):
    """tunit: wasi.c preprocessed with -DWASI_TRACE_ENABLED=1 (every WASI_TRACE((fmt, args)) is a call of tracePrintf).
    tracePrintf is mocked by a printf that walks the format and dereferences every %s argument; `free` poisons.
    Probes: fd_close of an opened file / a pre-opened directory / a standard stream / an empty slot, then a second
    fd_close and a path call on the closed slot, both ABIs.  -> True iff no trace argument reads a released object."""
    def tracef(w):
        def f(it, fmt, *args):
            text = "".join(chr(b) for b in w._cstr(it, fmt, "trace format"))
            k = 0
            for m in re.finditer(r"%[-+ #0-9.]*(?:l|ll|h|hh|z)?([a-zA-Z%])", text):
                if m.group(1) == "%":
                    continue
                expect(k < len(args), "wasi.c", f"trace format `{text}` has more conversions than arguments")
                if m.group(1) == "s":
                    w._cstr(it, args[k], "trace %s argument")      # Crash(useAfterFree / nullDeref) on a dead string
                k += 1
            return None
        return f
    live = True
    for abi in ABI:
        for slot in (4, 3, 0, 5):
            w = world(tunit)
            w.it.mocks["tracePrintf"] = tracef(w)
            w.it.mocks.setdefault("strerror", lambda it, e: Ptr(ci.bytes_cell([ord("e"), 0], "strerror"), 0))
            for call, args in (("fd_close", (slot,)), ("fd_close", (slot,)), ("fd_sync", (slot,)), ("path_unlink_file", (slot, 100, 1))):
                r = w.call(ABI[abi] + call, 0, *args)
                if r[0] != "ret":
                    expect(r[0] == "crash", "wasi.c", f"tracing build, {call}({slot}): {r}")
                    live = False
                    break
    return live


def lean_list(items):
    return "[" + ", ".join(items) + "]"


def generate(repo):
    hpath = os.path.join(repo, "wasi", "wasi.h")
    cpath = os.path.join(repo, "wasi", "wasi.c")
    macros = macros_of(strip_comments(open(hpath).read()))
    macros.update({k: v for k, v in macros_of(strip_comments(open(cpath).read())).items() if k.startswith("WASI_")})
    CONST = lambda n: eval_const(n, macros, "wasi.h")
    toks, typedefs = ci.preprocess(repo)
    unit = ci.Unit(toks, typedefs)
    imps = imports(unit)
    C = {n: CONST(n) for n in ("WASI_ERRNO_BADF", "WASI_ERRNO_INVAL")}
    L = []
    w = L.append
    b = lambda x: "true" if x else "false"
    w("-- GENERATED by tools/extract/gen_wasi.py from /repo/wasi/wasi.c and wasi.h — do not edit.")
    w("import W2c2Verif.Spec.Posix")
    w("namespace W2c2Verif.Gen.Wasi")
    w("open W2c2Verif.Spec.Posix")
    w("")
    w("/-- C parameter types of every import as declared in wasi.c: (abi, name, [(parameter, bits)]); `instance` omitted -/")
    rows = []
    for a, n, ps in imps:
        rows.append('("%s", "%s", %s)' % (a, n, lean_list('("%s", %d)' % (pn, bits) for pn, bits in ps)))
    w("def importParams : List (String × String × List (String × Nat)) := [\n  " + ",\n  ".join(rows) + "]")
    w("")
    for abi in ("p1", "un"):
        for call, idx in (("fd_pwrite", 3), ("fd_pread", 3), ("fd_seek", 1)):
            w(f"/-- declared width of the `offset` parameter of {abi}:{call} -/")
            w(f"def {call}_offset_bits_{abi} : Nat := {param_bits(imps, abi, call, idx)}")
        w(f"def path_open_rights_bits_{abi} : Nat := {param_bits(imps, abi, 'path_open', 5)}")
        w(f"def fd_readdir_cookie_bits_{abi} : Nat := {param_bits(imps, abi, 'fd_readdir', 3)}")
    w("")
    for nm, abi in (("whencePreview1", "p1"), ("whenceUnstable", "un")):
        w(f"/-- whence encoding of {ABI[abi]}fd_seek: the third argument `lseek` receives -/")
        w(f"def {nm} : Nat → Option Whence")
        for v, wn in whence_table(unit, abi):
            w(f"  | {v} => some .{wn}")
        w("  | _ => none")
    w("")
    rd, wr, acc, omap, fmap, mode, emu, regres = path_open_facts(unit)
    w(f"def readRightsMask : Nat := {rd}")
    w(f"def writeRightsMask : Nat := {wr}")
    w("/-- access mode `open` receives, by (some write right set, some read right set) -/")
    w("def accessMode (isWrite isRead : Bool) : Acc :=")
    w(f"  if isWrite then (if isRead then .{acc['wr']} else .{acc['w']}) else .{acc['r']}")
    w("/-- (oflags / fdflags bit, O_* flag it adds to `open`'s flag word) -/")
    w("def oflagsMap : List (Nat × OFlag) := " + lean_list(f"({m}, .{f})" for m, f in omap))
    w("def fdflagsMap : List (Nat × OFlag) := " + lean_list(f"({m}, .{f})" for m, f in fmap))
    w(f"def openMode : Nat := {mode if mode is not None else 0}")
    w(f"def directoryEmulation : Bool := {b(emu)}")
    w("/-- path_open registers (a copy of) the resolved path in the table -/")
    w(f"def pathOpenRegistersResolved : Bool := {b(regres)}")
    w("")
    tab, dflt = errno_table(unit)
    w("/-- errno translation: host errno ↦ WASI errno (every errno the code compares `errno` with) -/")
    w("def errnoTable : List (Errno × Nat) := " + lean_list(f"(.{e}, {n})" for e, n in tab))
    w(f"def errnoDefault : Nat := {dflt}")
    for nm in ("BADF", "INVAL", "NOMEM", "NOTDIR", "NOSYS", "SUCCESS"):
        w(f"def WASI_ERRNO_{nm} : Nat := {CONST('WASI_ERRNO_' + nm)}")
    w("")
    for nm, abi in (("filestatPreview1", "p1"), ("filestatUnstable", "un")):
        size, rows = filestat_layout(unit, abi)
        w(f"/-- {ABI[abi]}fd_filestat_get: bytes zeroed at the result pointer -/")
        w(f"def {nm}Size : Nat := {size}")
        w("/-- (field, offset, bytes stored, bits of the value that survive the C conversions) in program order -/")
        w(f"def {nm} : List (String × Nat × Nat × Nat) := " + lean_list(f'("{v}", {o}, {by}, {t})' for v, o, by, t in rows))
    w("")
    for call, host, nm in (("fd_write", "writev", "ciovec"), ("fd_read", "readv", "iovec")):
        stride, bo, lo = iovec_facts(unit, call, host)
        w(f"def {nm}Size : Nat := {stride}")
        w(f"def {nm}BufOffset : Nat := {bo}")
        w(f"def {nm}LenOffset : Nat := {lo}")
    w("")
    w(f"def WASI_PREOPEN_TYPE_DIRECTORY : Nat := {CONST('WASI_PREOPEN_TYPE_DIRECTORY')}")
    w(f"def fdstatSize : Nat := {CONST('WASI_FDSTAT_SIZE')}")
    for nm in ("WASI_RIGHTS_ALL", "WASI_RIGHTS_REGULAR_FILE_BASE", "WASI_RIGHTS_REGULAR_FILE_INHERITING",
               "WASI_RIGHTS_DIRECTORY_BASE", "WASI_RIGHTS_DIRECTORY_INHERITING", "WASI_RIGHTS_TTY_BASE",
               "WASI_RIGHTS_TTY_INHERITING", "WASI_FILE_TYPE_UNKNOWN", "WASI_FILE_TYPE_DIRECTORY",
               "WASI_FILE_TYPE_REGULAR_FILE", "WASI_FILE_TYPE_CHARACTER_DEVICE", "WASI_FDFLAGS_APPEND",
               "WASI_FDFLAGS_DSYNC", "WASI_FDFLAGS_NONBLOCK", "WASI_FDFLAGS_RSYNC", "WASI_FDFLAGS_SYNC"):
        w(f"def {nm} : Nat := {CONST(nm)}")
    w("")
    clears, get_rejects, g_rd, g_fs, g_fl, sync_neg, datasync_neg, rejects_nul, rd_closes = structure_flags(unit, C)
    og = lambda x: "none" if x is None else f"some {x}"
    w("/-- after fd_close the table entry has a NULL path -/")
    w(f"def closeClearsPath : Bool := {b(clears)}")
    ttoks, ttypedefs = ci.preprocess(repo, ["-DWASI_TRACE_ENABLED=1"])
    w("/-- wasi.c preprocessed with -DWASI_TRACE_ENABLED=1 and interpreted (tracePrintf = a printf that dereferences its %s")
    w("    arguments, free poisons): fd_close of an opened file / pre-open / standard stream / empty slot, a second fd_close")
    w("    and later calls on the slot — no trace argument reads a released object -/")
    w(f"def traceArgsLive : Bool := {b(trace_facts(ci.Unit(ttoks, ttypedefs)))}")
    w("/-- a slot with no native fd, no DIR and no path is rejected (EBADF) by fd_close and fd_sync -/")
    w(f"def getRejectsClosed : Bool := {b(get_rejects)}")
    w("/-- the errno returned for a descriptor whose path is NULL where the path is needed; `none` = the NULL path is dereferenced -/")
    w(f"def readdirNullPath : Option Nat := {og(g_rd)}")
    w(f"def fdstatNullPath : Option Nat := {og(g_fs)}")
    w(f"def filestatNullPath : Option Nat := {og(g_fl)}")
    w("/-- fd_readdir calls `close` on the entry's native descriptor after `opendir`, while the table entry keeps the number -/")
    w(f"def readdirClosesNativeFd : Bool := {b(rd_closes)}")
    w("/-- per path_* import: a never issued / path-less directory descriptor gives EBADF without any host call, for")
    w("    relative and absolute guest paths alike -/")
    w("def pathCallsValidateDirfd : List (String × Bool) := " + lean_list(f'("{n}", {b(ok)})' for n, ok in path_call_facts(unit, C["WASI_ERRNO_BADF"])))
    w("/-- a guest path that contains a NUL byte is refused before `open` -/")
    w(f"def resolveRejectsNul : Bool := {b(rejects_nul)}")
    w("/-- fd_seek(dead descriptor, invalid whence) reports EINVAL (whence first) rather than EBADF -/")
    w(f"def seekChecksWhenceFirst : Bool := {b(seek_whence_first(unit, C['WASI_ERRNO_INVAL'], C['WASI_ERRNO_BADF']))}")
    w("/-- fd_datasync / fd_sync on a descriptor without native fd return this -/")
    w(f"def datasyncNegFd : Nat := {datasync_neg}")
    w(f"def syncNegFd : Nat := {sync_neg}")
    w("")
    w("end W2c2Verif.Gen.Wasi")
    return "\n".join(L) + "\n"


if __name__ == "__main__":
    import sys
    sys.stdout.write(generate(sys.argv[1] if len(sys.argv) > 1 else "/repo"))
