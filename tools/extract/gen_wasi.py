"""gen_wasi — regenerate lean/W2c2Verif/Gen/Wasi.lean from /repo/wasi/wasi.c and wasi.h.

Everything below is read from the source text (comments stripped), nothing is hard-coded:
  * the C parameter types of every WASI_IMPORT / WASI_PREVIEW1_IMPORT / WASI_UNSTABLE_IMPORT
    (e.g. whether the fd_pread offset is declared U32 or U64);
  * the two whence tables (convertPreview1Whence / convertUnstableWhence);
  * path_open: the rights masks behind isRead/isWrite, the access-mode ternary, the
    oflags / fdflags -> O_* mapping, the creation mode;
  * the errno translation switch of wasiErrno (+ its default);
  * the filestat layouts of both ABIs (offset, store width, C type of the stored variable,
    size of the zeroed area), the prestat and fdstat stores, the iovec stride and field offsets;
  * how fd_write/fd_read gather their iovec array;
  * structural facts of the descriptor code that the C13 model branches on:
    does wasiFileDescriptorClose clear `path` in the table after freeing it; do
    fd_readdir / fd_fdstat_get / fd_filestat_get test `path == NULL` before strcpy; does
    fd_seek convert whence before the descriptor lookup.
A construct outside the expected shape raises ExtractFail (the tie is then reported broken).
"""
import os
import re
from cfront import ExtractFail

GEN_NAME = "Wasi"

CT_BITS = {"U8": 8, "I8": 8, "U16": 16, "I16": 16, "U32": 32, "I32": 32, "U64": 64, "I64": 64, "int": 32,
           "WasiFileType": 8, "WasiRights": 64, "size_t": 64, "off_t": 64}
ERRNOS = ["EPERM", "ENOENT", "ESRCH", "EINTR", "EIO", "ENXIO", "E2BIG", "ENOEXEC", "EBADF", "ECHILD", "EAGAIN",
          "ENOMEM", "EACCES", "EFAULT", "EBUSY", "EEXIST", "EXDEV", "ENODEV", "ENOTDIR", "EISDIR", "EINVAL", "ENFILE",
          "EMFILE", "ENOTTY", "ETXTBSY", "EFBIG", "ENOSPC", "ESPIPE", "EROFS", "EMLINK", "EPIPE", "EDOM", "ERANGE",
          "ENAMETOOLONG", "ENOTEMPTY", "ELOOP", "EOVERFLOW", "ENOSYS"]
OFLAGS = {"O_CREAT": "creat", "O_DIRECTORY": "directory", "O_EXCL": "excl", "O_TRUNC": "trunc", "O_APPEND": "append",
          "O_DSYNC": "dsync", "O_NONBLOCK": "nonblock", "O_SYNC": "sync"}
ACC = {"O_RDONLY": "rdonly", "O_WRONLY": "wronly", "O_RDWR": "rdwr"}
WHENCE = {"SEEK_SET": "set", "SEEK_CUR": "cur", "SEEK_END": "end"}
STORE_BYTES = {"i32_store8": 1, "i32_store16": 2, "i32_store": 4, "i64_store": 8}


def strip_comments(text):
    return re.sub(r"/\*.*?\*/", lambda m: re.sub(r"[^\n]", " ", m.group(0)), text, flags=re.S)


def match_close(text, i, op="(", cl=")"):
    d = 0
    while i < len(text):
        if text[i] == op:
            d += 1
        elif text[i] == cl:
            d -= 1
            if d == 0:
                return i
        i += 1
    raise ExtractFail("wasi.c", "unbalanced " + op)


def function_body(text, name):
    for m in re.finditer(r"\b%s\s*\(" % re.escape(name), text):
        i = match_close(text, m.end() - 1)
        j = i + 1
        while j < len(text) and text[j] in " \t\r\n":
            j += 1
        if j < len(text) and text[j] == "{":
            k = match_close(text, j, "{", "}")
            return text[j + 1:k]
    raise ExtractFail("wasi.c", f"function {name} not found")


def macros_of(header_text):
    """#define NAME value (with continuation lines) -> dict"""
    text = header_text.replace("\\\n", " ")
    ms = {}
    for m in re.finditer(r"^[ \t]*#[ \t]*define[ \t]+(\w+)[ \t]+(.+)$", text, flags=re.M):
        ms[m.group(1)] = m.group(2).strip()
    return ms


def eval_const(expr, macros, where, depth=0):
    if depth > 40:
        raise ExtractFail(where, "macro recursion")
    def sub(m):
        n = m.group(0)
        if n in macros:
            return "(" + str(eval_const(macros[n], macros, where, depth + 1)) + ")"
        raise ExtractFail(where, f"unknown identifier {n} in constant expression")
    e = re.sub(r"\b[A-Za-z_]\w*\b", sub, expr)
    e = re.sub(r"(\d+)[uUlL]+", r"\1", e)
    if not re.fullmatch(r"[\d\s()|&<>+\-*~x0-9a-fA-F]*", e):
        raise ExtractFail(where, f"cannot evaluate `{expr}`")
    return int(eval(" ".join(e.split()), {"__builtins__": {}}))


# ----------------------------------------------------------------------------- imports

def imports(text):
    """-> list of (abi, name, [(ctype, pname)])"""
    out = []
    for m in re.finditer(r"\bWASI_(UNSTABLE_|PREVIEW1_|)IMPORT\s*\(", text):
        # skip the #define lines themselves
        ls = text.rfind("\n", 0, m.start()) + 1
        if text[ls:m.start()].strip().startswith("#"):
            continue
        i = m.end() - 1
        j = match_close(text, i)
        inner = text[i + 1:j]
        if re.match(r"\s*returnType\s*,", inner):
            continue        # the macro definitions themselves
        mm = re.match(r"\s*(\w+)\s*,\s*(\w+)\s*,\s*\(", inner)
        if not mm:
            raise ExtractFail("wasi.c", "unexpected WASI_IMPORT shape")
        p0 = mm.end() - 1
        p1 = match_close(inner, p0)
        params = []
        for p in inner[p0 + 1:p1].split(","):
            p = p.strip()
            if not p:
                continue
            pm = re.match(r"(void\s*\*|\w+)\s+(?:UNUSED\s*\(\s*(\w+)\s*\)|(\w+))$", p)
            if not pm:
                raise ExtractFail("wasi.c", f"unexpected parameter `{p}` in import {mm.group(2)}")
            params.append((re.sub(r"\s+", "", pm.group(1)), pm.group(2) or pm.group(3)))
        abis = {"UNSTABLE_": ["un"], "PREVIEW1_": ["p1"], "": ["un", "p1"]}[m.group(1)]
        for a in abis:
            out.append((a, mm.group(2), params))
    return out


def param_bits(imps, abi, name, pname_re):
    for a, n, ps in imps:
        if a == abi and n == name:
            for ct, pn in ps:
                if re.fullmatch(pname_re, pn):
                    if ct not in CT_BITS:
                        raise ExtractFail("wasi.c", f"unknown C type {ct} of {name}.{pn}")
                    return CT_BITS[ct]
            raise ExtractFail("wasi.c", f"import {name} has no parameter matching {pname_re}")
    raise ExtractFail("wasi.c", f"import {abi}:{name} not found")


# ----------------------------------------------------------------------------- tables

def whence_table(text, fname):
    body = function_body(text, fname)
    rows = re.findall(r"case\s+(\d+)\s*:\s*return\s+(\w+)\s*;", body)
    dm = re.search(r"default\s*:\s*return\s+(-?\d+)\s*;", body)
    if not rows or not dm or dm.group(1) != "-1":
        raise ExtractFail("wasi.c", f"{fname}: unexpected switch shape")
    for _, w in rows:
        if w not in WHENCE:
            raise ExtractFail("wasi.c", f"{fname}: unknown whence {w}")
    return [(int(v), WHENCE[w]) for v, w in rows]


def errno_table(text, macros):
    body = function_body(text, "wasiErrno")
    # drop nested platform-specific switch (EMACOSERR) and preprocessor lines
    body = re.sub(r"#if defined\(__MSL__\).*?#endif", "", body, flags=re.S)
    rows = re.findall(r"case\s+(\w+)\s*:\s*return\s+(\w+)\s*;", body)
    dm = re.search(r"default\s*:(.*?)return\s+(\w+)\s*;", body, flags=re.S)
    if not rows or not dm:
        raise ExtractFail("wasi.c", "wasiErrno: unexpected switch shape")
    tab = []
    for e, w in rows:
        if e not in ERRNOS:
            raise ExtractFail("wasi.c", f"wasiErrno: errno {e} unknown to Spec.Posix.Errno")
        tab.append((e, eval_const(w, macros, "wasi.h")))
    return tab, eval_const(dm.group(2), macros, "wasi.h")


def path_open_tables(text, macros):
    body = function_body(text, "wasiPathOpen")
    def mask(var):
        m = re.search(r"bool\s+%s\s*=\s*fsRightsBase\s*&\s*\(([^;]*)\)\s*;" % var, body)
        if not m:
            raise ExtractFail("wasi.c", f"wasiPathOpen: definition of {var} not found")
        return eval_const(m.group(1), macros, "wasi.h")
    rd, wr = mask("isRead"), mask("isWrite")
    m = re.search(r"nativeFlags\s*=\s*isWrite\s*\?\s*isRead\s*\?\s*(\w+)\s*:\s*(\w+)\s*:\s*(\w+)\s*;", body)
    if not m or any(g not in ACC for g in m.groups()):
        raise ExtractFail("wasi.c", "wasiPathOpen: access-mode expression not of the expected shape")
    acc = {"wr": ACC[m.group(1)], "w": ACC[m.group(2)], "r": ACC[m.group(3)]}
    omap, fmap = [], []
    for var, wm, of in re.findall(r"if\s*\(\s*(oflags|fdFlags)\s*&\s*(\w+)\s*\)\s*\{\s*nativeFlags\s*\|=\s*(\w+)\s*;\s*\}", body):
        if of not in OFLAGS:
            raise ExtractFail("wasi.c", f"wasiPathOpen: unknown native flag {of}")
        (omap if var == "oflags" else fmap).append((eval_const(wm, macros, "wasi.h"), OFLAGS[of]))
    mm = re.search(r"static\s+const\s+int\s+mode\s*=\s*(0[0-7]*)\s*;", body)
    if not mm or not omap:
        raise ExtractFail("wasi.c", "wasiPathOpen: mode / oflags mapping not found")
    # O_DIRECTORY emulation: `oflags & WASI_OFLAGS_DIRECTORY` followed by fstat + NOTDIR
    emu = re.search(r"oflags\s*&\s*WASI_OFLAGS_DIRECTORY\s*\)\s*\{[^}]*fstat", body, flags=re.S) is not None
    # what is registered in the table
    am = re.search(r"wasiFileDescriptorAdd\s*\(\s*nativeFD\s*,\s*(\w+)\s*,", body)
    if not am:
        raise ExtractFail("wasi.c", "wasiPathOpen: wasiFileDescriptorAdd call not found")
    return rd, wr, acc, omap, fmap, int(mm.group(1), 8), emu, am.group(1)


def stores(body, ptr):
    """iNN_store(memory, ptr [+ K], expr) calls -> [(fn, K, expr)]"""
    out = []
    for m in re.finditer(r"\b(i32_store8|i32_store16|i32_store|i64_store)\s*\(\s*memory\s*,\s*%s\s*(?:\+\s*(\d+)\s*)?,\s*([^;]*?)\)\s*;" % re.escape(ptr), body, flags=re.S):
        out.append((m.group(1), int(m.group(2) or 0), m.group(3).strip()))
    return out


def filestat_layout(text, fname, sizename):
    body = function_body(text, fname)
    sm = re.search(r"static\s+const\s+size_t\s+%s\s*=\s*(\d+)\s*;" % sizename, text)
    mm = re.search(r"memset\s*\(\s*memory->data\s*\+\s*statPointer\s*,\s*0\s*,\s*(\w+)\s*\)", body)
    if not sm or not mm or mm.group(1) != sizename:
        raise ExtractFail("wasi.c", f"{fname}: memset / size constant not of the expected shape")
    rows = []
    for fn, off, var in stores(body, "statPointer"):
        dm = re.search(r"\b(\w+)\s+%s\s*=\s*([^;]+);" % re.escape(var), body)
        if not dm or dm.group(1) not in CT_BITS:
            raise ExtractFail("wasi.c", f"{fname}: declaration of stored variable {var} not found")
        rows.append((var, off, STORE_BYTES[fn], CT_BITS[dm.group(1)]))
    if len(rows) < 8:
        raise ExtractFail("wasi.c", f"{fname}: expected 8 stores, found {len(rows)}")
    return int(sm.group(1)), rows


def iovec_facts(text):
    facts = {}
    for fname, szname, ptr in (("wasiFDWrite", "ciovecSize", "ciovecPointer"), ("wasiFDRead", "iovecSize", "iovecPointer")):
        body = function_body(text, fname)
        sm = re.search(r"static\s+const\s+size_t\s+%s\s*=\s*(\d+)\s*;" % szname, text)
        if not sm:
            raise ExtractFail("wasi.c", f"{szname} not found")
        pm = re.search(r"U64\s+%s\s*=\s*(\w+)\s*\+\s*(\w+)\s*\*\s*%s\s*;" % (ptr, szname), body)
        bm = re.search(r"bufferPointer\s*=\s*i32_load\s*\(\s*memory\s*,\s*%s\s*\)" % ptr, body)
        lm = re.search(r"length\s*=\s*i32_load\s*\(\s*memory\s*,\s*%s\s*\+\s*(\d+)\s*\)" % ptr, body)
        if not pm or not bm or not lm:
            raise ExtractFail("wasi.c", f"{fname}: iovec marshalling not of the expected shape")
        facts[fname] = (int(sm.group(1)), 0, int(lm.group(1)))
        # store of the byte count happens after the `total < 0` test
        tpos = body.find("total < 0")
        spos = body.find("i32_store(memory, resultPointer, total)")
        if tpos < 0 or spos < 0 or spos < tpos:
            raise ExtractFail("wasi.c", f"{fname}: result store / error test order unexpected")
    return facts


def structure_flags(text):
    close = function_body(text, "wasiFileDescriptorClose")
    fpos = close.find("free(")
    clears = False
    if fpos >= 0:
        clears = re.search(r"(\.|->)\s*path\s*=\s*NULL\s*;", close[fpos:]) is not None
    # wasiFileDescriptorGet rejects a slot with no native fd, no DIR and no path
    get = function_body(text, "wasiFileDescriptorGet")
    get_rejects = False
    for m in re.finditer(r"MUST\s*\(", get):
        j = match_close(get, m.end() - 1)
        cond = re.sub(r"\s+", "", get[m.end():j])
        if re.fullmatch(r"wasi\.fds\.fds\[wasiFD\]\.fd>=0\|\|wasi\.fds\.fds\[wasiFD\]\.dir!=NULL\|\|wasi\.fds\.fds\[wasiFD\]\.path!=NULL", cond):
            # must come before the copy to *result
            if get.find("*result") > m.start():
                get_rejects = True
        elif cond != "wasiFD<wasi.fds.length":
            raise ExtractFail("wasi.c", f"wasiFileDescriptorGet: unexpected MUST condition `{cond}`")
    def guard(fname):
        """errno macro returned when descriptor.path == NULL is tested before the strcpy, else None"""
        body = function_body(text, fname)
        spos = body.find("strcpy(nativePath, descriptor.path)")
        if spos < 0:
            raise ExtractFail("wasi.c", f"{fname}: strcpy(nativePath, descriptor.path) not found")
        m = re.search(r"if\s*\(\s*(?:descriptor\.path\s*==\s*NULL|!\s*descriptor\.path)\s*\)\s*\{(.*?)return\s+(\w+)\s*;", body[:spos], flags=re.S)
        if m:
            return m.group(2)
        if re.search(r"descriptor\.path\s*==\s*NULL|!\s*descriptor\.path", body[:spos]):
            raise ExtractFail("wasi.c", f"{fname}: NULL-path test of an unexpected shape")
        return None
    # where is an invalid whence (convert…Whence() == -1) rejected: in the fd_seek wrappers before
    # wasiFDSeek is called (whence first), or inside wasiFDSeek after the descriptor checks
    firsts = []
    for macro in ("WASI_PREVIEW1_IMPORT", "WASI_UNSTABLE_IMPORT"):
        seek = re.search(macro + r"\s*\(\s*U32\s*,\s*fd_seek", text)
        if not seek:
            raise ExtractFail("wasi.c", f"{macro} fd_seek not found")
        end = match_close(text, text.index("(", seek.start()))
        sb = text[seek.start():end]
        call = sb.find("wasiFDSeek(")
        test = re.search(r"if\s*\(\s*nativeWhence\s*==\s*-1\s*\)", sb)
        if call < 0 or not re.search(r"nativeWhence\s*=\s*convert(Preview1|Unstable)Whence\s*\(\s*whence\s*\)", sb[:call]):
            raise ExtractFail("wasi.c", "fd_seek wrapper of an unexpected shape")
        firsts.append(test is not None and test.start() < call)
    core = function_body(text, "wasiFDSeek")
    ctest = re.search(r"if\s*\(\s*nativeWhence\s*==\s*-1\s*\)\s*\{[^}]*return\s+WASI_ERRNO_INVAL", core)
    if firsts[0] != firsts[1]:
        raise ExtractFail("wasi.c", "the two fd_seek wrappers treat an invalid whence differently")
    whence_first = firsts[0]
    if whence_first and ctest:
        raise ExtractFail("wasi.c", "invalid whence tested twice")
    if not whence_first:
        fdneg = core.find("descriptor.fd < 0")
        lseekpos = core.find("lseek(")
        if not ctest or not (0 <= fdneg < ctest.start() < lseekpos):
            raise ExtractFail("wasi.c", "wasiFDSeek: invalid-whence test missing or not between the descriptor checks and lseek")
    sync_inval = {}
    for fname in ("wasiFDDatasync", "wasiFDSync"):
        body = function_body(text, fname)
        m = re.search(r"if\s*\(\s*descriptor\.fd\s*<\s*0\s*\)\s*\{\s*return\s+(\w+)\s*;", body)
        if not m:
            raise ExtractFail("wasi.c", f"{fname}: fd < 0 test not found")
        sync_inval[fname] = m.group(1)
    # resolvePath refuses guest paths with an embedded NUL (before looking at path[0])
    rp = function_body(text, "resolvePath")
    nul_re = r"MUST\s*\(\s*memchr\s*\(\s*path\s*,\s*'\\0'\s*,\s*pathLength\s*\)\s*==\s*NULL\s*\)"
    nuls = [m.start() for m in re.finditer(nul_re, rp)]
    # shape A (085c0ff): one test right after `pathLength > 0`, before path[0] is looked at
    shape_a = len(nuls) == 1 and 0 <= rp.find("pathLength > 0") < nuls[0] < rp.find("path[0]")
    # shape B (f405bde): one test per branch, after that branch's length guard and before its first copy of `path`
    abs_guard = rp.find("pathLength < PATH_MAX")
    abs_copy = rp.find("memcpy(result, path")
    rel_guard = rp.find("totalLength + pathLength + 1 < PATH_MAX")
    rel_copy = rp.find("memcpy(result, directory")
    shape_b = (len(nuls) == 2 and 0 <= abs_guard < nuls[0] < abs_copy < rel_guard < nuls[1] < rel_copy)
    rejects_nul = shape_a or shape_b
    if "memchr" in rp and not rejects_nul:
        raise ExtractFail("wasi.c", "resolvePath: memchr test of an unexpected shape/position")
    # does fd_readdir close the native descriptor of the entry (the table is only written through
    # wasiDirectorySet / wasiFileDescriptorSet; an assignment to the local copy `descriptor` is not a table write)
    rd = function_body(text, "wasiFDReaddir")
    rd_closes = re.search(r"\bclose\s*\(\s*descriptor\.fd\s*\)", rd) is not None
    rd_sets_fd = re.search(r"wasiFileDescriptorSet\s*\(", rd) is not None
    if rd_sets_fd:
        raise ExtractFail("wasi.c", "wasiFDReaddir: writes the native fd of the table entry (wasiFileDescriptorSet) — not modelled")
    return clears, get_rejects, guard("wasiFDReaddir"), guard("wasiFdFdstatGet"), guard("wasiFDFilestatGet"), whence_first, sync_inval, rejects_nul, rd_closes


PATH_FUNCS = [("path_open", "wasiPathOpen", 1), ("path_filestat_get", "wasiPathFilestatGet", 1),
              ("path_rename", "wasiPathRename", 2), ("path_unlink_file", "wasiPathUnlinkFile", 1),
              ("path_remove_directory", "wasiPathRemoveDirectory", 1), ("path_create_directory", "wasiPathCreateDirectory", 1),
              ("path_symlink", "wasiPathSymlink", 1), ("path_readlink", "wasiPathReadlink", 1)]


def path_call_facts(text):
    """For every path_* function: is the directory descriptor validated UNCONDITIONALLY — each
    `wasiFileDescriptorGet` is the whole condition of an `if (!…) { … return WASI_ERRNO_BADF; }`, each
    `<x>Path == NULL` test likewise, the expected number of both is present, and the first lookup
    precedes every use of the guest path (resolvePath / path[…]).  -> [(import, bool)]"""
    facts = []
    for imp, fn, ngets in PATH_FUNCS:
        body = function_body(text, fn)
        body = re.sub(r"#\s*(?:ifdef|if|elif)\s+(?:_WIN32|defined\(__MWERKS__\)[^\n]*|defined\(__wii__\))[^\n]*\n.*?(?=#\s*(?:elif|else))", "", body, flags=re.S)
        strict_get = re.findall(r"if\s*\(\s*!\s*wasiFileDescriptorGet\s*\(\s*\w+\s*,\s*&\s*\w+\s*\)\s*\)\s*\{[^{}]*?return\s+WASI_ERRNO_BADF\s*;[^{}]*\}", body)
        all_get = re.findall(r"wasiFileDescriptorGet\s*\(", body)
        strict_null = re.findall(r"if\s*\(\s*\w*[pP]ath\w*\s*==\s*NULL\s*\)\s*\{[^{}]*?return\s+WASI_ERRNO_BADF\s*;[^{}]*\}", body)
        all_null = re.findall(r"\w*[pP]reopenPath\w*\s*==\s*NULL", body)
        first_get = body.find("wasiFileDescriptorGet(")
        uses = [m.start() for m in re.finditer(r"resolvePath\s*\(|\bpath\s*\[|\b(?:old|new)Path\s*\[", body)]
        ok = (len(all_get) == ngets and len(strict_get) == ngets and len(all_null) == ngets and len(strict_null) == ngets
              and first_get >= 0 and all(u > first_get for u in uses))
        facts.append((imp, ok))
    return facts


def lean_list(items):
    return "[" + ", ".join(items) + "]"


def generate(repo):
    cpath = os.path.join(repo, "wasi", "wasi.c")
    hpath = os.path.join(repo, "wasi", "wasi.h")
    text = strip_comments(open(cpath).read())
    htext = strip_comments(open(hpath).read())
    macros = macros_of(htext)
    macros.update({k: v for k, v in macros_of(text).items() if k.startswith("WASI_")})
    imps = imports(text)
    L = []
    w = L.append
    w("-- GENERATED by tools/extract/gen_wasi.py from /repo/wasi/wasi.c and wasi.h — do not edit.")
    w("import W2c2Verif.Spec.Posix")
    w("namespace W2c2Verif.Gen.Wasi")
    w("open W2c2Verif.Spec.Posix")
    w("")
    w("/-- C parameter types of every import as declared in wasi.c: (abi, name, [(parameter, bits)]); `instance` omitted -/")
    rows = []
    for a, n, ps in imps:
        pl = []
        for ct, pn in ps:
            if ct == "void*":
                continue
            if ct not in CT_BITS:
                raise ExtractFail("wasi.c", f"unknown C type {ct} in import {n}")
            pl.append(f'("{pn}", {CT_BITS[ct]})')
        rows.append(f'("{a}", "{n}", {lean_list(pl)})')
    w("def importParams : List (String × String × List (String × Nat)) := [\n  " + ",\n  ".join(rows) + "]")
    w("")
    for abi in ("p1", "un"):
        for call in ("fd_pwrite", "fd_pread", "fd_seek"):
            w(f"/-- declared width of the `offset` parameter of {abi}:{call} -/")
            w(f"def {call}_offset_bits_{abi} : Nat := {param_bits(imps, abi, call, 'offset')}")
        w(f"def path_open_rights_bits_{abi} : Nat := {param_bits(imps, abi, 'path_open', 'fsRightsBase')}")
        w(f"def fd_readdir_cookie_bits_{abi} : Nat := {param_bits(imps, abi, 'fd_readdir', 'cookie')}")
    w("")
    for nm, fn in (("whencePreview1", "convertPreview1Whence"), ("whenceUnstable", "convertUnstableWhence")):
        tab = whence_table(text, fn)
        w(f"/-- `{fn}` -/")
        w(f"def {nm} : Nat → Option Whence")
        for v, wn in tab:
            w(f"  | {v} => some .{wn}")
        w("  | _ => none")
    w("")
    rd, wr, acc, omap, fmap, mode, emu, regpath = path_open_tables(text, macros)
    w(f"def readRightsMask : Nat := {rd}")
    w(f"def writeRightsMask : Nat := {wr}")
    w("/-- `nativeFlags = isWrite ? isRead ? … : … : …` -/")
    w("def accessMode (isWrite isRead : Bool) : Acc :=")
    w(f"  if isWrite then (if isRead then .{acc['wr']} else .{acc['w']}) else .{acc['r']}")
    w("/-- `if (oflags & MASK) nativeFlags |= O_X` rows -/")
    w("def oflagsMap : List (Nat × OFlag) := " + lean_list(f"({m}, .{f})" for m, f in omap))
    w("def fdflagsMap : List (Nat × OFlag) := " + lean_list(f"({m}, .{f})" for m, f in fmap))
    w(f"def openMode : Nat := {mode}")
    w(f"def directoryEmulation : Bool := {'true' if emu else 'false'}")
    w(f"/-- the string path_open registers in the table: `{regpath}` -/")
    w(f"def pathOpenRegistersResolved : Bool := {'true' if regpath == 'resolvedPath' else 'false'}")
    w("")
    tab, dflt = errno_table(text, macros)
    w("/-- `wasiErrno`: host errno ↦ WASI errno -/")
    w("def errnoTable : List (Errno × Nat) := " + lean_list(f"(.{e}, {n})" for e, n in tab))
    w(f"def errnoDefault : Nat := {dflt}")
    for nm in ("BADF", "INVAL", "NOMEM", "NOTDIR", "NOSYS", "SUCCESS"):
        w(f"def WASI_ERRNO_{nm} : Nat := {eval_const('WASI_ERRNO_' + nm, macros, 'wasi.h')}")
    w("")
    for nm, fn, sz in (("filestatPreview1", "storePreview1Filestat", "wasiPreview1FilestatSize"),
                       ("filestatUnstable", "storeUnstableFilestat", "wasiUnstableFilestatSize")):
        size, rows = filestat_layout(text, fn, sz)
        w(f"/-- `{fn}`: bytes zeroed by the memset -/")
        w(f"def {nm}Size : Nat := {size}")
        w("/-- (C variable, offset, bytes stored, bits of the C variable's type) in program order -/")
        w(f"def {nm} : List (String × Nat × Nat × Nat) := " + lean_list(f'("{v}", {o}, {b}, {t})' for v, o, b, t in rows))
    w("")
    iv = iovec_facts(text)
    for fn, nm in (("wasiFDWrite", "ciovec"), ("wasiFDRead", "iovec")):
        w(f"def {nm}Size : Nat := {iv[fn][0]}")
        w(f"def {nm}BufOffset : Nat := {iv[fn][1]}")
        w(f"def {nm}LenOffset : Nat := {iv[fn][2]}")
    w("")
    # prestat / fdstat stores
    pb = function_body(text, "wasi_unstable__fd_prestat_get") if False else None
    m = re.search(r"WASI_IMPORT\s*\(\s*U32\s*,\s*fd_prestat_get", text)
    if not m:
        raise ExtractFail("wasi.c", "fd_prestat_get not found")
    seg = text[m.start():m.start() + 1500]
    ps = stores(seg, "prestatPointer")
    if len(ps) != 2:
        raise ExtractFail("wasi.c", "fd_prestat_get: expected two stores")
    w("/-- fd_prestat_get stores: (offset, bytes, what) -/")
    w("def prestatStores : List (Nat × Nat × String) := " + lean_list(f'({o}, {STORE_BYTES[f]}, "{e}")' for f, o, e in ps))
    w(f"def WASI_PREOPEN_TYPE_DIRECTORY : Nat := {eval_const('WASI_PREOPEN_TYPE_DIRECTORY', macros, 'wasi.h')}")
    fb = function_body(text, "wasiFdFdstatGet")
    fs = stores(fb, "resultPointer")
    w("def fdstatStores : List (Nat × Nat × String) := " + lean_list(f'({o}, {STORE_BYTES[f]}, "{e}")' for f, o, e in fs))
    w(f"def fdstatSize : Nat := {eval_const('WASI_FDSTAT_SIZE', macros, 'wasi.c')}")
    for nm in ("WASI_RIGHTS_ALL", "WASI_RIGHTS_REGULAR_FILE_BASE", "WASI_RIGHTS_REGULAR_FILE_INHERITING",
               "WASI_RIGHTS_DIRECTORY_BASE", "WASI_RIGHTS_DIRECTORY_INHERITING", "WASI_RIGHTS_TTY_BASE",
               "WASI_RIGHTS_TTY_INHERITING", "WASI_FILE_TYPE_UNKNOWN", "WASI_FILE_TYPE_DIRECTORY",
               "WASI_FILE_TYPE_REGULAR_FILE", "WASI_FILE_TYPE_CHARACTER_DEVICE", "WASI_FDFLAGS_APPEND",
               "WASI_FDFLAGS_DSYNC", "WASI_FDFLAGS_NONBLOCK", "WASI_FDFLAGS_RSYNC", "WASI_FDFLAGS_SYNC"):
        w(f"def {nm} : Nat := {eval_const(nm, macros, 'wasi.h')}")
    w("")
    clears, get_rejects, g_rd, g_fs, g_fl, whence_first, sync_inval, rejects_nul, rd_closes = structure_flags(text)
    b = lambda x: "true" if x else "false"
    og = lambda x: "none" if x is None else f"some {eval_const(x, macros, 'wasi.h')}"
    w("/-- `wasiFileDescriptorClose` assigns `path = NULL` in the table after `free` -/")
    w(f"def closeClearsPath : Bool := {b(clears)}")
    w("/-- `wasiFileDescriptorGet` fails (before copying) for a slot with no native fd, no DIR and no path -/")
    w(f"def getRejectsClosed : Bool := {b(get_rejects)}")
    w("/-- the errno returned when `descriptor.path == NULL` is tested before `strcpy(nativePath, descriptor.path)`; `none` = no test -/")
    w(f"def readdirNullPath : Option Nat := {og(g_rd)}")
    w(f"def fdstatNullPath : Option Nat := {og(g_fs)}")
    w(f"def filestatNullPath : Option Nat := {og(g_fl)}")
    w("/-- `wasiFDReaddir` calls `close(descriptor.fd)` after registering the DIR stream, while the table entry keeps the number -/")
    w(f"def readdirClosesNativeFd : Bool := {b(rd_closes)}")
    w("/-- per path_* import: the directory descriptor is validated unconditionally (lookup + NULL-path test, each the")
    w("    whole condition of an `if … return WASI_ERRNO_BADF`) before the guest path is looked at -/")
    w("def pathCallsValidateDirfd : List (String × Bool) := " + lean_list(f'("{n}", {b(ok)})' for n, ok in path_call_facts(text)))
    w("/-- `resolvePath` fails for a guest path that contains a NUL byte -/")
    w(f"def resolveRejectsNul : Bool := {b(rejects_nul)}")
    w("/-- fd_seek converts (and rejects) whence before looking the descriptor up -/")
    w(f"def seekChecksWhenceFirst : Bool := {b(whence_first)}")
    w(f"/-- fd_datasync / fd_sync on a descriptor with fd < 0 return this -/")
    w(f"def datasyncNegFd : Nat := {eval_const(sync_inval['wasiFDDatasync'], macros, 'wasi.h')}")
    w(f"def syncNegFd : Nat := {eval_const(sync_inval['wasiFDSync'], macros, 'wasi.h')}")
    w("")
    w("end W2c2Verif.Gen.Wasi")
    return "\n".join(L) + "\n"


if __name__ == "__main__":
    import sys
    sys.stdout.write(generate(sys.argv[1] if len(sys.argv) > 1 else "/repo"))
