"""wasi_cinterp — a small C front end + interpreter used by gen_wasi.py to extract FACTS about
/repo/wasi/wasi.c semantically instead of by the shape of its text.

  1. `preprocess(repo)`: the REAL preprocessor (`gcc -E`, the defines CMake derives on this host, -std=gnu90);
     only tokens that originate from files under wasi/ are kept.  Conditional compilation, MUST, WASI_TRACE,
     WASI_IMPORT, UNUSED, NULL, errno, SEEK_*, O_*, E*, S_IS*, … are therefore exactly what is compiled, and every
     named constant (#define) is an integer VALUE.
  2. `Unit(tokens)`: parses typedef'd struct layouts, global objects with initialisers and every function
     definition (declarations, if/else, switch, while, do, for, return, break, continue, the full expression grammar
     incl. casts, sizeof, ?:, compound assignment, ++/--, ->, ., [], &, *).
  3. `Interp`: executes those functions on a mock host: objects are auto-vivifying cell trees (no layout needed),
     pointers are (array cell, index) references, integers are converted on casts / typed assignment (so `U32 x =
     <64-bit value>` truncates), calls to functions defined in wasi.c are interpreted, every other call must have a
     mock supplied by the probe.
gen_wasi.py runs PROBES (concrete calls of the imports on prepared descriptor tables / guest memory) and reads the
facts off the observed host calls, stores and results.  Local names, switch vs if-chains, temporaries, `!x` vs `x ==
NULL`, if/else order, `i++` vs `i += 1`, for vs while, literal spelling — none of this is visible to a probe.
Anything outside the implemented C subset, a call without a mock, or a branch on a value the probe does not
determine raises ExtractFail (the tie is then reported broken); nothing is guessed.
"""
import os
import re
import subprocess

from cfront import ExtractFail, lex

CMAKE_DEFINES = ["-DHAS_UNISTD=1", "-DHAS_SYSUIO=1", "-DHAS_SYSTIME=1", "-DHAS_SYSRESOURCE=1", "-DHAS_STRNDUP=1",
                 "-DHAS_FCNTL=1", "-DHAS_LSTAT=1", "-DHAS_GETENTROPY=1", "-DHAS_TIMESPEC=1", "-DWASM_THREADS_PTHREADS"]

TYPE_KW = {"void", "char", "short", "int", "long", "float", "double", "signed", "unsigned", "_Bool", "struct", "union", "enum"}
QUALS = {"const", "volatile", "static", "extern", "register", "inline", "__inline", "__inline__", "restrict", "__restrict",
         "__extension__", "auto"}
# (bits, signed) of the integer types that occur
INT_TYPES = {"char": (8, True), "signed char": (8, True), "unsigned char": (8, False), "short": (16, True),
             "unsigned short": (16, False), "int": (32, True), "unsigned int": (32, False), "unsigned": (32, False),
             "long": (64, True), "unsigned long": (64, False), "long long": (64, True), "unsigned long long": (64, False),
             "_Bool": (8, False), "bool": (8, False),
             "U8": (8, False), "I8": (8, True), "U16": (16, False), "I16": (16, True), "U32": (32, False), "I32": (32, True),
             "U64": (64, False), "I64": (64, True), "size_t": (64, False), "ssize_t": (64, True), "off_t": (64, True),
             "mode_t": (32, False), "WasiFileType": (8, False), "WasiRights": (64, False), "WasiFdflags": (16, False),
             "WasiOflags": (16, False), "WasiErrno": (16, False), "WasiLookupFlags": (32, False), "WasiPreopenType": (8, False),
             "WasiClock": (32, False), "clockid_t": (32, True), "time_t": (64, True), "uint8_t": (8, False),
             "uint16_t": (16, False), "uint32_t": (32, False), "uint64_t": (64, False), "int32_t": (32, True), "int64_t": (64, True)}


def preprocess(repo, extra_defines=()):
    """-> (tokens from files under <repo>/wasi, set of all typedef names of the translation unit)"""
    src = os.path.join(repo, "wasi", "wasi.c")
    p = subprocess.run(["gcc", "-E", "-std=gnu90", "-O0", "-w"] + CMAKE_DEFINES + list(extra_defines) + [src], stdout=subprocess.PIPE,
                       stderr=subprocess.PIPE, text=True)
    if p.returncode != 0:
        raise ExtractFail("wasi.c", "gcc -E failed: " + p.stderr[-400:])
    wasidir = os.path.realpath(os.path.join(repo, "wasi")) + os.sep
    keep, kept, alltext = False, [], []
    for line in p.stdout.splitlines():
        m = re.match(r'# \d+ "([^"]*)"', line)
        if m:
            keep = os.path.realpath(m.group(1)).startswith(wasidir)
            continue
        alltext.append(line)
        if keep:
            kept.append(line)
    typedefs = set()
    for m in re.finditer(r"\btypedef\b[^;{}]*?(?:\{[^{}]*(?:\{[^{}]*\}[^{}]*)*\}[^;]*?)?\b(\w+)\s*(?:\[[^\]]*\])?\s*;", "\n".join(alltext)):
        typedefs.add(m.group(1))
    for m in re.finditer(r"\btypedef\b[^;]*?\(\s*\*\s*(\w+)\s*\)\s*\(", "\n".join(alltext)):
        typedefs.add(m.group(1))
    toks = [t for l in lex("\n".join(kept), "wasi.c(cpp)") for t in l]
    return toks, typedefs


# ----------------------------------------------------------------------------- parser

class Type(object):
    def __init__(self, base, ptr=0, array=None, func=False):
        self.base, self.ptr, self.array, self.func = base, ptr, array, func

    def is_int(self):
        return self.ptr == 0 and self.array is None and self.base in INT_TYPES

    def __repr__(self):
        return self.base + "*" * self.ptr + ("[]" if self.array is not None else "")


class Func(object):
    def __init__(self, name, ret, params, body):
        self.name, self.ret, self.params, self.body = name, ret, params, body


def num_value(text, where):
    t = text.rstrip("uUlL")
    try:
        if t.lower().startswith("0x"):
            return int(t, 16)
        if len(t) > 1 and t[0] == "0" and t.isdigit():
            return int(t, 8)
        return int(t)
    except ValueError:
        raise ExtractFail(where, f"unsupported numeric literal {text}")


def chr_value(text, where):
    body = text[1:-1]
    esc = {"n": 10, "t": 9, "r": 13, "0": 0, "\\": 92, "'": 39, '"': 34, "a": 7, "b": 8, "f": 12, "v": 11}
    if len(body) == 1:
        return ord(body)
    if body[0] == "\\":
        if body[1:] in esc:
            return esc[body[1:]]
        if body[1] == "x":
            return int(body[2:], 16)
        if body[1:].isdigit():
            return int(body[1:], 8)
    raise ExtractFail(where, f"unsupported character literal {text}")


def str_value(text, where):
    out, i, body = [], 0, text[1:-1]
    esc = {"n": 10, "t": 9, "r": 13, "0": 0, "\\": 92, "'": 39, '"': 34}
    while i < len(body):
        if body[i] == "\\":
            if body[i + 1] not in esc:
                raise ExtractFail(where, f"unsupported escape in {text}")
            out.append(esc[body[i + 1]]); i += 2
        else:
            out.append(ord(body[i])); i += 1
    return out


BINPREC = [("||",), ("&&",), ("|",), ("^",), ("&",), ("==", "!="), ("<", ">", "<=", ">="), ("<<", ">>"), ("+", "-"), ("*", "/", "%")]
ASSIGN_OPS = {"=", "+=", "-=", "*=", "/=", "%=", "&=", "|=", "^=", "<<=", ">>="}


class P(object):
    def __init__(self, toks, typedefs, where):
        self.t, self.i, self.typedefs, self.where = toks, 0, typedefs, where

    def fail(self, why):
        ctx = " ".join(x.text for x in self.t[max(0, self.i - 6):self.i + 6])
        raise ExtractFail(self.where, f"{why} near `{ctx}`")

    def peek(self, k=0):
        return self.t[self.i + k].text if self.i + k < len(self.t) else None

    def kind(self, k=0):
        return self.t[self.i + k].kind if self.i + k < len(self.t) else None

    def eat(self, text=None):
        if self.i >= len(self.t):
            self.fail("unexpected end")
        tok = self.t[self.i]
        if text is not None and tok.text != text:
            self.fail(f"expected `{text}`")
        self.i += 1
        return tok

    def skip_attrs(self):
        while self.peek() in ("__attribute__", "__attribute"):
            self.eat(); self.eat("(")
            d = 1
            while d:
                x = self.eat().text
                d += (x == "(") - (x == ")")

    # ---- types
    def at_type(self, k=0):
        x = self.peek(k)
        return x in TYPE_KW or x in QUALS or (self.kind(k) == "id" and x in self.typedefs)

    def type_spec(self):
        """declaration specifiers -> base type name"""
        words = []
        while True:
            self.skip_attrs()
            x = self.peek()
            if x in QUALS:
                self.eat()
            elif x in ("struct", "union", "enum"):
                self.eat()
                name = self.eat().text if self.kind() == "id" else "<anon>"
                if self.peek() == "{":
                    self.fail("struct/enum definition inside a function")
                words.append(x + " " + name)
            elif x in TYPE_KW:
                words.append(self.eat().text)
            elif self.kind() == "id" and x in self.typedefs and not words:
                words.append(self.eat().text)
            else:
                break
        if not words:
            self.fail("type expected")
        base = " ".join(w for w in words if w != "signed" or len(words) == 1)
        base = {"long int": "long", "unsigned long int": "unsigned long", "long long int": "long long", "short int": "short",
                "long unsigned int": "unsigned long", "signed": "int", "signed int": "int"}.get(base, base)
        return base

    def abstract_type(self):
        """type-name as in casts / sizeof"""
        base = self.type_spec()
        ptr = 0
        while self.peek() in ("*", "const", "volatile", "restrict", "__restrict"):
            if self.eat().text == "*":
                ptr += 1
        if self.peek() == "(" and self.peek(1) == "*":      # pointer to function: not needed in casts here
            self.fail("function-pointer type name")
        return Type(base, ptr)

    def declarator(self, base):
        """-> (name, Type); handles `*`, `(name)`, `name[N]`, `name(params)` and `(*name)(params)`"""
        ptr = 0
        while True:
            self.skip_attrs()
            if self.peek() == "*":
                self.eat(); ptr += 1
            elif self.peek() in ("const", "volatile", "restrict", "__restrict"):
                self.eat()
            else:
                break
        func = False
        if self.peek() == "(" and self.peek(1) == "*":
            self.eat(); self.eat()
            name = self.eat().text
            self.eat(")")
            func = True
        elif self.peek() == "(":
            self.eat(); name = self.eat().text; self.eat(")")
        else:
            if self.kind() != "id":
                self.fail("declarator name expected")
            name = self.eat().text
        self.skip_attrs()
        array = None
        if self.peek() == "[":
            self.eat()
            array = self.expr() if self.peek() != "]" else ("num", 0)
            self.eat("]")
        if self.peek() == "(":       # parameter list of a function(-pointer) declarator: skipped
            d = 0
            while True:
                x = self.eat().text
                d += (x == "(") - (x == ")")
                if d == 0:
                    break
            func = True
        return name, Type(base, ptr + (1 if func and ptr == 0 and False else 0), array, func)

    # ---- expressions
    def expr(self):
        e = self.assign()
        while self.peek() == ",":
            self.eat()
            e = ("comma", e, self.assign())
        return e

    def assign(self):
        lhs = self.cond()
        if self.peek() in ASSIGN_OPS:
            op = self.eat().text
            return ("assign", op, lhs, self.assign())
        return lhs

    def cond(self):
        c = self.binary(0)
        if self.peek() == "?":
            self.eat()
            a = self.expr()
            self.eat(":")
            return ("cond", c, a, self.cond())
        return c

    def binary(self, lvl):
        if lvl == len(BINPREC):
            return self.unary()
        e = self.binary(lvl + 1)
        while self.peek() in BINPREC[lvl] and self.kind() == "op":
            op = self.eat().text
            e = ("bin", op, e, self.binary(lvl + 1))
        return e

    def unary(self):
        x = self.peek()
        if x in ("!", "~", "-", "+", "*", "&"):
            self.eat()
            return ("un", x, self.unary())
        if x in ("++", "--"):
            self.eat()
            return ("preinc", x, self.unary())
        if x == "sizeof":
            self.eat()
            if self.peek() == "(" and self.at_type(1):
                self.eat(); t = self.abstract_type(); self.eat(")")
                return ("sizeoft", t)
            return ("sizeofe", self.unary())
        if x == "(" and self.at_type(1):
            self.eat(); t = self.abstract_type(); self.eat(")")
            return ("cast", t, self.unary())
        return self.postfix()

    def postfix(self):
        k, x = self.kind(), self.peek()
        if x == "(":
            self.eat(); e = self.expr(); self.eat(")")
        elif k == "num":
            if re.search(r"[.eEpP]", x) and not x.lower().startswith("0x"):
                self.fail("floating literal")
            e = ("num", num_value(self.eat().text, self.where))
        elif k == "chr":
            e = ("num", chr_value(self.eat().text, self.where))
        elif k == "str":
            bs = []
            while self.kind() == "str":
                bs += str_value(self.eat().text, self.where)
            e = ("str", bs)
        elif k == "id":
            e = ("var", self.eat().text)
        else:
            self.fail("expression expected")
        while True:
            x = self.peek()
            if x == "(":
                self.eat()
                args = []
                if self.peek() != ")":
                    args.append(self.assign())
                    while self.peek() == ",":
                        self.eat(); args.append(self.assign())
                self.eat(")")
                e = ("call", e, args)
            elif x == "[":
                self.eat(); i = self.expr(); self.eat("]")
                e = ("index", e, i)
            elif x == ".":
                self.eat(); e = ("member", e, self.eat().text)
            elif x == "->":
                self.eat(); e = ("member", ("un", "*", e), self.eat().text)
            elif x in ("++", "--"):
                self.eat(); e = ("postinc", x, e)
            else:
                return e

    # ---- statements
    def block(self):
        self.eat("{")
        items = []
        while self.peek() != "}":
            items.append(self.stmt())
        self.eat("}")
        return ("block", items)

    def init(self):
        if self.peek() == "{":
            self.eat()
            items = []
            while self.peek() != "}":
                items.append(self.init())
                if self.peek() == ",":
                    self.eat()
            self.eat("}")
            return ("initlist", items)
        return self.assign()

    def declaration(self):
        base = self.type_spec()
        decls = []
        if self.peek() == ";":
            self.eat()
            return ("decl", [])
        while True:
            name, ty = self.declarator(base)
            ini = None
            if self.peek() == "=":
                self.eat(); ini = self.init()
            decls.append((name, ty, ini))
            if self.peek() == ",":
                self.eat(); continue
            self.eat(";")
            return ("decl", decls)

    def stmt(self):
        x = self.peek()
        if x == "{":
            return self.block()
        if x == ";":
            self.eat(); return ("empty",)
        if x == "if":
            self.eat(); self.eat("("); c = self.expr(); self.eat(")")
            a = self.stmt()
            b = None
            if self.peek() == "else":
                self.eat(); b = self.stmt()
            return ("if", c, a, b)
        if x == "while":
            self.eat(); self.eat("("); c = self.expr(); self.eat(")")
            return ("while", c, self.stmt())
        if x == "do":
            self.eat(); body = self.stmt(); self.eat("while"); self.eat("("); c = self.expr(); self.eat(")"); self.eat(";")
            return ("dowhile", body, c)
        if x == "for":
            self.eat(); self.eat("(")
            ini = None
            if self.peek() != ";":
                ini = self.declaration() if self.at_type() else ("expr", self.expr())
                if ini[0] == "expr":
                    self.eat(";")
            else:
                self.eat(";")
            c = self.expr() if self.peek() != ";" else None
            self.eat(";")
            inc = self.expr() if self.peek() != ")" else None
            self.eat(")")
            return ("for", ini, c, inc, self.stmt())
        if x == "switch":
            self.eat(); self.eat("("); c = self.expr(); self.eat(")")
            return ("switch", c, self.block())
        if x == "case":
            self.eat(); v = self.cond(); self.eat(":")
            return ("case", v)
        if x == "default":
            self.eat(); self.eat(":")
            return ("default",)
        if x == "break":
            self.eat(); self.eat(";"); return ("break",)
        if x == "continue":
            self.eat(); self.eat(";"); return ("continue",)
        if x == "return":
            self.eat()
            e = None if self.peek() == ";" else self.expr()
            self.eat(";")
            return ("return", e)
        if x in ("goto", "asm", "__asm__"):
            self.fail(f"`{x}` statement")
        if self.at_type() and not (self.kind() == "id" and self.peek(1) in ("(", "=", ".", "->", "[", ";", "++", "--", ",") ):
            return self.declaration()
        e = self.expr()
        self.eat(";")
        return ("expr", e)


class Unit(object):
    """top-level items of the preprocessed translation unit (wasi/ files only)"""

    def __init__(self, toks, typedefs):
        self.typedefs = set(typedefs) | {"bool"}
        self.funcs, self.globals, self.structs = {}, [], {}
        self.order = []
        self._split(toks)

    def _split(self, toks):
        i, n = 0, len(toks)
        while i < n:
            j, depth, body_at = i, 0, None
            # find the end of this top-level item
            while j < n:
                x = toks[j].text
                if x in ("(", "[") :
                    depth += 1
                elif x in (")", "]"):
                    depth -= 1
                elif x == "{" and depth == 0:
                    prev = toks[j - 1].text if j > i else ""
                    k = self._close(toks, j)
                    if prev == ")":             # function body
                        body_at = j
                        j = k
                        break
                    j = k                       # struct body / initialiser: continues until `;`
                elif x == ";" and depth == 0:
                    break
                j += 1
            item = toks[i:j + 1]
            i = j + 1
            if not item or all(t.text == ";" for t in item):
                continue
            if body_at is not None:
                self._function(item)
            else:
                self._declaration(item)

    @staticmethod
    def _close(toks, j):
        d = 0
        while True:
            d += (toks[j].text == "{") - (toks[j].text == "}")
            if d == 0:
                return j
            j += 1

    def _function(self, item):
        p = P(item, self.typedefs, "wasi.c")
        base = p.type_spec()
        ptr = 0
        while p.peek() == "*":
            p.eat(); ptr += 1
        p.skip_attrs()
        name = p.eat().text
        where = "wasi.c:" + name
        p.where = where
        p.eat("(")
        params = []
        if p.peek() == "void" and p.peek(1) == ")":
            p.eat()
        while p.peek() != ")":
            if p.peek() == "...":
                p.eat(); params.append(("...", None)); continue
            pb = p.type_spec()
            pname, pty = p.declarator(pb)
            params.append((pname, pty))
            if p.peek() == ",":
                p.eat()
        p.eat(")")
        p.skip_attrs()
        body = p.block()
        self.funcs[name] = Func(name, Type(base, ptr), params, body)
        self.order.append(name)

    def _declaration(self, item):
        texts = [t.text for t in item]
        if texts[0] == "typedef":
            # typedef struct NAME { fields } NAME;  -> field order
            if "{" in texts and texts[1] == "struct":
                name = texts[-2]
                b = texts.index("{")
                fields, k = [], b + 1
                p = P(item[b + 1:len(item) - 3], self.typedefs, "wasi.h:" + name)
                while p.i < len(p.t):
                    fb = p.type_spec()
                    while True:
                        fname, fty = p.declarator(fb)
                        fields.append((fname, fty))
                        if p.peek() == ",":
                            p.eat(); continue
                        break
                    p.eat(";")
                self.structs[name] = fields
            self.typedefs.add(texts[-2] if texts[-2] != ")" else texts[-2])
            return
        if "(" in texts and "=" not in texts:
            return                                   # prototype
        if texts[0] in ("struct", "union", "enum") and "{" in texts and texts[-2] == "}":
            return
        p = P(item, self.typedefs, "wasi.c(global)")
        d = p.declaration()
        for name, ty, ini in d[1]:
            self.globals.append((name, ty, ini))


# ----------------------------------------------------------------------------- values

class Cell(object):
    """an object: scalar (`v`), struct (`f`: name -> Cell) or array (`e`: index -> Cell); created on demand"""
    __slots__ = ("v", "f", "e", "ty", "name")

    def __init__(self, name="?", ty=None):
        self.v, self.f, self.e, self.ty, self.name = None, {}, {}, ty, name

    def field(self, n):
        if n not in self.f:
            self.f[n] = Cell(self.name + "." + n)
        return self.f[n]

    def elem(self, i):
        if i not in self.e:
            self.e[i] = Cell(f"{self.name}[{i}]")
        return self.e[i]

    def is_agg(self):
        return bool(self.f) or bool(self.e) or (self.ty is not None and (self.ty.array is not None))

    def copy_from(self, other):
        self.v = other.v
        self.f = {}
        self.e = {}
        for k, c in other.f.items():
            self.field(k).copy_from(c)
        for k, c in other.e.items():
            self.elem(k).copy_from(c)


class Ptr(object):
    """pointer to element `idx` of array cell `cell` (idx None: the cell itself)"""
    __slots__ = ("cell", "idx")

    def __init__(self, cell, idx=None):
        self.cell, self.idx = cell, idx

    def target(self):
        return self.cell if self.idx is None else self.cell.elem(self.idx)

    def __eq__(self, o):
        return isinstance(o, Ptr) and o.cell is self.cell and o.idx == self.idx

    def __ne__(self, o):
        return not self.__eq__(o)

    def __hash__(self):
        return id(self.cell) ^ hash(self.idx)

    def __repr__(self):
        return f"&{self.cell.name}" + ("" if self.idx is None else f"[{self.idx}]")


class Agg(object):
    def __init__(self, cell):
        self.cell = cell


class FuncRef(object):
    def __init__(self, name):
        self.name = name

    def __repr__(self):
        return "fn:" + self.name


class Unknown(object):
    """a value the probe does not determine (uninitialised object, …): may be copied, never inspected"""
    def __init__(self, what):
        self.what = what

    def __repr__(self):
        return f"<unknown {self.what}>"


class _Return(Exception):
    def __init__(self, v):
        self.v = v


class _Break(Exception):
    pass


class _Continue(Exception):
    pass


def conv(v, ty):
    """integer conversion to the declared type"""
    if isinstance(v, int) and ty is not None and ty.ptr == 0 and ty.array is None and ty.base in INT_TYPES:
        bits, signed = INT_TYPES[ty.base]
        if ty.base in ("_Bool", "bool"):
            return 1 if v != 0 else 0
        v &= (1 << bits) - 1
        if signed and v >> (bits - 1):
            v -= 1 << bits
    return v


class Interp(object):
    def __init__(self, unit, mocks, where="wasi.c", fuel=200000):
        self.u, self.mocks, self.where, self.fuel = unit, mocks, where, fuel
        self.globals = {}
        self.calls = []                  # (name, args) of every mocked call, in order
        self.depth = 0
        for name, ty, ini in unit.globals:
            c = Cell(name, ty)
            self.globals[name] = c
        for name, ty, ini in unit.globals:
            if ini is not None:
                self._initialise(self.globals[name], ty, ini, [self.globals])

    def fail(self, why):
        raise ExtractFail(self.where, why)

    # ---- environment
    def lookup(self, name, env):
        for scope in reversed(env):
            if name in scope:
                return scope[name]
        if name in self.globals:
            return self.globals[name]
        return None

    def _initialise(self, cell, ty, ini, env):
        if ini[0] == "initlist":
            if ty.array is not None:
                for k, it in enumerate(ini[1]):
                    self._initialise(cell.elem(k), Type(ty.base, ty.ptr), it, env)
            else:
                fields = self.u.structs.get(ty.base) or self.u.structs.get(ty.base.replace("struct ", ""))
                if fields is None:
                    self.fail(f"initialiser list for unknown struct {ty.base}")
                for (fname, fty), it in zip(fields, ini[1]):
                    self._initialise(cell.field(fname), fty, it, env)
        else:
            self.store(cell, ty, self.rval(ini, env))

    def store(self, cell, ty, v):
        if isinstance(v, Agg):
            cell.copy_from(v.cell)
        else:
            cell.v = conv(v, ty if ty is not None else cell.ty)
            if ty is not None and cell.ty is None:
                cell.ty = ty

    # ---- expressions
    def lval(self, e, env):
        k = e[0]
        if k == "var":
            c = self.lookup(e[1], env)
            if c is None:
                self.fail(f"unknown identifier {e[1]} used as an object")
            return c
        if k == "member":
            return self.lval(e[1], env).field(e[2])
        if k == "index":
            base = self.rval(e[1], env)
            i = self.rval(e[2], env)
            if not isinstance(base, Ptr) or not isinstance(i, int):
                self.fail(f"indexing {base!r} with {i!r}")
            return self.padd(base, i).target()
        if k == "un" and e[1] == "*":
            p = self.rval(e[2], env)
            if not isinstance(p, Ptr):
                self.fail(f"dereference of {p!r}")
            return p.target()
        if k == "cast":
            return self.lval(e[2], env)
        self.fail(f"not an lvalue: {k}")

    def truth(self, v, what="condition"):
        if isinstance(v, int):
            return v != 0
        if isinstance(v, (Ptr, FuncRef)):
            return True
        self.fail(f"{what} depends on a value the probe does not determine ({v!r})")

    def rval(self, e, env):
        self.fuel -= 1
        if self.fuel < 0:
            self.fail("out of fuel (non-terminating probe?)")
        k = e[0]
        if k == "num":
            return e[1]
        if k == "str":
            c = Cell("str")
            for i, b in enumerate(e[1] + [0]):
                c.elem(i).v = b
            return Ptr(c, 0)
        if k == "var":
            n = e[1]
            c = self.lookup(n, env)
            if c is None:
                if n in self.u.funcs or n in self.mocks:
                    return FuncRef(n)
                if n == "true":
                    return 1
                if n == "false":
                    return 0
                self.fail(f"unknown identifier {n}")
            return self.load(c)
        if k in ("member", "index") or (k == "un" and e[1] == "*"):
            return self.load(self.lval(e, env))
        if k == "un":
            op = e[1]
            if op == "&":
                t = e[2]
                if t[0] == "index":
                    base = self.rval(t[1], env); i = self.rval(t[2], env)
                    if isinstance(base, Ptr) and isinstance(i, int):
                        return self.padd(base, i)
                    self.fail("address of an element of a non-array")
                if t[0] == "var" and self.lookup(t[1], env) is None and (t[1] in self.u.funcs or t[1] in self.mocks):
                    return FuncRef(t[1])
                return Ptr(self.lval(t, env))
            v = self.rval(e[2], env)
            if op == "!":
                return 0 if self.truth(v, "operand of !") else 1
            if not isinstance(v, int):
                self.fail(f"unary {op} on {v!r}")
            return {"-": -v, "+": v, "~": ~v}[op]
        if k == "bin":
            op = e[1]
            if op == "&&":
                return 1 if self.truth(self.rval(e[2], env)) and self.truth(self.rval(e[3], env)) else 0
            if op == "||":
                return 1 if self.truth(self.rval(e[2], env)) or self.truth(self.rval(e[3], env)) else 0
            a, b = self.rval(e[2], env), self.rval(e[3], env)
            return self.binop(op, a, b)
        if k == "cond":
            return self.rval(e[2] if self.truth(self.rval(e[1], env)) else e[3], env)
        if k == "comma":
            self.rval(e[1], env)
            return self.rval(e[2], env)
        if k == "cast":
            v = self.rval(e[2], env)
            if isinstance(v, Ptr) and e[1].ptr == 0 and e[1].base != "void":
                self.fail("pointer cast to an integer")
            if isinstance(v, int) and e[1].ptr > 0:
                if v == 0:
                    return 0
                self.fail("integer cast to a pointer")
            return conv(v, e[1])
        if k == "sizeoft":
            t = e[1]
            if t.ptr:
                return 8
            if t.base in INT_TYPES:
                return INT_TYPES[t.base][0] // 8
            if t.base == "struct iovec":
                return 16
            fields = self.u.structs.get(t.base)
            if fields:
                return 8 * len(fields)           # only used as an allocation size
            self.fail(f"sizeof({t})")
        if k == "sizeofe":
            c = self.lval(e[1], env)
            if c.ty is not None and c.ty.array is not None:
                n = self.rval(c.ty.array, env)
                return n * (INT_TYPES.get(c.ty.base, (8,))[0] // 8)
            if c.ty is not None and c.ty.is_int():
                return INT_TYPES[c.ty.base][0] // 8
            self.fail("sizeof expression")
        if k == "assign":
            op = e[1]
            cell = self.lval(e[2], env)
            v = self.rval(e[3], env)
            if op != "=":
                v = self.binop(op[:-1], self.load(cell), v)
            self.store(cell, cell.ty, v)
            return self.load(cell) if not isinstance(v, Agg) else v
        if k in ("preinc", "postinc"):
            cell = self.lval(e[2], env)
            old = self.load(cell)
            new = self.binop("+" if e[1] == "++" else "-", old, 1)
            self.store(cell, cell.ty, new)
            return self.load(cell) if k == "preinc" else old
        if k == "call":
            return self.call(e, env)
        self.fail(f"expression kind {k}")

    def load(self, c):
        if c.ty is not None and c.ty.array is not None:
            return Ptr(c, 0)
        if c.v is None:
            if c.f or c.e:
                return Agg(c)
            if c.ty is not None and c.ty.ptr == 0 and (c.ty.base.startswith("struct ") or c.ty.base in self.u.structs):
                return Agg(c)
            return Unknown(c.name)
        return c.v

    def binop(self, op, a, b):
        if isinstance(a, Ptr) or isinstance(b, Ptr):
            if op in ("==", "!="):
                if isinstance(a, Unknown) or isinstance(b, Unknown):
                    self.fail("comparison with an undetermined value")
                eq = (a == b) if isinstance(a, Ptr) and isinstance(b, Ptr) else False     # a pointer is never NULL / an integer
                if not (isinstance(a, Ptr) and isinstance(b, Ptr)) and (a if isinstance(a, int) else b) != 0:
                    self.fail("pointer compared with a non-zero integer")
                return int(eq) if op == "==" else int(not eq)
            if op == "+" and isinstance(a, Ptr) and isinstance(b, int):
                return self.padd(a, b)
            if op == "+" and isinstance(b, Ptr) and isinstance(a, int):
                return self.padd(b, a)
            if op == "-" and isinstance(a, Ptr) and isinstance(b, int):
                return self.padd(a, -b)
            if op == "-" and isinstance(a, Ptr) and isinstance(b, Ptr) and a.cell is b.cell:
                return (a.idx or 0) - (b.idx or 0)
            self.fail(f"pointer arithmetic {op}")
        if isinstance(a, FuncRef) or isinstance(b, FuncRef):
            if op in ("==", "!="):
                eq = isinstance(a, FuncRef) and isinstance(b, FuncRef) and a.name == b.name
                return int(eq) if op == "==" else int(not eq)
        if not isinstance(a, int) or not isinstance(b, int):
            self.fail(f"`{op}` on values the probe does not determine ({a!r}, {b!r})")
        if op == "+": return a + b
        if op == "-": return a - b
        if op == "*": return a * b
        if op in ("/", "%"):
            if b == 0:
                self.fail("division by zero in probe")
            q = abs(a) // abs(b) * (1 if (a >= 0) == (b >= 0) else -1)
            return q if op == "/" else a - q * b
        if op == "&": return a & b
        if op == "|": return a | b
        if op == "^": return a ^ b
        if op == "<<": return a << b
        if op == ">>": return a >> b
        if op == "==": return int(a == b)
        if op == "!=": return int(a != b)
        if op == "<": return int(a < b)
        if op == ">": return int(a > b)
        if op == "<=": return int(a <= b)
        if op == ">=": return int(a >= b)
        self.fail(f"operator {op}")

    def padd(self, p, n):
        if p.idx is None:
            if n == 0:
                return p
            self.fail(f"pointer arithmetic on a pointer to the single object {p.cell.name}")
        return Ptr(p.cell, p.idx + n)

    # ---- calls
    def call(self, e, env):
        callee = e[1]
        if callee[0] == "var" and self.lookup(callee[1], env) is None:
            name = callee[1]
        else:
            f = self.rval(callee, env)
            if not isinstance(f, FuncRef):
                self.fail(f"call through {f!r}")
            name = f.name
        args = [self.rval(a, env) for a in e[2]]
        return self.invoke(name, args)

    def invoke(self, name, args):
        if name in self.mocks:
            self.calls.append((name, list(args)))
            return self.mocks[name](self, *args)
        f = self.u.funcs.get(name)
        if f is None:
            self.fail(f"call of `{name}`, which is neither defined in wasi.c nor mocked by the probe")
        self.depth += 1
        if self.depth > 40:
            self.fail("recursion too deep")
        scope = {}
        params = [p for p in f.params if p[0] != "..."]
        if len(args) < len(params):
            self.fail(f"too few arguments for {name}")
        for (pname, pty), a in zip(params, args):
            if pty.array is not None:            # an array parameter is a pointer
                pty = Type(pty.base, pty.ptr + 1)
            c = Cell(pname, pty)
            self.store(c, pty, a)
            scope[pname] = c
        try:
            self.exec(f.body, [scope])
            r = None
        except _Return as ret:
            r = ret.v
        self.depth -= 1
        if r is not None and not isinstance(r, Agg):
            r = conv(r, f.ret)
        return r

    # ---- statements
    def exec(self, s, env):
        self.fuel -= 1
        if self.fuel < 0:
            self.fail("out of fuel (non-terminating probe?)")
        k = s[0]
        if k == "block":
            env2 = env + [{}]
            for it in s[1]:
                self.exec(it, env2)
        elif k == "decl":
            for name, ty, ini in s[1]:
                c = Cell(name, ty)
                env[-1][name] = c
                if ini is not None:
                    self._initialise(c, ty, ini, env)
        elif k == "expr":
            self.rval(s[1], env)
        elif k == "empty":
            pass
        elif k == "if":
            if self.truth(self.rval(s[1], env)):
                self.exec(s[2], env)
            elif s[3] is not None:
                self.exec(s[3], env)
        elif k == "while":
            while self.truth(self.rval(s[1], env)):
                try:
                    self.exec(s[2], env)
                except _Break:
                    break
                except _Continue:
                    continue
        elif k == "dowhile":
            while True:
                try:
                    self.exec(s[1], env)
                except _Break:
                    break
                except _Continue:
                    pass
                if not self.truth(self.rval(s[2], env)):
                    break
        elif k == "for":
            env2 = env + [{}]
            if s[1] is not None:
                self.exec(s[1], env2)
            while s[2] is None or self.truth(self.rval(s[2], env2)):
                try:
                    self.exec(s[4], env2)
                except _Break:
                    break
                except _Continue:
                    pass
                if s[3] is not None:
                    self.rval(s[3], env2)
        elif k == "switch":
            v = self.rval(s[1], env)
            if not isinstance(v, int):
                self.fail(f"switch on {v!r}")
            items = s[2][1]
            start = None
            for i, it in enumerate(items):
                if it[0] == "case":
                    cv = self.rval(it[1], env)
                    if cv == v:
                        start = i
                        break
            if start is None:
                for i, it in enumerate(items):
                    if it[0] == "default":
                        start = i
                        break
            if start is not None:
                env2 = env + [{}]
                try:
                    for it in items[start:]:
                        if it[0] in ("case", "default"):
                            continue
                        self.exec(it, env2)
                except _Break:
                    pass
        elif k in ("case", "default"):
            pass
        elif k == "break":
            raise _Break()
        elif k == "continue":
            raise _Continue()
        elif k == "return":
            raise _Return(None if s[1] is None else self.rval(s[1], env))
        else:
            self.fail(f"statement kind {k}")


# ----------------------------------------------------------------------------- helpers for probes

def bytes_cell(data, name="buf"):
    c = Cell(name)
    for i, b in enumerate(data):
        c.elem(i).v = b
    return c


def read_cstr(interp, p, limit=1 << 16):
    if not isinstance(p, Ptr):
        interp.fail(f"string function on {p!r}")
    out, i = [], (p.idx or 0)
    while len(out) < limit:
        v = p.cell.elem(i).v if i in p.cell.e else None
        if v is None:
            interp.fail(f"string read past the initialised part of {p.cell.name}")
        if v == 0:
            return out
        out.append(v); i += 1
    interp.fail("unterminated string")


def consts_compared_with(fn_body, is_scrutinee):
    """integer constants a function compares its scrutinee with (`case K:` of a switch on it, `s == K`, `K == s`, `s != K`)"""
    found = set()

    def ex(e):
        if not isinstance(e, tuple):
            return
        if e and e[0] == "bin" and e[1] in ("==", "!="):
            for a, b in ((e[2], e[3]), (e[3], e[2])):
                if is_scrutinee(a) and b[0] == "num":
                    found.add(b[1])
        for x in e[1:]:
            if isinstance(x, tuple):
                ex(x)
            elif isinstance(x, list):
                for y in x:
                    ex(y)

    def st(s):
        if s[0] == "switch" and is_scrutinee(s[1]):
            for it in s[2][1]:
                if it[0] == "case" and it[1][0] == "num":
                    found.add(it[1][1])
        for x in s[1:]:
            if isinstance(x, tuple):
                (st if x and isinstance(x[0], str) and x[0] in ("block", "if", "while", "for", "switch", "dowhile", "decl", "expr", "return", "case", "default", "break", "continue", "empty") else ex)(x)
            elif isinstance(x, list):
                for y in x:
                    if isinstance(y, tuple):
                        st(y) if y and isinstance(y[0], str) and y[0] in ("block", "if", "while", "for", "switch", "dowhile", "decl", "expr", "return", "case", "default", "break", "continue", "empty") else ex(y)
    st(fn_body)
    return found
