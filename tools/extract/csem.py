"""csem — statement-level C front end and normal forms shared by the SEMANTIC extractors (gen_files, gen_literals).

The extractors built on it bind source entities by ROLE (what a variable holds, what a statement does), not by
spelling, so that the whole class of behaviour-preserving rewrites leaves the extracted facts unchanged:

  * local variable / parameter names are free (roles are bound through data flow: "the buffer sprintf writes",
    "the variable that receives strlen(entry)");
  * `const` temporaries, `static const` objects and locals that are assigned exactly once are substituted into their
    uses before anything is compared (copy propagation); integer and character literals compare by VALUE;
    transparent wrappers (`W2C2_LL(x)`) and value-preserving casts are looked through;
  * `switch` is read as the if/else-if chain on its scrutinee (any case order, `default` = final else);
    `if (c) A else B` = `if (!c) B else A`; `!x` = `x == 0` = `x == NULL`; conditions are brought to negation
    normal form with commutative operands in a canonical order;
  * `i++` = `++i` = `i += 1` = `i = i + 1` as statements; `for` = `while` with the increment last;
    `x = c ? a : b` = if/else assigning x;
  * `static` helpers that only `return e;` are inlined by parameter substitution.

Nothing here guesses: every construct outside the accepted grammar raises ExtractFail (a broken tie).
"""
import cfront
from cfront import (ExtractFail, Tok, Parser, Var, IntLit, FloatLit, Bin, Un, Index, Call, AssignE, Member, Cast, Cond, Comma,
                    AddrOf, Deref, SizeofT, split_params, toks_text)

STORAGE = {"const", "static", "volatile", "register", "extern"}
TYPEDEFS = {"size_t": "u64", "glob_t": "u64", "bool": "u8", "FILE": "u64", "char": "i8"}
COMMUTATIVE = {"add", "mul", "band", "bor", "bxor", "eq", "ne", "land", "lor"}
FLIP = {"lt": "gt", "gt": "lt", "le": "ge", "ge": "le", "eq": "eq", "ne": "ne"}
NEGATE = {"lt": "ge", "ge": "lt", "gt": "le", "le": "gt", "eq": "ne", "ne": "eq"}
CMPS = set(FLIP)
TRANSPARENT_CALLS = {"W2C2_LL"}
NULLS = {"NULL"}


# ----------------------------------------------------------------------------- tokens → expressions

_ESC = {"\\n": 10, "\\t": 9, "\\0": 0, "\\\\": 92, "\\'": 39, "\\\"": 34, "\\r": 13}


def chr_value(text, where):
    body = text[1:-1]
    if len(body) == 1:
        return ord(body)
    if body in _ESC:
        return _ESC[body]
    raise ExtractFail(where, f"unsupported character literal {text}")


def _plain(toks, where):
    """character literals → integer tokens; `x++` / `++x` / `x--` / `--x` as a WHOLE expression → `x += 1` / `x -= 1`"""
    out = [Tok("num", str(chr_value(t.text, where)), t.line, t.space) if t.kind == "chr" else t for t in toks]
    for a, b in ((0, 1), (1, 0)):
        if len(out) == 2 and out[a].kind == "id" and out[b].text in ("++", "--"):
            return [out[a], Tok("op", "+=" if out[b].text == "++" else "-="), Tok("num", "1")]
    return out


def parse_expr(toks, where, typedefs=None):
    td = dict(TYPEDEFS)
    if typedefs:
        td.update(typedefs)
    p = Parser(_plain(toks, where), where, td)
    e = p.parse_expr()
    if p.pos != len(p.toks):
        p.fail("trailing tokens")
    return e


def is_str(e):
    return isinstance(e, Var) and e.n.startswith('"')


def str_value(e, where):
    """bytes of a string-literal expression (simple escapes only)"""
    text = e.n
    body = text[1:-1]
    out = bytearray()
    i = 0
    while i < len(body):
        c = body[i]
        if c == "\\":
            m = {"n": 10, "t": 9, "0": 0, "\\": 92, "'": 39, '"': 34, "r": 13}
            if body[i + 1] not in m:
                raise ExtractFail(where, f"unsupported escape in {text}")
            out.append(m[body[i + 1]])
            i += 2
        else:
            if ord(c) > 127:
                raise ExtractFail(where, f"non-ASCII string literal {text}")
            out.append(ord(c))
            i += 1
    return bytes(out)


# ----------------------------------------------------------------------------- statements

class Decl:
    def __init__(self, quals, ty, ptr, name, dims, init, line, ptr_const=False):
        self.quals = quals          # storage / qualifier words present
        self.ty = ty                # base type words without qualifiers, e.g. "unsigned int", "char", "U32"
        self.ptr = ptr              # pointer depth
        self.name = name
        self.dims = dims            # array dimensions (expressions)
        self.init = init            # initialiser expression or None
        self.line = line
        self.ptr_const = ptr_const  # for pointers: the pointer object itself is const (`T* const x`)

    @property
    def is_const(self):
        """the declared OBJECT never changes after its initialisation"""
        return (self.ptr_const if self.ptr else "const" in self.quals) and not self.dims


def _matching(toks, i, open_t, close_t, where):
    d = 0
    for k in range(i, len(toks)):
        if toks[k].text == open_t:
            d += 1
        elif toks[k].text == close_t:
            d -= 1
            if d == 0:
                return k
    raise ExtractFail(where, f"unbalanced {open_t}")


def _split_top(toks, sep):
    out = [[]]
    d = 0
    for t in toks:
        if t.text in ("(", "[", "{"):
            d += 1
        elif t.text in (")", "]", "}"):
            d -= 1
        if t.text == sep and d == 0:
            out.append([])
        else:
            out[-1].append(t)
    return out


def _try_decl(ts, where, typedefs):
    parts = _split_top(ts, "=")
    head = parts[0]
    if len(parts) > 1 and any(t.text in ("+=", "-=") for t in head):
        return None
    dims = []
    while head and head[-1].text == "]":
        d = 0
        k = len(head) - 1
        while k >= 0:
            if head[k].text == "]":
                d += 1
            elif head[k].text == "[":
                d -= 1
                if d == 0:
                    break
            k -= 1
        if k < 0:
            return None
        dims.insert(0, head[k + 1:-1])
        head = head[:k]
    if len(head) < 2 or head[-1].kind != "id":
        return None
    rest = head[:-1]
    if not all(t.kind == "id" or t.text == "*" for t in rest) or not any(t.kind == "id" for t in rest):
        return None
    if rest[0].text == "*" or rest[-1].text in ("return", "goto", "case", "else", "sizeof"):
        return None
    if len(_split_top(ts, ",")) > 1:
        raise ExtractFail(where, "declaration with several declarators: " + toks_text(ts)[:80])
    quals = {t.text for t in rest if t.text in STORAGE}
    ptr = sum(1 for t in rest if t.text == "*")
    ptr_const = False
    if ptr:
        last_star = max(i for i, t in enumerate(rest) if t.text == "*")
        ptr_const = any(t.text == "const" for t in rest[last_star + 1:])
        # for a pointer, `const` before the `*` qualifies the pointee
    ty = " ".join(t.text for t in rest if t.kind == "id" and t.text not in STORAGE)
    init = None
    if len(parts) > 1:
        rhs = ts[len(parts[0]) + 1:]
        if rhs and rhs[0].text == "{":
            raise ExtractFail(where, "aggregate initialiser: " + toks_text(ts)[:80])
        init = parse_expr(rhs, where, typedefs)
    return Decl(quals, ty, ptr, head[-1].text, [parse_expr(d, where, typedefs) for d in dims], init, ts[0].line, ptr_const)


class _StmtParser:
    def __init__(self, toks, where, typedefs):
        self.toks, self.where, self.typedefs, self.n = toks, where, typedefs, len(toks)

    def simple(self, i):
        toks = self.toks
        d = 0
        k = i
        while k < self.n:
            x = toks[k].text
            if x in "([{":
                d += 1
            elif x in ")]}":
                d -= 1
            elif x == ";" and d == 0:
                return toks[i:k], k + 1
            k += 1
        raise ExtractFail(self.where, "statement without ; near " + toks_text(toks[i:i + 6]))

    def expr(self, ts):
        return parse_expr(ts, self.where, self.typedefs)

    def simple_stmt(self, ts):
        if not ts:
            return None
        if ts[0].text == "goto":
            raise ExtractFail(self.where, "goto")
        d = _try_decl(ts, self.where, self.typedefs)
        if d is not None:
            return ("decl", d)
        return ("expr", self.expr(ts))

    @staticmethod
    def body_of(s):
        if s is None:
            return []
        return s[1] if s[0] == "block" else [s]

    def stmt(self, i):
        """one statement starting at token i → (tree | None for the empty statement, next index)"""
        toks, where, n = self.toks, self.where, self.n
        t = toks[i]
        if t.text == "{":
            e = _matching(toks, i, "{", "}", where)
            return ("block", parse_stmts(toks[i + 1:e], where, self.typedefs)), e + 1
        if t.text == "if":
            if toks[i + 1].text != "(":
                raise ExtractFail(where, "if without (")
            e = _matching(toks, i + 1, "(", ")", where)
            cond = self.expr(toks[i + 2:e])
            th, j = self.stmt(e + 1)
            el = None
            if j < n and toks[j].text == "else":
                x, j = self.stmt(j + 1)
                el = self.body_of(x)
            return ("if", cond, self.body_of(th), el), j
        if t.text == "for":
            e = _matching(toks, i + 1, "(", ")", where)
            parts = _split_top(toks[i + 2:e], ";")
            if len(parts) != 3:
                raise ExtractFail(where, "for header is not (init; cond; step)")
            init = [self.simple_stmt(p) for p in _split_top(parts[0], ",") if p]
            step = [("expr", self.expr(p)) for p in _split_top(parts[2], ",") if p]
            cond = self.expr(parts[1]) if parts[1] else None
            b, j = self.stmt(e + 1)
            return ("loop", init, cond, step, self.body_of(b)), j
        if t.text == "while":
            e = _matching(toks, i + 1, "(", ")", where)
            b, j = self.stmt(e + 1)
            return ("loop", [], self.expr(toks[i + 2:e]), [], self.body_of(b)), j
        if t.text == "do":
            b, j = self.stmt(i + 1)
            if toks[j].text != "while":
                raise ExtractFail(where, "do without while")
            e = _matching(toks, j + 1, "(", ")", where)
            if toks[e + 1].text != ";":
                raise ExtractFail(where, "do-while without ;")
            return ("do", self.body_of(b), self.expr(toks[j + 2:e])), e + 2
        if t.text == "switch":
            e = _matching(toks, i + 1, "(", ")", where)
            if toks[e + 1].text != "{":
                raise ExtractFail(where, "switch without {")
            e2 = _matching(toks, e + 1, "{", "}", where)
            return ("switch", self.expr(toks[i + 2:e]), _switch_groups(toks[e + 2:e2], where, self.typedefs)), e2 + 1
        if t.text in ("break", "continue") and i + 1 < n and toks[i + 1].text == ";":
            return (t.text,), i + 2
        if t.text == "return":
            ts, j = self.simple(i)
            return ("return", self.expr(ts[1:]) if len(ts) > 1 else None), j
        if t.text in ("case", "default", "else"):
            raise ExtractFail(where, f"misplaced `{t.text}`")
        ts, j = self.simple(i)
        return self.simple_stmt(ts), j


def parse_stmts(toks, where, typedefs=None):
    """token list of a function / block body → statement trees:
       ('decl', Decl) ('expr', e) ('if', c, then, else|None) ('switch', e, [(labels, body)]) ('loop', init, cond|None, step, body)
       ('do', body, cond) ('block', body) ('break',) ('continue',) ('return', e|None); bodies are statement lists."""
    sp = _StmtParser(toks, where, typedefs)
    out = []
    i = 0
    while i < sp.n:
        s, i = sp.stmt(i)
        if s is not None:
            out.append(s)
    return out


def _switch_groups(toks, where, typedefs):
    """body of a switch → [(labels, statements)]; a label is an expression or 'default'"""
    sp = _StmtParser(toks, where, typedefs)
    groups = []
    labels, body = [], []
    i = 0
    n = len(toks)
    while i < n:
        t = toks[i]
        if t.text in ("case", "default"):
            k = i
            d = 0
            while k < n and not (toks[k].text == ":" and d == 0):
                if toks[k].text in "([":
                    d += 1
                elif toks[k].text in ")]":
                    d -= 1
                elif toks[k].text == "?":
                    raise ExtractFail(where, "conditional expression in a case label")
                k += 1
            if k >= n:
                raise ExtractFail(where, "case label without :")
            if body:
                groups.append((labels, body))
                labels, body = [], []
            labels.append("default" if t.text == "default" else parse_expr(toks[i + 1:k], where, typedefs))
            i = k + 1
            continue
        if not labels:
            raise ExtractFail(where, "statement before the first case label")
        s, i = sp.stmt(i)
        if s is not None:
            body.append(s)
    if labels or body:
        groups.append((labels, body))
    return groups


def flatten_blocks(stmts):
    """splice nested blocks that declare nothing (scoping is then irrelevant)"""
    out = []
    for s in stmts:
        if s[0] == "block" and not any(x[0] == "decl" for x in s[1]):
            out += flatten_blocks(s[1])
        elif s[0] == "block":
            out.append(("block", flatten_blocks(s[1])))
        else:
            out.append(s)
    return out


def walk(stmts):
    """every statement, depth first"""
    for s in stmts:
        yield s
        k = s[0]
        if k == "if":
            yield from walk(s[2])
            if s[3]:
                yield from walk(s[3])
        elif k == "loop":
            yield from walk(s[1])
            yield from walk(s[3])
            yield from walk(s[4])
        elif k == "do":
            yield from walk(s[1])
        elif k == "block":
            yield from walk(s[1])
        elif k == "switch":
            for _, b in s[2]:
                yield from walk(b)


def stmt_exprs(s):
    """the expressions a statement evaluates itself (not those of nested statements)"""
    k = s[0]
    if k == "decl":
        return list(s[1].dims) + ([s[1].init] if s[1].init is not None else [])
    if k == "expr":
        return [s[1]]
    if k == "if":
        return [s[1]]
    if k == "switch":
        return [s[1]] + [l for labs, _ in s[2] for l in labs if l != "default"]
    if k == "loop":
        return [s[2]] if s[2] is not None else []
    if k == "do":
        return [s[2]]
    if k == "return":
        return [s[1]] if s[1] is not None else []
    return []


# ----------------------------------------------------------------------------- expression utilities

def children(e):
    if isinstance(e, (Var, IntLit, FloatLit, SizeofT)):
        return []
    if isinstance(e, (Cast, Un, AddrOf, Deref)):
        return [e.e]
    if isinstance(e, Bin):
        return [e.a, e.b]
    if isinstance(e, Cond):
        return [e.c, e.a, e.b]
    if isinstance(e, Call):
        return list(e.args)
    if isinstance(e, Comma):
        return [e.a, e.b]
    if isinstance(e, Index):
        return [e.a, e.i]
    if isinstance(e, Member):
        return [e.e]
    if isinstance(e, AssignE):
        return [e.lhs, e.rhs]
    raise ExtractFail("csem", f"unknown expression node {type(e).__name__}")


def subexprs(e):
    yield e
    for c in children(e):
        yield from subexprs(c)


def rebuild(e, f):
    """copy of e with f applied to every child (f maps expression → expression)"""
    if isinstance(e, (Var, IntLit, FloatLit, SizeofT)):
        return e
    if isinstance(e, Cast):
        c = Cast(e.ty, f(e.e))
        c.ptr = getattr(e, "ptr", 0)
        return c
    if isinstance(e, Un):
        return Un(e.op, f(e.e))
    if isinstance(e, AddrOf):
        return AddrOf(f(e.e))
    if isinstance(e, Deref):
        return Deref(e.ty, f(e.e))
    if isinstance(e, Bin):
        return Bin(e.op, f(e.a), f(e.b))
    if isinstance(e, Cond):
        return Cond(f(e.c), f(e.a), f(e.b))
    if isinstance(e, Call):
        return Call(e.f, [f(a) for a in e.args])
    if isinstance(e, Comma):
        return Comma(f(e.a), f(e.b))
    if isinstance(e, Index):
        return Index(f(e.a), f(e.i))
    if isinstance(e, Member):
        return Member(f(e.e), e.name, e.arrow)
    if isinstance(e, AssignE):
        return AssignE(e.op, f(e.lhs), f(e.rhs))
    raise ExtractFail("csem", f"unknown expression node {type(e).__name__}")


def subst(e, env):
    """replace variables by the expressions env gives them"""
    if isinstance(e, Var):
        return env.get(e.n, e)
    return rebuild(e, lambda c: subst(c, env))


def free_vars(e):
    return {x.n for x in subexprs(e) if isinstance(x, Var) and not x.n.startswith('"')}


def is_pure(e, pure_calls=()):
    """no assignment and no call other than the transparent wrappers / the given pure functions"""
    for x in subexprs(e):
        if isinstance(x, (AssignE, Comma)):
            return False
        if isinstance(x, Call) and x.f not in TRANSPARENT_CALLS and x.f not in pure_calls:
            return False
    return True


def strip(e, casts=True):
    """look through transparent wrappers, redundant parentheses (already gone) and — when asked — casts"""
    while True:
        if isinstance(e, Call) and e.f in TRANSPARENT_CALLS and len(e.args) == 1:
            e = e.args[0]
        elif casts and isinstance(e, Cast):
            e = e.e
        else:
            break
    return rebuild(e, lambda c: strip(c, casts))


def int_value(e):
    """value of an integer-literal expression (through transparent wrappers, casts and unary minus), else None"""
    e = strip(e)
    if isinstance(e, IntLit):
        return e.value
    if isinstance(e, Un) and e.op == "neg":
        v = int_value(e.e)
        return None if v is None else -v
    if isinstance(e, Var) and e.n in NULLS:
        return 0
    if isinstance(e, Var) and e.n in ("true", "false"):
        return 1 if e.n == "true" else 0
    return None


def key(e, casts=True):
    """canonical text of an expression: literals by value, commutative operands sorted, `a > b` written `b < a`,
    transparent wrappers (and casts unless casts=False) dropped"""
    e = strip(e, casts)
    v = int_value(e) if not isinstance(e, (Var,)) or e.n in NULLS or e.n in ("true", "false") else None
    if isinstance(e, IntLit) or (v is not None and isinstance(e, (Un, Var))):
        return str(v)
    if isinstance(e, Var):
        return e.n
    if isinstance(e, FloatLit):
        return f"float:{e.ty}:{e.bits:#x}"
    if isinstance(e, Cast):
        return f"({e.ty}{'*' * getattr(e, 'ptr', 0)}){key(e.e, casts)}"
    if isinstance(e, Un):
        return f"{e.op}({key(e.e, casts)})"
    if isinstance(e, Bin):
        a, b, op = key(e.a, casts), key(e.b, casts), e.op
        if op in ("gt", "ge"):
            a, b, op = b, a, FLIP[op]
        elif op in COMMUTATIVE and b < a:
            a, b = b, a
        return f"{op}({a},{b})"
    if isinstance(e, Cond):
        return f"cond({key(e.c, casts)},{key(e.a, casts)},{key(e.b, casts)})"
    if isinstance(e, Call):
        return f"{e.f}({','.join(key(a, casts) for a in e.args)})"
    if isinstance(e, Index):
        return f"{key(e.a, casts)}[{key(e.i, casts)}]"
    if isinstance(e, Member):
        return f"{key(e.e, casts)}{'->' if e.arrow else '.'}{e.name}"
    if isinstance(e, AddrOf):
        return f"&{key(e.e, casts)}"
    if isinstance(e, Deref):
        return f"*{key(e.e, casts)}"
    if isinstance(e, AssignE):
        return f"{key(e.lhs, casts)}{e.op}{key(e.rhs, casts)}"
    if isinstance(e, SizeofT):
        return f"sizeof({e.ty})"
    if isinstance(e, Comma):
        return f"{key(e.a, casts)},{key(e.b, casts)}"
    raise ExtractFail("csem", f"unknown expression node {type(e).__name__}")


# ----------------------------------------------------------------------------- boolean normal form

class BAtom:
    """an atomic truth value: `lhs OP rhs` (op in CMPS) or, with op None, `lhs != 0`"""
    def __init__(self, op, a, b=None):
        self.op, self.a, self.b = op, a, b


class BOp:
    def __init__(self, op, items):
        self.op, self.items = op, items     # 'and' | 'or'


class BConst:
    def __init__(self, v):
        self.v = v


def truth(e, neg=False):
    """negation normal form of e read as a truth value: tree of BOp('and'|'or') over BAtom / BConst.
    `!x`, `x == 0`, `x == NULL`, `x != 0`, bare `x` all meet in the same atoms."""
    e = strip(e, casts=False)
    if isinstance(e, Cast) and e.ty in ("u8", "i32", "u32") and not getattr(e, "ptr", 0) and isinstance(strip(e.e, False), (Bin, Un)) \
            and (strip(e.e, False).op in CMPS | {"land", "lor", "lnot"}):
        return truth(e.e, neg)              # (bool)(a && b): a 0/1 value keeps its truth through an integer cast
    if isinstance(e, Un) and e.op == "lnot":
        return truth(e.e, not neg)
    if isinstance(e, Bin) and e.op in ("land", "lor"):
        op = "and" if (e.op == "land") != neg else "or"
        items = []
        for x in (truth(e.a, neg), truth(e.b, neg)):
            items += x.items if isinstance(x, BOp) and x.op == op else [x]
        return BOp(op, items)
    if isinstance(e, Bin) and e.op in CMPS:
        va, vb = int_value(e.a), int_value(e.b)
        if e.op in ("eq", "ne") and (va == 0 or vb == 0) and not (va == 0 and vb == 0):
            other = e.b if va == 0 else e.a
            so = strip(other, casts=False)
            # `x == 0` is `!x`: recurse when x is itself a truth-valued expression, else an atom on x
            if isinstance(so, (Un, Bin)) and (getattr(so, "op", None) in CMPS | {"land", "lor", "lnot"}):
                return truth(other, neg != (e.op == "eq"))
            return BAtom("ne" if (e.op == "ne") != neg else "eq", other, IntLit(0, "i32"))
        op = NEGATE[e.op] if neg else e.op
        a, b = e.a, e.b
        if va is not None and vb is None:       # constant on the right
            a, b, op = b, a, FLIP[op]
        return BAtom(op, a, b)
    v = int_value(e)
    if v is not None:
        return BConst((v != 0) != neg)
    return BAtom("eq" if neg else "ne", e, IntLit(0, "i32"))


def bkey(b):
    if isinstance(b, BConst):
        return "T" if b.v else "F"
    if isinstance(b, BAtom):
        return f"{b.op}({key(b.a)},{key(b.b)})"
    return f"{b.op}[{','.join(sorted(bkey(x) for x in b.items))}]"


# ----------------------------------------------------------------------------- statement normal forms

def as_increment(e):
    """(variable, delta) when e is `v += k`, `v -= k`, `v = v + k`, `v = k + v`, `v = v - k` (k a literal), else None"""
    if not (isinstance(e, AssignE) and isinstance(e.lhs, Var)):
        return None
    v = e.lhs.n
    if e.op in ("+=", "-="):
        k = int_value(e.rhs)
        return None if k is None else (v, k if e.op == "+=" else -k)
    if e.op == "=" and isinstance(e.rhs, Bin) and e.rhs.op in ("add", "sub"):
        a, b = e.rhs.a, e.rhs.b
        if isinstance(a, Var) and a.n == v and int_value(b) is not None:
            return (v, int_value(b) if e.rhs.op == "add" else -int_value(b))
        if e.rhs.op == "add" and isinstance(b, Var) and b.n == v and int_value(a) is not None:
            return (v, int_value(a))
    return None


def has_jump(stmts, which, through_loops=False):
    """does the statement list contain a `break` / `continue` that belongs to the ENCLOSING loop?"""
    for s in stmts:
        k = s[0]
        if k == which:
            return True
        if k == "if" and (has_jump(s[2], which, through_loops) or (s[3] and has_jump(s[3], which, through_loops))):
            return True
        if k == "block" and has_jump(s[1], which, through_loops):
            return True
        if k == "switch":
            if which == "continue" and any(has_jump(b, which, through_loops) for _, b in s[2]):
                return True
        if k in ("loop", "do") and through_loops:
            return True
    return False


def switch_to_if(s, where):
    """('switch', scrutinee, groups) → the equivalent ('if', …) chain (or a plain statement list when only `default` exists).
    Accepted: every non-final group ends in break / continue / return (no fall-through out of a non-empty body), no other
    `break` inside a group, side-effect-free scrutinee."""
    _, scrut, groups = s
    if not is_pure(scrut):
        raise ExtractFail(where, "switch scrutinee with side effects")
    default = None
    arms = []
    for gi, (labels, body) in enumerate(groups):
        body = flatten_blocks(body)
        last = gi == len(groups) - 1

        def close(body):
            """(body without its final `break`, does control leave the switch at its end?) — looking into a final `{ … }`"""
            if body and body[-1][0] == "break":
                return body[:-1], True
            if body and body[-1][0] in ("continue", "return"):
                return body, True
            if body and body[-1][0] == "expr" and isinstance(body[-1][1], Call) and body[-1][1].f in ("abort", "exit"):
                return body, True
            if body and body[-1][0] == "block":
                inner, ok = close(body[-1][1])
                return body[:-1] + [("block", inner)], ok
            return body, False
        body, leaves = close(body)
        if not leaves and not last:
            raise ExtractFail(where, "switch group falls through into the next one")
        if has_jump(body, "break"):
            raise ExtractFail(where, "`break` nested inside a switch group")
        if "default" in labels:
            if default is not None:
                raise ExtractFail(where, "two default labels")
            default = body
        else:
            cond = None
            for l in labels:
                c = Bin("eq", scrut, l)
                cond = c if cond is None else Bin("lor", cond, c)
            arms.append((cond, body))
    vals = [key(l) for labels, _ in groups for l in labels if l != "default"]
    if len(set(vals)) != len(vals):
        raise ExtractFail(where, "duplicate case label")
    out = default
    for cond, body in reversed(arms):
        out = [("if", cond, body, out)]
    return out if out is not None else []


def lower(stmts, where):
    """normal form of a statement list: blocks without declarations spliced, `switch` → if chain, `x = c ? a : b` → if/else,
    `while` whose body ends in an increment (and has no `continue`) → loop with that increment as its step"""
    out = []
    for s in flatten_blocks(stmts):
        k = s[0]
        if k == "switch":
            out += lower(switch_to_if(s, where), where)
        elif k == "if":
            out.append(("if", s[1], lower(s[2], where), lower(s[3], where) if s[3] is not None else None))
        elif k == "block":
            out.append(("block", lower(s[1], where)))
        elif k == "loop":
            init, cond, step, body = lower(s[1], where), s[2], list(s[3]), lower(s[4], where)
            if not step and body and body[-1][0] == "expr" and as_increment(body[-1][1]) and not has_jump(body, "continue"):
                step, body = [body[-1]], body[:-1]
            out.append(("loop", init, cond, step, body))
        elif k == "do":
            out.append(("do", lower(s[1], where), s[2]))
        elif k == "expr" and isinstance(s[1], AssignE) and s[1].op == "=" and isinstance(s[1].rhs, Cond) and isinstance(s[1].lhs, Var):
            c = s[1].rhs
            out.append(("if", c.c, [("expr", AssignE("=", s[1].lhs, c.a))], [("expr", AssignE("=", s[1].lhs, c.b))]))
        else:
            out.append(s)
    return out


# ----------------------------------------------------------------------------- data flow: what never changes

def assigned_vars(stmts):
    """names that are assigned, incremented or have their address taken anywhere in stmts (declarations not counted)"""
    res = set()
    for s in walk(stmts):
        for e in stmt_exprs(s):
            for x in subexprs(e):
                if isinstance(x, AssignE):
                    b = x.lhs
                    while isinstance(b, (Index, Member)) and not (isinstance(b, Member) and b.arrow):
                        b = b.a if isinstance(b, Index) else b.e
                    if isinstance(b, Var):
                        res.add(b.n)
                elif isinstance(x, AddrOf):
                    b = x.e
                    while isinstance(b, (Index, Member)):
                        b = b.a if isinstance(b, Index) else b.e
                    if isinstance(b, Var):
                        res.add(b.n)
    return res


def declared(stmts):
    return {s[1].name: s[1] for s in walk(stmts) if s[0] == "decl"}


def constant_env(stmts, params=(), pure_calls=(), extra=None):
    """copy-propagation environment of a function body: every `const` object, and every local that is initialised at its
    declaration and never assigned / incremented / address-taken afterwards, whose initialiser is pure and only mentions
    things that never change (parameters that are never assigned, other such objects, literals)."""
    changed = assigned_vars(stmts)
    decls = declared(stmts)
    names = [s[1].name for s in walk(stmts) if s[0] == "decl"]
    if len(set(names)) != len(names):
        dup = sorted({n for n in names if names.count(n) > 1})
        # shadowing / re-declaration in sibling blocks: those names are not propagated
    else:
        dup = []
    env = dict(extra or {})
    stable = {p for p in params if p not in changed}
    progress = True
    while progress:
        progress = False
        for n in names:
            d = decls[n]
            if n in env or n in dup or d.init is None or d.dims or n in changed and not d.is_const:
                continue
            if not is_pure(d.init, pure_calls):
                continue
            init = subst(d.init, env)
            if all(v in stable or v in env or v in NULLS or v in ("true", "false") or v.isupper() or (v[0].isupper() and "_" in v)
                   for v in free_vars(init)):
                env[n] = init
                progress = True
    return env


def inline_calls(e, funcs, where, typedefs=None, depth=0):
    """replace calls of helpers whose body is `return expr;` (after copy propagation of their own const temporaries) by that
    expression with the arguments substituted for the parameters (arguments must be pure)"""
    if depth > 4:
        raise ExtractFail(where, "helper inlining too deep")

    def f(x):
        x = rebuild(x, f)
        if isinstance(x, Call) and x.f in funcs:
            fd = funcs[x.f]
            ps = [p[-1].text for p in split_params(fd.params) if p and p[-1].kind == "id" and not (len(p) == 1 and p[0].text == "void")]
            body = lower(parse_stmts(fd.body_toks, f"{where}/{x.f}", typedefs), where)
            env = constant_env(body, ps)
            rest = [s for s in body if not (s[0] == "decl" and s[1].name in env)]
            if len(rest) == 1 and rest[0][0] == "return" and rest[0][1] is not None and len(ps) == len(x.args) \
                    and all(is_pure(a) for a in x.args):
                r = subst(subst(rest[0][1], env), dict(zip(ps, x.args)))
                return inline_calls(r, funcs, where, typedefs, depth + 1)
        return x
    return f(e)


def param_names(fd):
    """parameter names of a cfront.FuncDef, in order"""
    out = []
    for p in split_params(fd.params):
        if len(p) == 1 and p[0].text == "void":
            continue
        q = list(p)
        while q and q[-1].text == "]":
            k = max(i for i, t in enumerate(q) if t.text == "[")
            q = q[:k]
        if not q or q[-1].kind != "id":
            raise ExtractFail(fd.name, "parameter without a name")
        out.append(q[-1].text)
    return out


def param_types(fd):
    """parameter name → (type words without qualifiers, pointer depth)"""
    out = {}
    for p in split_params(fd.params):
        if len(p) == 1 and p[0].text == "void":
            continue
        q = list(p)
        arr = 0
        while q and q[-1].text == "]":
            k = max(i for i, t in enumerate(q) if t.text == "[")
            q = q[:k]
            arr += 1
        out[q[-1].text] = (" ".join(t.text for t in q[:-1] if t.kind == "id" and t.text not in STORAGE),
                           sum(1 for t in q[:-1] if t.text == "*") + arr)
    return out


def rename(toks, mapping, where):
    """token list with identifiers renamed (roles → the canonical names the shape patterns use); a canonical name that is
    already taken by ANOTHER identifier is a clash (ExtractFail), never silently merged"""
    targets = {v for k, v in mapping.items() if k != v}
    present = {t.text for t in toks if t.kind == "id"}
    for v in targets:
        if v in present and v not in mapping:
            raise ExtractFail(where, f"identifier `{v}` is used for something else than its usual role")
    out = []
    for i, t in enumerate(toks):
        if t.kind == "id" and t.text in mapping and not (i > 0 and toks[i - 1].text in (".", "->")):
            n = Tok("id", mapping[t.text], t.line, t.space)
            out.append(n)
        else:
            out.append(t)
    return out
