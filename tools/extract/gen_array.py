"""gen_array — regenerate lean/W2c2Verif/Gen/Array.lean from the growth computations of
/repo/w2c2/array.c (`arrayEnsureCapacitySlowPath`), array.h (`arrayEnsureCapacity`, the `ARRAY_TYPE`
EnsureCapacity/Append family) and stringbuilder.c (`stringBuilderEnsureCapacity`).

The functions are PARSED (tools/extract/cmini.py) and executed symbolically; what is emitted is the `GStmt` program that
(re)assigns the new capacity, over the ROLES `length`, `capacity`, `newCapacity`, `itemSize` (bound by parameter position /
by what is stored into the capacity field — never by a variable's name).  Everything around the growth statements (the
fast-path test, the assert, calloc vs. realloc and the byte size handed to realloc, the stores to `*items`/`*capacity`, what
Append does with the slot) must MEAN what the model `Model.Array` assumes, else the extractor stops with EXTRACT-FAIL (the
check treats that as a broken tie).

Behaviour-preserving rewrites that give the same generated file:
  * local / parameter names; `const`/`static` qualifiers; declaration position; comments; layout; extra braces
  * single-assignment `size_t` temporaries and named constants (`static const size_t k = 8;`, `#define K 8`): substituted
    (a temporary that mentions the new capacity is invalidated when the new capacity is reassigned; a temporary of another
    type is refused: its conversion could truncate)
  * integer literals by value (`1U` = `1` = `0x1`); literal-only subexpressions folded (`(4 * 2)` = `8`)
  * `+` and `*` operands in any order / association (size_t arithmetic is modulo 2^W: commutative and associative)
  * `x / 2^k` = `x >> k`: every operand here is a `size_t`, and for an UNSIGNED left operand C defines `E1 >> E2` as the
    integral part of E1 / 2^E2 (C90 6.3.7, C99 6.5.7p5).  `x * 2^k` and `x << k` stay distinct terms (the model evaluates both
    modulo 2^W anyway); `x / 3`, `x - y` are kept as written
  * `a < b` = `b > a`, `!(a < b)` = `a >= b`, `!p` = `p == NULL` = `p == 0` = `NULL == p`
  * `if (c) A else B` = `if (!c) B else A`; `x = c ? a : b;` = if/else assigning x; `MUST (e)` = `if (!(e)) return false;`
  * `if (fast) return true; return slow(..);` = `if (!fast) return slow(..); return true;` = `return fast || slow(..);`
  * value-preserving casts (`(size_t)` on a size_t, pointer casts on the allocation result / the items pointer)
  * `x++` = `++x` = `x += 1` = `x = x + 1` as statements; the two final stores in either order
What is NOT identified (different facts, the theorems decide): another operand, another operator, another comparison,
another guard, growth statements in another order, a missing assert / NULL check / store.
"""
import os
import re

import cmini as C

GEN_NAME = "Array"


class ExtractFail(Exception):
    pass


def _fail(what):
    raise ExtractFail("EXTRACT-FAIL gen_array: " + what)


def _need(m, what):
    if not m:
        _fail(what)
    return m


def _read(repo, name):
    return open(os.path.join(repo, "w2c2", name)).read()


def _src(repo, name):
    return C.subst_defines(C.strip_comments(_read(repo, name)))


# ---------------------------------------------------------------------------------- size_t expressions over roles

ROLE_KEY = {"length": 0, "lwn": 0, "capacity": 1, "newCapacity": 2, "itemSize": 3}
OPS = {"+": "add", "-": "sub", "*": "mul", "/": "div", ">>": "shr", "<<": "shl"}
INT_MAX = 2 ** 31 - 1


def _key(e):
    if len(e) == 1:
        return (ROLE_KEY[e[0]], "")
    if e[0] == "lit":
        return (4, "%020d" % e[1])
    return (5, repr(e))


def _flat(op, e):
    return _flat(op, e[1]) + _flat(op, e[2]) if e[0] == op else [e]


def _build(op, items):
    e = items[0]
    for x in items[1:]:
        e = (op, e, x)
    return e


def canon(e, abstract=None):
    """canonical form: see the module doc string.  `abstract` = (G, role): every occurrence of the canonical expression G — also as
    a sub-sum of a longer sum — is replaced by the role (stringbuilder.c: `lengthWithNull`)."""
    r = _canon(e, abstract)
    return abstract[1] if abstract is not None and r == abstract[0] else r


def _canon(e, abstract):
    if len(e) == 1 or e[0] == "lit":
        return e
    op, a, b = e[0], canon(e[1], abstract), canon(e[2], abstract)
    if a[0] == "lit" and b[0] == "lit":                 # literal-only: C int arithmetic, folded when it cannot overflow
        v = {"add": lambda: a[1] + b[1], "mul": lambda: a[1] * b[1], "sub": lambda: a[1] - b[1],
             "div": lambda: a[1] // b[1] if b[1] else None, "shr": lambda: a[1] >> b[1] if b[1] < 31 else None,
             "shl": lambda: a[1] << b[1] if b[1] < 31 else None}[op]()
        if v is not None and 0 <= v <= INT_MAX and a[1] <= INT_MAX and b[1] <= INT_MAX:
            return ("lit", v)
    if op == "div" and b[0] == "lit" and b[1] >= 2 and b[1] & (b[1] - 1) == 0:
        return ("shr", a, ("lit", b[1].bit_length() - 1))          # unsigned left operand (every role is a size_t)
    if op in ("add", "mul"):
        items = _flat(op, (op, a, b))
        if abstract is not None and op == "add":
            g_items, role = _flat("add", abstract[0]), abstract[1]
            rest = list(items)
            try:
                for g in g_items:
                    rest.remove(g)
                items = rest + [role]
            except ValueError:
                pass
        return _build(op, sorted(items, key=_key))
    return (op, a, b)


def _mentions(e, role):
    return e == (role,) or (len(e) == 3 and e[0] != "lit" and (_mentions(e[1], role) or _mentions(e[2], role)))


def _lean_expr(e):
    if e[0] == "lit":
        return f"(.lit {e[1]})"
    if len(e) == 1:
        return "." + e[0]
    return f"(.{e[0]} {_lean_expr(e[1])} {_lean_expr(e[2])})"


CMP = {"<": "lt", "<=": "le", ">": "gt", ">=": "ge", "==": "eq", "!=": "ne"}


class Sym:
    """symbolic values of the size_t locals of one function"""

    def __init__(self, where, leaf):
        self.where = where
        self.leaf = leaf            # C expression -> role expression | None   (parameters, `*capacity`, `sb->capacity`)
        self.env = {}               # temporary -> role expression | None (declared, not assigned yet)
        self.types = {}
        self.target = None          # the local that holds the new capacity
        self.target_set = False
        self.abstract = None

    def declare(self, ty, name, init):
        self.types[name] = ty
        if name == self.target:
            return
        if ty != "size_t":
            return                  # other locals (the pointer) are handled by the structure match; using one in arithmetic fails
        self.env[name] = None if init is None else self.value(init)

    def value(self, e):
        return canon(self._v(e), self.abstract)

    def _v(self, e):
        r = self.leaf(e)
        if r is not None:
            return r
        k = e[0]
        if k == "num":
            return ("lit", e[1])
        if k == "cast" and e[1] == "size_t":
            return self._v(e[2])                       # operands are size_t already: value preserving
        if k == "id":
            if e[1] == self.target:
                if not self.target_set:
                    _fail(f"{self.where}: the new capacity `{e[1]}` is read before it is assigned")
                return ("newCapacity",)
            if e[1] in self.env:
                if self.env[e[1]] is None:
                    _fail(f"{self.where}: `{e[1]}` is read before it is assigned (or after the value it was computed from changed)")
                return self.env[e[1]]
            if e[1] in self.types:
                _fail(f"{self.where}: `{e[1]}` of type {self.types[e[1]]} in size_t arithmetic (a conversion may change the value)")
            _fail(f"{self.where}: unknown operand `{e[1]}`")
        if k == "bin" and e[1] in OPS:
            return (OPS[e[1]], self._v(e[2]), self._v(e[3]))
        _fail(f"{self.where}: expression `{C.show(e)}` is outside the growth grammar")

    def cmp(self, cond):
        """normalised comparison (op, a, b), the operand with the smaller role key on the left"""
        c = C.norm_cond(cond)
        if c[0] != "cmp":
            _fail(f"{self.where}: condition `{C.show(cond)}` is not a comparison of size_t values")
        op, a, b = c[1], self.value(c[2]), self.value(c[3])
        if _key(a) > _key(b):
            op, a, b = C.FLIP[op], b, a
        return op, a, b

    def reassigned(self):
        """the new capacity changed: temporaries computed from its old value are stale"""
        for n, v in self.env.items():
            if v is not None and _mentions(v, "newCapacity"):
                self.env[n] = None

    def growth_stmt(self, s, out):
        """consume one statement of the growth part; False if `s` is not one"""
        if s[0] == "decl":
            if s[2] == self.target:
                self.types[s[2]] = s[1]
                if s[1] != "size_t":
                    _fail(f"{self.where}: the new capacity `{s[2]}` has type {s[1]}, not size_t")
                if s[3] is not None:
                    v = self.value(s[3])
                    self.target_set = True
                    if v != ("lit", 0) or out:
                        out.append(f".assign {_lean_expr(v)}")
                return True
            self.declare(s[1], s[2], s[3])
            return True
        if s[0] == "assign" and s[1][0] == "id" and s[2] == "=":
            n = s[1][1]
            if n == self.target:
                v = self.value(s[3])
                self.target_set = True
                self.reassigned()
                out.append(f".assign {_lean_expr(v)}")
                return True
            if n in self.env:
                self.env[n] = self.value(s[3])
                return True
            return False
        if s[0] == "if" and s[3] is None and len(s[2]) == 1 and s[2][0][0] == "assign" and s[2][0][1] == ("id", self.target) \
                and s[2][0][2] == "=":
            op, a, b = self.cmp(s[1])
            v = self.value(s[2][0][3])
            self.target_set = True          # model: the local starts at 0 (checked at its declaration)
            self.reassigned()
            out.append(f".ifAssign .{CMP[op]} {_lean_expr(a)} {_lean_expr(b)} {_lean_expr(v)}")
            return True
        return False


def _is_deref(e, name):
    return e == ("un", "*", ("id", name))


def _ptr_local_assign(s, ptrs):
    """`p = <call>` / `void* p = <call>` with p a pointer local -> (p, call expr) else None"""
    if s[0] == "assign" and s[1][0] == "id" and s[2] == "=" and s[1][1] in ptrs:
        return s[1][1], C.strip_casts(s[3])
    return None


def _call(e, fname, nargs):
    return e[0] == "call" and e[1] == ("id", fname) and len(e[2]) == nargs


# ---------------------------------------------------------------------------------- array.c: the slow path

def slow_path(repo):
    where = "array.c arrayEnsureCapacitySlowPath"
    src = _src(repo, "array.c")
    try:
        params, body = C.parse_function(src, "arrayEnsureCapacitySlowPath", where)
    except C.ParseFail as e:
        _fail(str(e))
    if [t for t, _n in params] != ["void**", "size_t", "size_t*", "size_t"]:
        _fail(f"{where}: parameter types {[t for t, _n in params]} (expected void**, size_t, size_t*, size_t)")
    p_items, p_len, p_cap, p_isz = [n for _t, n in params]
    if not C.must_macro_ok(_read(repo, "w2c2_base.h")):
        _fail("w2c2_base.h: MUST(x) is no longer `if (!(x)) return false;`")
    body = C.normalize(body)

    def leaf(e):
        if e == ("id", p_len):
            return ("length",)
        if e == ("id", p_isz):
            return ("itemSize",)
        if _is_deref(e, p_cap):
            return ("capacity",)
        return None
    sym = Sym(where, leaf)
    # the new capacity is what is stored into *capacity (exactly one such store, at the top level, a plain local)
    stores = [s for s in body if s[0] == "assign" and _is_deref(s[1], p_cap)]
    if len(stores) != 1 or stores[0][2] != "=" or stores[0][3][0] != "id":
        _fail(f"{where}: expected exactly one store `*{p_cap} = <local>;` at the top level of the function")
    sym.target = stores[0][3][1]
    ptrs = set(s[2] for s in body if s[0] == "decl" and s[1].endswith("*"))
    i = 0
    n = len(body)
    growth = []
    asserted = False
    # --- declarations, the assert, the growth statements
    while i < n:
        s = body[i]
        if s[0] == "expr" and _call(s[1], "assert", 1):
            if growth:
                _fail(f"{where}: the assert comes after the first growth statement")
            if sym.cmp(s[1][2][0]) != (">", ("length",), ("capacity",)):
                _fail(f"{where}: the assertion is no longer `length > *capacity`")
            asserted = True
        elif s[0] == "decl" and s[1].endswith("*"):
            if s[3] is not None and not C.is_null(s[3]):
                break
        elif not sym.growth_stmt(s, growth):
            break
        i += 1
    if not asserted:
        _fail(f"{where}: assert(length > *capacity) not found before the growth statements")
    if not growth:
        _fail(f"{where}: no assignment to the new capacity `{sym.target}`")
    # --- calloc when *items == NULL, realloc(*items, bytes) otherwise
    if i >= n or body[i][0] != "if" or body[i][3] is None:
        _fail(f"{where}: after the growth statements the allocation `if (*items == NULL) calloc else realloc` is expected, "
              f"found `{body[i][0] if i < n else 'end of function'}`")
    c = C.norm_cond(C.strip_casts(body[i][1]))
    if c[0] not in ("isnull", "notnull") or not _is_deref(c[1], p_items):
        _fail(f"{where}: the allocation is not selected by `*{p_items} == NULL`")
    first, other = (body[i][2], body[i][3]) if c[0] == "isnull" else (body[i][3], body[i][2])
    def branch(stmts):
        """size_t temporaries, then the one assignment of the allocation result"""
        for s_ in stmts[:-1]:
            if not (s_[0] in ("decl", "assign") and not (s_[0] == "assign" and s_[1] == ("id", sym.target)) and sym.growth_stmt(s_, [])):
                return None
        return _ptr_local_assign(stmts[-1], ptrs) if stmts else None
    a1 = branch(first)
    a2 = branch(other)
    if not a1 or not a2 or a1[0] != a2[0]:
        _fail(f"{where}: both allocation branches must assign the same pointer local")
    ptr = a1[0]
    if not _call(a1[1], "calloc", 2) or sorted(map(sym.value, a1[1][2]), key=_key) != [("newCapacity",), ("itemSize",)]:
        _fail(f"{where}: the NULL branch is not calloc(newCapacity, itemSize)")
    if not _call(a2[1], "realloc", 2) or not _is_deref(a2[1][2][0], p_items):
        _fail(f"{where}: the non-NULL branch is not realloc(*items, bytes)")
    realloc = sym.value(a2[1][2][1])
    i += 1
    # --- NULL check
    if i >= n or body[i][0] != "if" or body[i][3] is not None or C.norm_cond(body[i][1]) != ("isnull", ("id", ptr)) \
            or len(body[i][2]) != 1 or body[i][2][0][0] != "return" or not C.is_false(body[i][2][0][1] or ("id", "?")):
        _fail(f"{where}: `if ({ptr} == NULL) return false;` expected after the allocation")
    i += 1
    # --- the two stores, either order; return true
    seen = set()
    while i < n and body[i][0] == "assign" and body[i][2] == "=":
        s = body[i]
        if _is_deref(s[1], p_items) and C.strip_casts(s[3]) == ("id", ptr):
            seen.add("items")
        elif _is_deref(s[1], p_cap) and s[3] == ("id", sym.target):
            seen.add("capacity")
        else:
            break
        i += 1
    if seen != {"items", "capacity"}:
        _fail(f"{where}: the stores `*items = <new block>; *capacity = <new capacity>;` are not both present after the NULL check")
    if i != n - 1 or body[i][0] != "return" or body[i][1] is None or not C.is_true(body[i][1]):
        _fail(f"{where}: the function must end with `return true;` right after the stores")
    return growth, _lean_expr(realloc)


# ---------------------------------------------------------------------------------- array.h: fast path, ARRAY_TYPE

def _fast_path_fn(src):
    where = "array.h arrayEnsureCapacity"
    try:
        params, body = C.parse_function(src, "arrayEnsureCapacity", where)
    except C.ParseFail as e:
        _fail(str(e))
    if [t for t, _n in params] != ["void**", "size_t", "size_t*", "size_t"]:
        _fail(f"{where}: parameter types {[t for t, _n in params]}")
    p_items, p_len, p_cap, p_isz = [n for _t, n in params]
    body = [s for s in C.normalize(body)]

    def leaf(e):
        if e == ("id", p_len):
            return ("length",)
        if _is_deref(e, p_cap):
            return ("capacity",)
        return None
    sym = Sym(where, leaf)
    slow = ("call", ("id", "arrayEnsureCapacitySlowPath"), [("id", p_items), ("id", p_len), ("id", p_cap), ("id", p_isz)])

    def ret(s, pred):
        return s[0] == "return" and s[1] is not None and pred(s[1])
    ok = False
    if len(body) == 2 and body[0][0] == "if" and body[0][3] is None and len(body[0][2]) == 1:
        inner = body[0][2][0]
        c = sym.cmp(body[0][1])
        if c == ("<=", ("length",), ("capacity",)) and ret(inner, C.is_true) and ret(body[1], lambda e: e == slow):
            ok = True
        if c == (">", ("length",), ("capacity",)) and ret(inner, lambda e: e == slow) and ret(body[1], C.is_true):
            ok = True
    elif len(body) == 1 and body[0][0] == "if" and body[0][3] is not None and len(body[0][2]) == 1 and len(body[0][3]) == 1:
        c = sym.cmp(body[0][1])
        t, f = body[0][2][0], body[0][3][0]
        if c == (">", ("length",), ("capacity",)):
            c, t, f = ("<=", ("length",), ("capacity",)), f, t
        ok = c == ("<=", ("length",), ("capacity",)) and ret(t, C.is_true) and ret(f, lambda e: e == slow)
    elif len(body) == 1 and body[0][0] == "return" and body[0][1] is not None:
        e = body[0][1]
        if e[0] == "bin" and e[1] == "||" and e[3] == slow:
            ok = sym.cmp(e[2]) == ("<=", ("length",), ("capacity",))
        elif e[0] == "cond":
            c = sym.cmp(e[1])
            ok = (c == ("<=", ("length",), ("capacity",)) and C.is_true(e[2]) and e[3] == slow) or \
                 (c == (">", ("length",), ("capacity",)) and e[2] == slow and C.is_true(e[3]))
    if not ok:
        _fail("array.h: arrayEnsureCapacity is no longer `if (length <= *capacity) return true; return slow path(items, length, capacity, itemSize)`")


def _array_type_macro(raw):
    """-> (parameter names, body text) of `#define ARRAY_TYPE(...)` with `A ## B` pasted to A__B"""
    txt = C.strip_comments(raw)
    m = _need(re.search(r"#[ \t]*define[ \t]+ARRAY_TYPE\(([^)]*)\)((?:[^\n]*\\\n)*[^\n]*)", txt), "array.h: #define ARRAY_TYPE not found")
    params = [p.strip() for p in m.group(1).split(",")]
    if len(params) != 5:
        _fail(f"array.h: ARRAY_TYPE has {len(params)} parameters (expected NAME, TYPE, INSTANCE, ITEMS, ITEM)")
    body = m.group(2).replace("\\\n", "\n")
    body = re.sub(r"(\w+)\s*##\s*(\w+)", r"\1__\2", body)
    return params, body


def fast_path(repo):
    raw = _read(repo, "array.h")
    _fast_path_fn(C.subst_defines(C.strip_comments(raw)))
    (NAME, TYPE, INST, ITEMS, ITEM), mb = _array_type_macro(raw)
    # the struct: size_t length; size_t capacity; TYPE* ITEMS;  (any order)
    m = _need(re.search(r"typedef\s+struct\s+" + NAME + r"\s*\{([^}]*)\}\s*" + NAME + r"\s*;", mb), "array.h: ARRAY_TYPE struct")
    fields = sorted(re.sub(r"\s+", " ", f).strip().replace(" *", "*").replace("* ", "*") for f in m.group(1).split(";") if f.strip())
    if fields != sorted(["size_t length", "size_t capacity", f"{TYPE}*{ITEMS}"]):
        _fail(f"array.h: ARRAY_TYPE struct fields are {fields}")
    types = (NAME, TYPE)
    # --- EnsureCapacity wrapper
    where = "array.h ARRAY_TYPE EnsureCapacity"
    try:
        params, body = C.parse_function(mb, f"{INST}__EnsureCapacity", where, types)
        body = C.normalize(body)
        if [t for t, _n in params] != [NAME + "*", "size_t"]:
            _fail(f"{where}: parameter types {[t for t, _n in params]}")
        inst, ln = [n for _t, n in params]
        want = ("call", ("id", "arrayEnsureCapacity"),
                [("un", "&", ("member", ("id", inst), ITEMS)), ("id", ln), ("un", "&", ("member", ("id", inst), "capacity")), ("sizeof", TYPE)])
        if len(body) != 1 or body[0][0] != "return" or body[0][1] is None or C.strip_casts(body[0][1]) != want:
            _fail(f"{where}: is no longer `return arrayEnsureCapacity((void**)&INSTANCE->ITEMS, length, &INSTANCE->capacity, sizeof(TYPE))`")
        # --- Append
        where = "array.h ARRAY_TYPE Append"
        params, body = C.parse_function(mb, f"{INST}__Append", where, types)
        body = C.normalize(body)
    except C.ParseFail as e:
        _fail(str(e))
    if [t for t, _n in params] != [NAME + "*", TYPE]:
        _fail(f"{where}: parameter types {[t for t, _n in params]}")
    inst, item = [n for _t, n in params]
    cell = {"length": ("length",)}          # INSTANCE->length: symbolic L, rewritten by the store

    def leaf(e):
        if e == ("member", ("id", inst), "length"):
            return cell["length"]
        return None
    sym = Sym(where, leaf)
    one = canon(("add", ("length",), ("lit", 1)))
    ensured = stored = bumped = False
    for k, s in enumerate(body):
        if s[0] == "decl" and s[1] == "size_t":
            sym.declare(s[1], s[2], s[3])
        elif s[0] == "assign" and s[1][0] == "id" and s[1][1] in sym.env and s[2] == "=":
            sym.env[s[1][1]] = sym.value(s[3])
        elif s[0] == "if" and s[3] is None and not ensured:
            c = C.norm_cond(s[1])
            call = c[1] if c[0] == "isnull" else None
            if not (call and _call(call, f"{INST}__EnsureCapacity", 2) and call[2][0] == ("id", inst) and sym.value(call[2][1]) == one
                    and len(s[2]) == 1 and s[2][0][0] == "return" and s[2][0][1] is not None and C.is_false(s[2][0][1])) or stored or bumped:
                _fail(f"{where}: `MUST (EnsureCapacity(INSTANCE, length + 1))` expected before the stores")
            ensured = True
        elif s[0] == "assign" and s[2] == "=" and s[1][0] == "index" and s[1][1] == ("member", ("id", inst), ITEMS):
            if not ensured or stored or sym.value(s[1][2]) != (("length",) if not bumped else None) or s[3] != ("id", item):
                _fail(f"{where}: the element store is no longer `INSTANCE->ITEMS[old length] = ITEM` after the reservation")
            stored = True
        elif s[0] == "assign" and s[2] == "=" and s[1] == ("member", ("id", inst), "length"):
            if not ensured or bumped or sym.value(s[3]) != one:
                _fail(f"{where}: the length store is no longer `INSTANCE->length = old length + 1` after the reservation")
            bumped = True
            if not stored:
                # the element store that follows must still address the OLD length: only through a temporary computed before
                cell["length"] = None
        elif s[0] == "return" and k == len(body) - 1 and s[1] is not None and C.is_true(s[1]):
            pass
        else:
            _fail(f"{where}: unexpected statement `{s[0]}` (Append = reserve length+1; items[length] = item; length = length+1; return true)")
    if not (ensured and stored and bumped) or body[-1][0] != "return":
        _fail(f"{where}: Append no longer reserves, stores the item and bumps the length")
    users = []
    for f in sorted(os.listdir(os.path.join(repo, "w2c2"))):
        if f.endswith(".h") and f != "array.h":
            for mm in re.finditer(r"ARRAY_TYPE\(\s*(\w+),", _read(repo, f)):
                users.append(mm.group(1))
    return users


# ---------------------------------------------------------------------------------- stringbuilder.c

def string_builder(repo):
    where = "stringbuilder.c stringBuilderEnsureCapacity"
    src = _src(repo, "stringbuilder.c")
    try:
        params, body = C.parse_function(src, "stringBuilderEnsureCapacity", where, ("StringBuilder",))
    except C.ParseFail as e:
        _fail(str(e))
    if [t for t, _n in params] != ["StringBuilder*", "size_t"]:
        _fail(f"{where}: parameter types {[t for t, _n in params]}")
    sb, p_len = [n for _t, n in params]
    body = C.normalize(body)
    cap_c = ("member", ("id", sb), "capacity")
    str_c = ("member", ("id", sb), "string")

    def leaf(e):
        if e == ("id", p_len):
            return ("length",)
        if e == cap_c:
            return ("capacity",)
        return None
    sym = Sym(where, leaf)
    if not body or body[-1][0] != "return" or body[-1][1] is None or not C.is_true(body[-1][1]):
        _fail(f"{where}: the function must end with `return true;`")
    body = body[:-1]
    # leading temporaries (lengthWithNull), then the guard
    i = 0
    while i < len(body) and body[i][0] in ("decl", "assign") and sym.growth_stmt(body[i], []):
        i += 1
    if i >= len(body) or body[i][0] != "if" or body[i][3] is not None:
        _fail(f"{where}: the guard `if (length + 1 > capacity)` is expected")
    guard = body[i]
    if len(guard[2]) == 1 and guard[2][0][0] == "return" and guard[2][0][1] is not None and C.is_true(guard[2][0][1]):
        # early return: `if (lengthWithNull <= capacity) return true; <grow>`
        op, a, b = sym.cmp(("un", "!", guard[1]))
        inner = body[i + 1:]
    else:
        if i != len(body) - 1:
            _fail(f"{where}: statements after the growth block")
        op, a, b = sym.cmp(guard[1])
        inner = guard[2]
    # orientation: the capacity role has key 1; G is the other side
    if a == ("capacity",) and op == "<":
        G = b
    elif b == ("capacity",) and op == ">":
        G = a
    else:
        _fail(f"{where}: the guard is no longer `<requested length incl. NUL> > capacity`")
    if _mentions(G, "capacity") or not _mentions(G, "length"):
        _fail(f"{where}: the guarded length `{G}` must be computed from `length` alone")
    with_null = _lean_expr(G)
    # inside: growth over G (`.length` of the generated program stands for G), realloc, NULL check, two stores
    sym.abstract = (G, ("lwn",)) if G != ("length",) else None
    for nme, v in list(sym.env.items()):
        if v is not None:
            sym.env[nme] = canon(v, sym.abstract)
    stores = [s for s in inner if s[0] == "assign" and s[1] == cap_c]
    if len(stores) != 1 or stores[0][2] != "=" or stores[0][3][0] != "id":
        _fail(f"{where}: expected exactly one store `stringBuilder->capacity = <local>;` in the growth block")
    sym.target = stores[0][3][1]
    growth = []
    j = 0
    while j < len(inner) and not (inner[j][0] == "decl" and inner[j][1].endswith("*")) and sym.growth_stmt(inner[j], growth):
        j += 1
    if not growth:
        _fail(f"{where}: no assignment to the new capacity `{sym.target}`")
    ptr = None
    if j < len(inner) and inner[j][0] == "decl" and inner[j][1].endswith("*"):
        ptr = inner[j][2]
        call = C.strip_casts(inner[j][3]) if inner[j][3] is not None else None
        if call is None or C.is_null(call):
            j += 1
            a1 = _ptr_local_assign(inner[j], {ptr}) if j < len(inner) else None
            call = a1[1] if a1 else None
    else:
        ptrs = set(s[2] for s in body[:i] if s[0] == "decl" and s[1].endswith("*"))
        a1 = _ptr_local_assign(inner[j], ptrs) if j < len(inner) else None
        ptr, call = a1 if a1 else (None, None)
    if not call or not _call(call, "realloc", 2) or call[2][0] != str_c:
        _fail(f"{where}: `realloc(stringBuilder->string, newCapacity)` expected after the growth statements")
    size_e = sym.value(call[2][1])
    j += 1
    if j >= len(inner) or inner[j][0] != "if" or inner[j][3] is not None or C.norm_cond(inner[j][1]) != ("isnull", ("id", ptr)) \
            or len(inner[j][2]) != 1 or inner[j][2][0][0] != "return" or inner[j][2][0][1] is None or not C.is_false(inner[j][2][0][1]):
        _fail(f"{where}: `MUST ({ptr} != NULL)` expected after realloc")
    j += 1
    seen = set()
    while j < len(inner) and inner[j][0] == "assign" and inner[j][2] == "=":
        s = inner[j]
        if s[1] == str_c and C.strip_casts(s[3]) == ("id", ptr):
            seen.add("string")
        elif s[1] == cap_c and s[3] == ("id", sym.target):
            seen.add("capacity")
        else:
            break
        j += 1
    if seen != {"string", "capacity"} or j != len(inner):
        _fail(f"{where}: the growth block must end with the stores `->string = <new block>; ->capacity = <new capacity>;`")
    size_txt = _lean_expr(size_e)
    if sym.abstract is not None:
        # `.length` of the generated growth program stands for the guarded length G: the raw parameter must not occur next to it
        if any(".length" in t for t in growth + [size_txt]):
            _fail(f"{where}: the growth block uses the raw `length` parameter next to the guarded length")
        growth = [t.replace(".lwn", ".length") for t in growth]
        size_txt = size_txt.replace(".lwn", ".length")
    return with_null, growth, size_txt


def generate(repo):
    growth, realloc = slow_path(repo)
    users = fast_path(repo)
    sb_len, sb_growth, sb_size = string_builder(repo)
    L = []
    A = L.append
    A("-- GENERATED by tools/extract/gen_array.py from /repo/w2c2/{array.c,array.h,stringbuilder.c} — do not edit.")
    A("namespace W2c2Verif.Gen.Array")
    A("")
    A("/-- `size_t` expressions of the capacity computations -/")
    A("inductive GExpr\n  | length | capacity | newCapacity | itemSize\n  | lit (n : Nat)\n  | add (a b : GExpr) | sub (a b : GExpr) | mul (a b : GExpr) | div (a b : GExpr)\n  | shr (a b : GExpr) | shl (a b : GExpr)\n  deriving Repr, DecidableEq")
    A("inductive GCmp | lt | le | gt | ge | eq | ne\n  deriving Repr, DecidableEq")
    A("/-- `newCapacity = e;`  or  `if (a cmp b) { newCapacity = e; }` -/")
    A("inductive GStmt\n  | assign (e : GExpr)\n  | ifAssign (c : GCmp) (a b : GExpr) (e : GExpr)\n  deriving Repr, DecidableEq")
    A("")
    A("/-- array.c `arrayEnsureCapacitySlowPath`: the statements between `assert(length > *capacity)` and the allocation -/")
    A("def slowPathGrowth : List GStmt := [" + ", ".join(growth) + "]")
    A("/-- the byte count handed to `realloc` (the `calloc` branch passes `newCapacity, itemSize` separately) -/")
    A(f"def slowPathReallocBytes : GExpr := {realloc}")
    A("/-- array.h: every `ARRAY_TYPE` instance (EnsureCapacity = fast path `length <= *capacity`, else the slow path;")
    A("    Append = EnsureCapacity(length + 1), `items[length] = item`, `length = length + 1`) -/")
    A("def arrayTypes : List String := [" + ", ".join('"%s"' % u for u in users) + "]")
    A("")
    A("/-- stringbuilder.c `stringBuilderEnsureCapacity`: `lengthWithNull` in terms of `length` … -/")
    A(f"def stringBuilderLengthWithNull : GExpr := {sb_len}")
    A("/-- … and, when `lengthWithNull > capacity`, the new capacity (here `.length` stands for `lengthWithNull`) and realloc size -/")
    A("def stringBuilderGrowth : List GStmt := [" + ", ".join(sb_growth) + "]")
    A(f"def stringBuilderReallocBytes : GExpr := {sb_size}")
    A("")
    A("end W2c2Verif.Gen.Array")
    return "\n".join(L) + "\n"


if __name__ == "__main__":
    import sys
    print(generate(sys.argv[1] if len(sys.argv) > 1 else "/repo"))
