"""gen_array — regenerate lean/W2c2Verif/Gen/Array.lean from the growth computations of
/repo/w2c2/array.c (`arrayEnsureCapacitySlowPath`), array.h (`arrayEnsureCapacity`, the `ARRAY_TYPE`
EnsureCapacity/Append family) and stringbuilder.c (`stringBuilderEnsureCapacity`).

The statements that compute the new capacity are parsed (a small expression grammar over `length`, `*capacity`,
`newCapacity`, `itemSize`, integer literals, + - * / >> <<, and guarded re-assignments
`if (a <cmp> b) { newCapacity = e; }`) and emitted as a `GStmt` program; everything around them (the fast-path test,
the assert, calloc vs. realloc and the byte size handed to realloc, the stores to `*items`/`*capacity`, what Append
does with the slot) must have exactly the shape the model `Model.Array` assumes, else the extractor stops with
EXTRACT-FAIL (the check treats that as a broken tie).
"""
import os
import re

GEN_NAME = "Array"


class ExtractFail(Exception):
    pass


def _read(repo, name):
    return open(os.path.join(repo, "w2c2", name)).read()


def _strip(src):
    src = re.sub(r"/\*.*?\*/", " ", src, flags=re.S)
    src = re.sub(r"\\\n", " ", src)          # macro continuation lines
    return re.sub(r"\s+", " ", src)


def _need(m, what):
    if not m:
        raise ExtractFail("EXTRACT-FAIL gen_array: " + what)
    return m


# ---------------------------------------------------------------------------------- expressions

class _P:
    """Recursive-descent parser for the size_t expressions of the growth code."""

    PREC = [("<<", ">>"), ("+", "-"), ("*", "/")]          # lowest first

    def __init__(self, text, names, where):
        # operands written with a dereference (`*capacity`) are replaced by a plain identifier first, so that a
        # remaining `*` is always the multiplication
        names = dict(names)
        for k in [k for k in names if k.startswith("*")]:
            ident = "DEREF_" + k[1:]
            text = re.sub(r"(?<![\w)])\s*\*\s*" + re.escape(k[1:]) + r"\b", " " + ident, " " + text).strip()
            names[ident] = names.pop(k)
        self.toks = re.findall(r"0x[0-9a-fA-F]+[uUlL]*|\d+[uUlL]*|[A-Za-z_][\w]*(?:->\w+)?|<<|>>|[()+\-*/]", text)
        if "".join(self.toks).replace(" ", "") != text.replace(" ", ""):
            raise ExtractFail(f"EXTRACT-FAIL gen_array: cannot tokenise `{text}` in {where}")
        self.i = 0
        self.names = names
        self.where = where

    def peek(self):
        return self.toks[self.i] if self.i < len(self.toks) else None

    def take(self):
        t = self.peek()
        self.i += 1
        return t

    def parse(self):
        e = self.level(0)
        if self.peek() is not None:
            raise ExtractFail(f"EXTRACT-FAIL gen_array: trailing `{self.peek()}` in expression ({self.where})")
        return e

    def level(self, k):
        if k == len(self.PREC):
            return self.atom()
        e = self.level(k + 1)
        while self.peek() in self.PREC[k]:
            op = self.take()
            r = self.level(k + 1)
            e = ({"+": "add", "-": "sub", "*": "mul", "/": "div", ">>": "shr", "<<": "shl"}[op], e, r)
        return e

    def atom(self):
        t = self.take()
        if t is None:
            raise ExtractFail(f"EXTRACT-FAIL gen_array: unexpected end of expression ({self.where})")
        if t == "(":
            e = self.level(0)
            if self.take() != ")":
                raise ExtractFail(f"EXTRACT-FAIL gen_array: missing `)` ({self.where})")
            return e
        if re.match(r"^\d|^0x", t):
            t2 = t.rstrip("uUlL")
            return ("lit", int(t2, 16) if t2.lower().startswith("0x") else int(t2))
        key = t.replace(" ", "")
        if key in self.names:
            return (self.names[key],)
        raise ExtractFail(f"EXTRACT-FAIL gen_array: unknown operand `{t}` ({self.where})")


def _lean_expr(e):
    if e[0] == "lit":
        return f"(.lit {e[1]})"
    if len(e) == 1:
        return "." + e[0]
    return f"(.{e[0]} {_lean_expr(e[1])} {_lean_expr(e[2])})"


CMP = {"<": "lt", "<=": "le", ">": "gt", ">=": "ge", "==": "eq", "!=": "ne"}


def _parse_growth(text, names, target, where):
    """`text`: statements that (re)assign `target`.  Returns [GStmt as Lean text]."""
    out = []
    pos = 0
    text = text.strip()
    while pos < len(text):
        rest = text[pos:]
        m = re.match(r"(?:const size_t )?" + re.escape(target) + r" = ([^;{}]+); ?", rest)
        if m:
            out.append(f".assign {_lean_expr(_P(m.group(1).strip(), names, where).parse())}")
            pos += m.end()
            continue
        m = re.match(r"if \(([^(){}]+?) (<=|>=|==|!=|<|>) ([^(){}]+?)\) \{ " + re.escape(target) + r" = ([^;{}]+); \} ?", rest)
        if m:
            a = _P(m.group(1).strip(), names, where).parse()
            b = _P(m.group(3).strip(), names, where).parse()
            e = _P(m.group(4).strip(), names, where).parse()
            out.append(f".ifAssign .{CMP[m.group(2)]} {_lean_expr(a)} {_lean_expr(b)} {_lean_expr(e)}")
            pos += m.end()
            continue
        raise ExtractFail(f"EXTRACT-FAIL gen_array: statement not in the growth grammar near `{rest[:70]}` ({where})")
    if not out:
        raise ExtractFail(f"EXTRACT-FAIL gen_array: no assignment to {target} ({where})")
    return out


# ---------------------------------------------------------------------------------- the three sources

def slow_path(repo):
    src = _strip(_read(repo, "array.c"))
    m = _need(re.search(r"bool arrayEnsureCapacitySlowPath\( void\*\* items, const size_t length, size_t\* capacity, const size_t itemSize \) \{ (.*?) \} *$", src),
              "array.c: signature of arrayEnsureCapacitySlowPath")
    body = m.group(1)
    m = _need(re.match(r"size_t newCapacity = 0; void\* newItems = NULL; assert\(length > \*capacity\); (.*?) "
                       r"if \(\*items == NULL\) \{ newItems = calloc\(newCapacity, itemSize\); \} else \{ newItems = realloc\(\*items, (.*?)\); \} "
                       r"if \(newItems == NULL\) \{ return false; \} \*items = newItems; \*capacity = newCapacity; return true;$", body),
              "array.c: arrayEnsureCapacitySlowPath no longer has the shape locals / assert(length > *capacity) / growth / "
              "calloc-or-realloc / NULL check / stores / return true")
    names = {"length": "length", "*capacity": "capacity", "newCapacity": "newCapacity", "itemSize": "itemSize"}
    growth = _parse_growth(m.group(1), names, "newCapacity", "array.c arrayEnsureCapacitySlowPath")
    realloc = _lean_expr(_P(m.group(2).strip(), names, "array.c realloc size").parse())
    return growth, realloc


def fast_path(repo):
    src = _strip(_read(repo, "array.h"))
    _need(re.search(r"bool arrayEnsureCapacity\( void\*\* items, const size_t length, size_t\* capacity, const size_t itemSize \) \{ "
                    r"if \(length <= \*capacity\) \{ return true; \} return arrayEnsureCapacitySlowPath\(items, length, capacity, itemSize\); \}", src),
          "array.h: arrayEnsureCapacity is no longer `if (length <= *capacity) return true; return slow path`")
    _need(re.search(r"INSTANCE ## EnsureCapacity\( NAME\* INSTANCE, size_t length \) \{ return arrayEnsureCapacity\( \(void\*\*\)&INSTANCE->ITEMS, length, "
                    r"&INSTANCE->capacity, sizeof\(TYPE\) \); \}", src),
          "array.h: ARRAY_TYPE EnsureCapacity wrapper")
    _need(re.search(r"INSTANCE ## Append\( NAME\* INSTANCE, TYPE ITEM \) \{ const size_t length = INSTANCE->length; const size_t newLength = length \+ 1; "
                    r"MUST \(INSTANCE ## EnsureCapacity\(INSTANCE, newLength\)\) INSTANCE->ITEMS\[length\] = ITEM; INSTANCE->length = newLength; return true; \}", src),
          "array.h: ARRAY_TYPE Append is no longer ensure(length+1); items[length] = item; length = length+1")
    users = []
    for f in sorted(os.listdir(os.path.join(repo, "w2c2"))):
        if f.endswith(".h") and f != "array.h":
            for mm in re.finditer(r"ARRAY_TYPE\(\s*(\w+),", _read(repo, f)):
                users.append(mm.group(1))
    return users


def string_builder(repo):
    src = _strip(_read(repo, "stringbuilder.c"))
    m = _need(re.search(r"stringBuilderEnsureCapacity\( StringBuilder\* stringBuilder, const size_t length \) \{ "
                        r"const size_t lengthWithNull = (.*?); if \(lengthWithNull > stringBuilder->capacity\) \{ (.*?) "
                        r"void\* newString = realloc\(stringBuilder->string, (.*?)\); MUST \(newString != NULL\) "
                        r"stringBuilder->string = \(char\*\) newString; stringBuilder->capacity = newCapacity; \} return true; \}", src),
              "stringbuilder.c: stringBuilderEnsureCapacity shape")
    names0 = {"length": "length"}
    with_null = _lean_expr(_P(m.group(1).strip(), names0, "stringbuilder.c lengthWithNull").parse())
    names = {"lengthWithNull": "length", "stringBuilder->capacity": "capacity", "newCapacity": "newCapacity"}
    growth = _parse_growth(m.group(2), names, "newCapacity", "stringbuilder.c stringBuilderEnsureCapacity")
    size = _lean_expr(_P(m.group(3).strip(), names, "stringbuilder.c realloc size").parse())
    return with_null, growth, size


def generate(repo):
    growth, realloc = slow_path(repo)
    users = fast_path(repo)
    sb_len, sb_growth, sb_size = string_builder(repo)
    L = []
    A = L.append
    A("-- GENERATED by tools/extract/gen_array.py from /repo/w2c2/{array.c,array.h,stringbuilder.c} — do not edit.")
    A("namespace W2c2Verif.Gen.Array")
    A("")
    A("/-- `size_t` expressions of the capacity computations -/")
    A("inductive GExpr\n  | length | capacity | newCapacity | itemSize\n  | lit (n : Nat)\n  | add (a b : GExpr) | sub (a b : GExpr) | mul (a b : GExpr) | div (a b : GExpr)\n  | shr (a b : GExpr) | shl (a b : GExpr)\n  deriving Repr, DecidableEq")
    A("inductive GCmp | lt | le | gt | ge | eq | ne\n  deriving Repr, DecidableEq")
    A("/-- `newCapacity = e;`  or  `if (a cmp b) { newCapacity = e; }` -/")
    A("inductive GStmt\n  | assign (e : GExpr)\n  | ifAssign (c : GCmp) (a b : GExpr) (e : GExpr)\n  deriving Repr, DecidableEq")
    A("")
    A("/-- array.c `arrayEnsureCapacitySlowPath`: the statements between `assert(length > *capacity)` and the allocation -/")
    A("def slowPathGrowth : List GStmt := [" + ", ".join(growth) + "]")
    A("/-- the byte count handed to `realloc` (the `calloc` branch passes `newCapacity, itemSize` separately) -/")
    A(f"def slowPathReallocBytes : GExpr := {realloc}")
    A("/-- array.h: every `ARRAY_TYPE` instance (EnsureCapacity = fast path `length <= *capacity`, else the slow path;")
    A("    Append = EnsureCapacity(length + 1), `items[length] = item`, `length = length + 1`) -/")
    A("def arrayTypes : List String := [" + ", ".join('"%s"' % u for u in users) + "]")
    A("")
    A("/-- stringbuilder.c `stringBuilderEnsureCapacity`: `lengthWithNull` in terms of `length` … -/")
    A(f"def stringBuilderLengthWithNull : GExpr := {sb_len}")
    A("/-- … and, when `lengthWithNull > capacity`, the new capacity (here `.length` stands for `lengthWithNull`) and realloc size -/")
    A("def stringBuilderGrowth : List GStmt := [" + ", ".join(sb_growth) + "]")
    A(f"def stringBuilderReallocBytes : GExpr := {sb_size}")
    A("")
    A("end W2c2Verif.Gen.Array")
    return "\n".join(L) + "\n"


if __name__ == "__main__":
    import sys
    print(generate(sys.argv[1] if len(sys.argv) > 1 else "/repo"))
