"""gen_implwriter — regenerate lean/W2c2Verif/Gen/ImplWriter.lean: the bounds within which c.c reads the function-ID list
it is handed (C10: no out-of-bounds read for any option combination; C09: each list is written exactly once).

  wasmCWriteImplementationFile          `const U32 functionCount = <E>;`  <E> is classified: the LENGTH OF THE LIST it was
                                        given (`(U32)functionIDs.length`) or the module's function count
                                        (`module->functions.count`); then (shape-checked, ExtractFail otherwise)
                                        `U32 end = start + (U32)functionsPerFile; if (end > functionCount) end = functionCount;`
                                        `if (start > end) return true;` and the call
                                        wasmCWriteFunctionImplementations(…, start, end, functionIDs, …)
  wasmCWriteFunctionImplementations     `for (i = startIDIndex; i < endIDIndex; i++)` reading `functionIDs.functionIDs[i]` and
                                        nothing else of the list
  wasmCWriteModuleImplementation        single-file call: range `0 .. (U32)staticFunctionIDs.length` of staticFunctionIDs
  wasmCWriteModuleImplementationFiles   `functionCount = functionIDs.length` (file count) — the list's own length again

With -r REFERENCE the static and the dynamic list are both shorter than the module's function count, so a bound taken from
the module over-reads the list (seeded change C10/5).
"""
import os
import re

GEN_NAME = "ImplWriter"


class ExtractFail(Exception):
    pass


def _need(c, what):
    if not c:
        raise ExtractFail("EXTRACT-FAIL gen_implwriter: " + what)
    return c


def _function(src, name):
    m = _need(re.search(r"\n" + re.escape(name) + r"\s*\(", src), f"{name} not found")
    i = src.index("{", _need(re.compile(r"\)\s*\{").search(src, m.end()), f"{name}: no body").start())
    d, k = 0, i
    while k < len(src):
        if src[k] == "{":
            d += 1
        elif src[k] == "}":
            d -= 1
            if d == 0:
                return re.sub(r"\s+", "", src[i + 1:k])
        k += 1
    raise ExtractFail(f"EXTRACT-FAIL gen_implwriter: {name}: unbalanced braces")


BOUNDS = {"(U32)functionIDs.length": "idsLength", "functionIDs.length": "idsLength",
          "module->functions.count": "moduleFunctionCount", "(U32)module->functions.count": "moduleFunctionCount"}


def generate(repo):
    src = open(os.path.join(repo, "w2c2", "c.c")).read()
    src = re.sub(r"/\*.*?\*/", " ", src, flags=re.S)
    f = _function(src, "wasmCWriteImplementationFile")
    m = _need(re.search(r"constU32functionCount=([^;]+);", f), "wasmCWriteImplementationFile: `const U32 functionCount = …;` not found")
    ctext = m.group(1)
    bound = _need(BOUNDS.get(ctext), f"wasmCWriteImplementationFile: functionCount = `{ctext}` is neither the list length nor the module's function count")
    _need(re.search(r"U32endFunctionIDIndex=startFunctionIDIndex\+\(U32\)functionsPerFile;"
                    r"if\(endFunctionIDIndex>functionCount\)\{endFunctionIDIndex=functionCount;\}"
                    r"if\(startFunctionIDIndex>endFunctionIDIndex\)\{returntrue;\}", f),
          "wasmCWriteImplementationFile: end-index computation has an unexpected shape")
    _need(re.search(r"wasmCWriteFunctionImplementations\(file,module,moduleName,debugLines,startFunctionIDIndex,endFunctionIDIndex,functionIDs,", f),
          "wasmCWriteImplementationFile: call of wasmCWriteFunctionImplementations has an unexpected shape")
    _need(len(re.findall(r"functionIDs\b", f.replace("WasmFunctionIDs", ""))) == (2 if bound == "idsLength" else 1),
          "wasmCWriteImplementationFile: functionIDs is used in an unexpected place")
    g = _function(src, "wasmCWriteFunctionImplementations")
    _need(re.search(r"U32functionIDIndex=startIDIndex;for\(;functionIDIndex<endIDIndex;functionIDIndex\+\+\)\{"
                    r"constWasmFunctionIDfunctionID=functionIDs\.functionIDs\[functionIDIndex\];", g),
          "wasmCWriteFunctionImplementations: loop over the ID list has an unexpected shape")
    _need(len(re.findall(r"functionIDs\.", g)) == 1, "wasmCWriteFunctionImplementations: the ID list is read at more than one place")
    _need(len(re.findall(r"functionIDIndex", g)) == 4, "wasmCWriteFunctionImplementations: the loop index is used or changed at an unexpected place")
    h = _function(src, "wasmCWriteModuleImplementation")
    _need(re.search(r"wasmCWriteFunctionImplementations\(file,module,moduleName,&debugLines,0,\(U32\)staticFunctionIDs\.length,staticFunctionIDs,", h),
          "wasmCWriteModuleImplementation: single-file range is not 0 .. staticFunctionIDs.length of staticFunctionIDs")
    p = _function(src, "wasmCWriteModuleImplementationFiles")
    _need(re.search(r"constsize_tfunctionCount=functionIDs\.length;", p), "wasmCWriteModuleImplementationFiles: functionCount is not functionIDs.length")
    w = _function(src, "wasmCImplementationWriterThread")
    err_read = bool(re.search(r"if\(!result\)\{constWasmFunctionIDstartFunctionID=functionIDs\.functionIDs\[startFunctionIDIndex\];", w))
    _need(len(re.findall(r"functionIDs\.functionIDs\[", w)) == (1 if err_read else 0), "wasmCImplementationWriterThread reads the ID list at an unexpected place")
    L = []
    A = L.append
    A("/- GENERATED by tools/extract/gen_implwriter.py from /repo/w2c2/c.c — do not edit. -/")
    A("namespace W2c2Verif.Gen.ImplWriter")
    A("")
    A("/-- what wasmCWriteImplementationFile clamps the end index of its ID range to -/")
    A("inductive Bound")
    A("  | idsLength              -- the length of the ID list it was given")
    A("  | moduleFunctionCount    -- module->functions.count")
    A("  deriving DecidableEq, Repr")
    A("")
    A(f"def clampText : String := \"{ctext}\"     -- `const U32 functionCount = …;`")
    A(f"def clampBound : Bound := .{bound}")
    A("/-- shape-checked: `end = start + (U32)functionsPerFile` (U32), `if (end > functionCount) end = functionCount`,")
    A("    `if (start > end) return true`, then the loop `for (i = start; i < end; i++) functionIDs.functionIDs[i]` -/")
    A("def loopShapeChecked : Bool := true")
    A("/-- single-file output reads staticFunctionIDs at 0 .. staticFunctionIDs.length -/")
    A("def mainFileBound : Bound := .idsLength")
    A(f"/-- the worker's failure path reads functionIDs.functionIDs[startFunctionIDIndex] -/")
    A(f"def workerErrorPathReadsStart : Bool := {'true' if err_read else 'false'}")
    A("")
    A("end W2c2Verif.Gen.ImplWriter")
    return "\n".join(L) + "\n"
