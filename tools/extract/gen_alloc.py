"""gen_alloc — regenerate lean/W2c2Verif/Gen/Alloc.lean from /repo/w2c2/w2c2_base.h: WHICH allocator hands out the storage that
instantiation relies on being zero / null.

  * `wasmTableAllocate(table, size, maxSize)`: `table->data` = calloc(size, sizeof(wasmFunc)) (zeroed: slots not covered by an element
    segment are NULL) | malloc(size * sizeof(wasmFunc)) (whatever the heap held) | malloc + memset(…, 0, …) (zeroed);
    `table->size` = size, `table->maxSize` = maxSize.
  * `wasmMemoryAllocate`: `memory->data` = calloc(<bytes>, 1) | malloc(<bytes>) [+ memset 0]; the descriptor itself calloc(1, sizeof) | malloc.
Read on the normal form of tools/extract/cnorm.py (parameter and local names are free, statement order of independent field
assignments is free); any other statement raises ExtractFail (= broken tie).
"""
import os
import re

from cfront import ExtractFail
from gen_instantiate import strip_comments, function_body
import cnorm

GEN_NAME = "Alloc"
H = "w2c2/w2c2_base.h"


def params_of(src, fname, where):
    m = re.search(r"^%s\(([^)]*)\)" % re.escape(fname), src, re.M)
    if not m:
        raise ExtractFail(where, "%s not found" % fname)
    names = []
    for p in m.group(1).split(","):
        mm = re.search(r"([A-Za-z_]\w*)\s*$", p.strip())
        if not mm:
            raise ExtractFail(where, "parameter `%s`" % p.strip())
        names.append(mm.group(1))
    return names


def rename_params(body, names):
    for k, n in enumerate(names):
        body = re.sub(r"(?<![\w.>])%s(?!\w)" % re.escape(n), "P%d_" % k, body)
    return body


def classify(rhs, count_rx, where, what):
    """`(T*)calloc(n, size)` / `(T*)malloc(bytes)` -> 'calloc' | 'malloc'"""
    m = re.fullmatch(r"\(\w+\*\)calloc\((.+)\)", rhs)
    if m:
        return "calloc", m.group(1)
    m = re.fullmatch(r"\(\w+\*\)malloc\((.+)\)", rhs)
    if m:
        return "malloc", m.group(1)
    raise ExtractFail(where, "%s is obtained by `%s`" % (what, rhs[:60]))


def table_alloc(src):
    names = params_of(src, "wasmTableAllocate", H)
    if len(names) != 3:
        raise ExtractFail(H, "wasmTableAllocate(table, size, maxSize) expected")
    body, line = function_body(src, "wasmTableAllocate", H)
    where = "%s:%d" % (H, line)
    nodes = cnorm.normalize(rename_params(body, names), where)
    fields = {}
    zeroed_after = False
    for nd in nodes:
        if nd[0] != "do":
            raise ExtractFail(where, "wasmTableAllocate: `%s` statement" % nd[0])
        m = re.fullmatch(r"P0_->(\w+)=(.+)", nd[1])
        if m:
            if m.group(1) in fields:
                raise ExtractFail(where, "wasmTableAllocate assigns `%s` twice" % m.group(1))
            fields[m.group(1)] = m.group(2)
            continue
        if re.fullmatch(r"memset\(P0_->data,0,(P1_\*sizeof\(wasmFunc\)|sizeof\(wasmFunc\)\*P1_)\)", nd[1]) and "data" in fields:
            zeroed_after = True
            continue
        raise ExtractFail(where, "wasmTableAllocate: statement `%s` is outside the accepted shapes" % nd[1][:60])
    if fields.get("size") != "P1_" or fields.get("maxSize") != "P2_" or set(fields) != {"size", "maxSize", "data"}:
        raise ExtractFail(where, "wasmTableAllocate no longer sets size, maxSize and data from its parameters")
    kind, args = classify(fields["data"], None, where, "table->data")
    if kind == "calloc" and args not in ("P1_,sizeof(wasmFunc)", "sizeof(wasmFunc),P1_"):
        raise ExtractFail(where, "table->data is calloc(%s), not `size` slots" % args)
    if kind == "malloc" and args not in ("P1_*sizeof(wasmFunc)", "sizeof(wasmFunc)*P1_", "(P1_*sizeof(wasmFunc))"):
        raise ExtractFail(where, "table->data is malloc(%s), not `size` slots" % args)
    return "calloc" if kind == "calloc" else ("mallocThenZero" if zeroed_after else "malloc")


def memory_alloc(src):
    body, line = function_body(src, "wasmMemoryAllocate", H)
    where = "%s:%d" % (H, line)
    body = "\n".join(l for l in body.split("\n") if not l.strip().startswith("#"))      # both branches of the threads configuration
    nodes = cnorm.normalize(body, where)
    desc = data = None
    zero_data = False
    for nd in nodes:
        if nd[0] != "do":
            continue
        m = re.fullmatch(r"(\$v\d+)=(\(wasmMemory\*\)(?:calloc|malloc)\(.+\))", nd[1])
        if m:
            desc = (m.group(1), classify(m.group(2), None, where, "the memory descriptor"))
            continue
        if desc:
            m = re.fullmatch(re.escape(desc[0]) + r"->data=(\(U8\*\)(?:calloc|malloc)\(.+\))", nd[1])
            if m:
                if data is not None:
                    raise ExtractFail(where, "memory->data assigned twice")
                data = classify(m.group(1), None, where, "memory->data")
                continue
            if re.fullmatch(r"memset\(%s->data,0,.+\)" % re.escape(desc[0]), nd[1]) and data is not None:
                zero_data = True
    if desc is None or data is None:
        raise ExtractFail(where, "wasmMemoryAllocate: descriptor / data allocation not found")
    if desc[1][0] == "calloc" and desc[1][1] != "1,sizeof(wasmMemory)":
        raise ExtractFail(where, "the descriptor is calloc(%s)" % desc[1][1])
    if data[0] == "calloc" and not data[1].endswith(",1"):
        raise ExtractFail(where, "memory->data is calloc(%s), not <bytes> x 1" % data[1])
    return desc[1][0], ("calloc" if data[0] == "calloc" else ("mallocThenZero" if zero_data else "malloc"))


def generate(repo):
    src = strip_comments(open(os.path.join(repo, "w2c2", "w2c2_base.h")).read())
    t = table_alloc(src)
    d, md = memory_alloc(src)
    out = ["/- GENERATED by tools/extract/gen_alloc.py from w2c2/w2c2_base.h — do not edit. -/",
           "namespace W2c2Verif.Gen.Alloc",
           "",
           "/-- how a block is obtained: `calloc` (zero filled), `malloc` (whatever the heap held before), `malloc` followed by `memset(…, 0, …)` -/",
           "inductive Allocator | calloc | malloc | mallocThenZero",
           "  deriving DecidableEq, Repr, Inhabited",
           "",
           "/-- `wasmTableAllocate`: the `size` slots of `table->data` -/",
           "def tableData : Allocator := .%s" % t,
           "",
           "/-- `wasmMemoryAllocate`: the data block of a new memory -/",
           "def memoryData : Allocator := .%s" % md,
           "",
           "/-- `wasmMemoryAllocate`: the descriptor (fields not assigned explicitly: futex lists, …) -/",
           "def memoryDescriptor : Allocator := .%s" % d,
           "",
           "end W2c2Verif.Gen.Alloc"]
    return "\n".join(out) + "\n"


if __name__ == "__main__":
    import sys
    sys.stdout.write(generate(sys.argv[1] if len(sys.argv) > 1 else "/repo"))
