"""readernorm — canonical form of C function bodies, so that the reader extractors match MEANING, not spelling.
(owned by the C08/C10 reader component: gen_reader.py, gen_instr.py)

    canon(src_text_of_a_file, function_name, where) -> str      canonical one-line text of the function body
    canon_body(body_text, where) -> str
    param_names(src, function_name, where) -> [str]

The extractors run their patterns on this text.  Two bodies that differ only by one of the rewrites below have the
SAME canonical text, hence give the same extracted facts; anything the parser does not understand raises ExtractFail
(the tie is broken, nothing is guessed).

Rewrites unified (each is a C identity under the stated side condition):
  * comments, white space, redundant parentheses, redundant braces `{ { s } }`; every branch / loop body is a block;
  * integer literals by value (0x80 == 128, 1u == 1), unary minus on a literal folded;
  * `e == 0`, `0 == e` (also with `false` / `NULL` for 0)  ->  `!e`;   in a boolean context (condition of if / while / for / ?:, operand of ! && ||)
    `e != 0`, `0 != e` -> `e` and `!!e` -> `e`;   `!(a == b)` -> `a != b`, `!(a != b)` -> `a == b`;
  * `a > b` -> `b < a`, `a >= b` -> `b <= a`;  operands of + * & | ^ == != && || in a canonical order when both are
    free of side effects (no call, assignment, ++/--);
  * as statements `i++`, `++i`, `i = i + 1`, `i = 1 + i` -> `i += 1` (same with -);
  * `for (init; c; inc) body` -> `init; while (c) { body; inc; }` when body has no `continue` of that loop (otherwise it
    stays a `for` with the initialiser hoisted);
  * `if (!c) A else B` -> `if (c) B else A`;  `if (c) {} else B` -> `if (!c) B`;
  * `switch (s)` whose groups end in break / return / goto / continue (no fall-through into code) and an if / else-if
    chain comparing one side-effect-free scrutinee with distinct integer constants or enumerators are the same thing:
    canonical form is the switch with the groups ordered by their smallest label (by value when literal), `default` =
    final else, for two or more compared constants; with a single one it is the `if`;
  * `T x = e;` (typically `const`) with `e` free of side effects, `x` never assigned or address-taken afterwards, and no
    variable of `e` written before the last use of `x`: `x` is replaced by `e` (single-assignment temporaries);
  * `if (!e) { return false; }` -> `MUST (e)` (the macro of w2c2_base.h).
Local names are NOT renamed here: the extractors bind them with named groups and back-references (`vpat`).
"""
import re

from cfront import ExtractFail

TOKEN = re.compile(r"""
    (?P<ws>\s+)
  | (?P<num>(?:0[xX][0-9a-fA-F]+|\d+)(?:[uUlL]*))
  | (?P<id>[A-Za-z_]\w*)
  | (?P<str>"(?:[^"\\\n]|\\.)*")
  | (?P<chr>'(?:[^'\\\n]|\\.)+')
  | (?P<op><<=|>>=|\.\.\.|->|\+\+|--|<<|>>|<=|>=|==|!=|&&|\|\||\+=|-=|\*=|/=|%=|&=|\|=|\^=|[-+*/%<>=!~&|^?:;,.(){}\[\]\#])
""", re.X)

BASE_TYPES = {"int", "char", "long", "short", "float", "double", "void", "bool", "size_t", "unsigned", "signed", "FILE",
              "time_t", "ssize_t", "uintptr_t", "intptr_t"}
QUALS = {"const", "static", "volatile", "register", "struct", "enum", "union", "extern"}
KEYWORDS = {"if", "else", "switch", "case", "default", "while", "do", "for", "return", "break", "continue", "goto", "sizeof"}


def strip_comments(src):
    return re.sub(r"/\*.*?\*/|//[^\n]*", " ", src, flags=re.S)


def lex(text, where):
    toks = []
    pos = 0
    while pos < len(text):
        m = TOKEN.match(text, pos)
        if not m:
            raise ExtractFail(where, f"cannot tokenise `{text[pos:pos + 20]}`")
        pos = m.end()
        k = m.lastgroup
        if k == "ws":
            continue
        if m.group(0) == "#":
            raise ExtractFail(where, "preprocessor directive inside a function body")
        toks.append((k, m.group(0)))
    return toks


def is_type_name(t):
    k, s = t
    if k != "id" or s in KEYWORDS:
        return False
    return s in BASE_TYPES or re.fullmatch(r"[UIF]\d+", s) is not None or re.fullmatch(r"[A-Z][a-z]\w*", s) is not None


# --------------------------------------------------------------------------------------------------------- parser
BIN_PREC = [("||",), ("&&",), ("|",), ("^",), ("&",), ("==", "!="), ("<", ">", "<=", ">="), ("<<", ">>"), ("+", "-"), ("*", "/", "%")]
PREC_OF = {op: i for i, ops in enumerate(BIN_PREC) for op in ops}
ASSIGN_OPS = ("=", "+=", "-=", "*=", "/=", "%=", "&=", "|=", "^=", "<<=", ">>=")


class P(object):
    def __init__(self, toks, where):
        self.t, self.i, self.where = toks, 0, where

    def fail(self, why):
        ctx = " ".join(s for _, s in self.t[max(0, self.i - 4):self.i + 5])
        raise ExtractFail(self.where, f"{why} near `{ctx}`")

    def peek(self, k=0):
        return self.t[self.i + k][1] if self.i + k < len(self.t) else None

    def peekt(self, k=0):
        return self.t[self.i + k] if self.i + k < len(self.t) else (None, None)

    def eat(self, s=None):
        if self.i >= len(self.t):
            self.fail(f"unexpected end (wanted {s})")
        tok = self.t[self.i]
        if s is not None and tok[1] != s:
            self.fail(f"expected `{s}`")
        self.i += 1
        return tok

    # ---- types: returns canonical type text or None (position restored)
    def try_type(self):
        save = self.i
        words = []
        seen_name = False
        while True:
            k, s = self.peekt()
            if s in QUALS:
                words.append(s)
                self.i += 1
            elif not seen_name and is_type_name((k, s)):
                words.append(s)
                self.i += 1
                if s in ("unsigned", "signed", "long", "short"):
                    while self.peek() in ("int", "char", "long", "short"):
                        words.append(self.eat()[1])
                seen_name = True
            else:
                break
        if not seen_name:
            self.i = save
            return None
        ptr = ""
        while self.peek() == "*":
            self.i += 1
            ptr += "*"
            while self.peek() in ("const", "volatile"):
                ptr += " " + self.eat()[1]
        return " ".join(words) + ptr

    # ---- expressions
    def expr(self):
        e = self.assign()
        while self.peek() == ",":
            self.eat()
            e = ("comma", e, self.assign())
        return e

    def assign(self):
        lhs = self.cond()
        if self.peek() in ASSIGN_OPS:
            op = self.eat()[1]
            return ("assign", op, lhs, self.assign())
        return lhs

    def cond(self):
        c = self.binary(0)
        if self.peek() == "?":
            self.eat()
            a = self.expr()
            self.eat(":")
            return ("cond", c, a, self.cond())
        return c

    def binary(self, lvl):
        if lvl == len(BIN_PREC):
            return self.unary()
        e = self.binary(lvl + 1)
        while self.peek() in BIN_PREC[lvl]:
            op = self.eat()[1]
            e = ("bin", op, e, self.binary(lvl + 1))
        return e

    def unary(self):
        s = self.peek()
        if s in ("!", "~", "-", "+", "*", "&"):
            self.eat()
            return ("un", s, self.unary())
        if s in ("++", "--"):
            self.eat()
            return ("pre", s, self.unary())
        if s == "sizeof":
            self.eat()
            if self.peek() == "(":
                save = self.i
                self.eat()
                ty = self.try_type()
                if ty is not None and self.peek() == ")":
                    self.eat()
                    return ("sizeof", ty)
                self.i = save
            return ("sizeofe", self.unary())
        if s == "(":
            save = self.i
            self.eat()
            ty = self.try_type()
            if ty is not None and self.peek() == ")":
                self.eat()
                return ("cast", ty, self.unary())
            self.i = save
        return self.postfix()

    def postfix(self):
        e = self.primary()
        while True:
            s = self.peek()
            if s == "(":
                self.eat()
                args = []
                if self.peek() != ")":
                    args.append(self.assign())
                    while self.peek() == ",":
                        self.eat()
                        args.append(self.assign())
                self.eat(")")
                e = ("call", e, args)
            elif s == "[":
                self.eat()
                i = self.expr()
                self.eat("]")
                e = ("idx", e, i)
            elif s in ("->", "."):
                self.eat()
                e = ("mem", e, self.eat()[1], s)
            elif s in ("++", "--"):
                self.eat()
                e = ("post", s, e)
            else:
                return e

    def primary(self):
        k, s = self.peekt()
        if s == "(":
            self.eat()
            e = self.expr()
            self.eat(")")
            return e
        if k == "num":
            self.eat()
            txt = s.rstrip("uUlL")
            return ("num", int(txt, 16) if txt.lower().startswith("0x") else int(txt, 10))
        if k == "id" and s not in KEYWORDS:
            self.eat()
            return ("id", s)
        if k == "str":
            self.eat()
            while self.peekt()[0] == "str":
                s = s[:-1] + self.eat()[1][1:]
            return ("str", s)
        if k == "chr":
            self.eat()
            return ("str", s)
        self.fail(f"unexpected token `{s}` in expression")

    # ---- statements
    def block_items(self):
        items = []
        while self.peek() is not None and self.peek() != "}":
            items.append(self.stmt())
        return items

    def braced_init(self):
        """`{ … }` initialiser, kept as canonical text"""
        self.eat("{")
        parts = []
        while self.peek() != "}":
            if self.peek() == "{":
                parts.append(self.braced_init())
            else:
                parts.append(show(norm_expr(self.assign(), False)))
            if self.peek() == ",":
                self.eat()
        self.eat("}")
        return "{" + ", ".join(parts) + "}"

    def stmt(self):
        k, s = self.peekt()
        if s == "{":
            self.eat()
            items = self.block_items()
            self.eat("}")
            return ("block", items)
        if s == ";":
            self.eat()
            return ("block", [])
        if s == "if":
            self.eat()
            self.eat("(")
            c = self.expr()
            self.eat(")")
            a = self.stmt()
            b = None
            if self.peek() == "else":
                self.eat()
                b = self.stmt()
            return ("if", c, a, b)
        if s == "while":
            self.eat()
            self.eat("(")
            c = self.expr()
            self.eat(")")
            return ("while", c, self.stmt())
        if s == "do":
            self.eat()
            body = self.stmt()
            self.eat("while")
            self.eat("(")
            c = self.expr()
            self.eat(")")
            self.eat(";")
            return ("do", body, c)
        if s == "for":
            self.eat()
            self.eat("(")
            init = None
            if self.peek() != ";":
                init = self.decl_or_expr_stmt()
            else:
                self.eat(";")
            c = None
            if self.peek() != ";":
                c = self.expr()
            self.eat(";")
            inc = None
            if self.peek() != ")":
                inc = self.expr()
            self.eat(")")
            return ("cfor", init, c, inc, self.stmt())
        if s == "switch":
            self.eat()
            self.eat("(")
            e = self.expr()
            self.eat(")")
            self.eat("{")
            groups = []
            labels = None
            body = []
            while self.peek() != "}":
                if self.peek() in ("case", "default"):
                    if labels is not None and body:
                        groups.append((labels, body))
                        labels, body = None, []
                    if labels is None:
                        labels = []
                    if self.eat()[1] == "case":
                        labels.append(self.cond())
                    else:
                        labels.append(("default",))
                    self.eat(":")
                else:
                    if labels is None:
                        self.fail("statement before the first case label")
                    body.append(self.stmt())
            if labels is not None:
                groups.append((labels, body))
            self.eat("}")
            return ("switch", e, groups)
        if s == "return":
            self.eat()
            e = None
            if self.peek() != ";":
                e = self.expr()
            self.eat(";")
            return ("return", e)
        if s in ("break", "continue"):
            self.eat()
            self.eat(";")
            return (s,)
        if s == "goto":
            self.eat()
            l = self.eat()[1]
            self.eat(";")
            return ("goto", l)
        if k == "id" and self.peek(1) == ":" and s not in KEYWORDS and s != "default":
            self.eat()
            self.eat(":")
            return ("label", s)
        if s == "MUST" and self.peek(1) == "(":
            self.eat()
            self.eat("(")
            e = self.expr()
            self.eat(")")
            if self.peek() == ";":
                self.eat()
            return ("must", e)
        return self.decl_or_expr_stmt()

    def decl_or_expr_stmt(self):
        save = self.i
        ty = self.try_type()
        if ty is not None and self.peekt()[0] == "id" and self.peek() not in KEYWORDS:
            decls = []
            while True:
                ptr = ""
                while self.peek() == "*":
                    self.eat()
                    ptr += "*"
                    while self.peek() == "const":
                        ptr += " " + self.eat()[1]
                name = self.eat()[1]
                dims = ""
                while self.peek() == "[":
                    self.eat()
                    d = "" if self.peek() == "]" else show(norm_expr(self.expr(), False))
                    self.eat("]")
                    dims += "[" + d + "]"
                init = None
                if self.peek() == "=":
                    self.eat()
                    init = ("rawinit", self.braced_init()) if self.peek() == "{" else self.assign()
                decls.append((ptr, name, dims, init))
                if self.peek() == ",":
                    self.eat()
                    continue
                break
            self.eat(";")
            return ("decl", ty, decls)
        self.i = save
        e = self.expr()
        self.eat(";")
        return ("expr", e)


# ------------------------------------------------------------------------------------------------- normalisation
def pure(e):
    k = e[0]
    if k in ("num", "id", "str", "sizeof", "default", "rawinit"):
        return True
    if k in ("call", "assign", "pre", "post"):
        return False
    return all(pure(x) for x in e[1:] if isinstance(x, tuple))


def idents(e, out=None):
    out = set() if out is None else out
    if isinstance(e, list):
        for y in e:
            idents(y, out)
        return out
    if not isinstance(e, tuple):
        return out
    if len(e) == 2 and e[0] == "id":
        out.add(e[1])
    for x in e:
        if isinstance(x, (tuple, list)):
            idents(x, out)
    return out


COMMUTATIVE = {"+", "*", "&", "|", "^", "==", "!="}
ZEROS = (("num", 0), ("id", "false"), ("id", "NULL"))        # compared with ==/!=: `x == NULL`, `x == false` are `!x`
NEGATE = {"==": "!=", "!=": "=="}


def norm_expr(e, boolctx):
    k = e[0]
    if k in ("num", "id", "str", "sizeof", "default", "rawinit"):
        return e
    if k == "un":
        op = e[1]
        if op == "!":
            x = norm_expr(e[2], True)
            if x[0] == "un" and x[1] == "!" and boolctx:
                return x[2]
            if x[0] == "bin" and x[1] in NEGATE:
                return norm_expr(("bin", NEGATE[x[1]], x[2], x[3]), boolctx)
            return ("un", "!", x)
        x = norm_expr(e[2], False)
        if op == "-" and x[0] == "num":
            return ("num", -x[1])
        if op == "+":
            return x
        return ("un", op, x)
    if k == "bin":
        op = e[1]
        if op in ("&&", "||"):
            a, b = norm_expr(e[2], True), norm_expr(e[3], True)
            if pure(a) and pure(b) and show(b) < show(a):
                a, b = b, a
            return ("bin", op, a, b)
        a, b = norm_expr(e[2], False), norm_expr(e[3], False)
        if op in (">", ">="):
            op = {">": "<", ">=": "<="}[op]
            a, b = b, a
        if op in ("==", "!="):
            zero = None
            if b in ZEROS:
                zero = a
            elif a in ZEROS:
                zero = b
            if zero is not None:
                if op == "==":
                    return norm_expr(("un", "!", zero), boolctx)
                if boolctx:
                    return norm_expr(zero, True)
        if op in COMMUTATIVE and pure(a) and pure(b) and show(b) < show(a):
            a, b = b, a
        return ("bin", op, a, b)
    if k == "cond":
        return ("cond", norm_expr(e[1], True), norm_expr(e[2], boolctx), norm_expr(e[3], boolctx))
    if k == "cast":
        return ("cast", e[1], norm_expr(e[2], False))
    if k == "call":
        return ("call", norm_expr(e[1], False), [norm_expr(a, False) for a in e[2]])
    if k == "idx":
        return ("idx", norm_expr(e[1], False), norm_expr(e[2], False))
    if k == "mem":
        return ("mem", norm_expr(e[1], False), e[2], e[3])
    if k == "assign":
        return ("assign", e[1], norm_expr(e[2], False), norm_expr(e[3], False))
    if k in ("pre", "post"):
        return (k, e[1], norm_expr(e[2], False))
    if k == "comma":
        return ("comma", norm_expr(e[1], False), norm_expr(e[2], False))
    if k == "sizeofe":
        return ("sizeofe", norm_expr(e[1], False))
    raise ExtractFail("readernorm", f"unknown expression node {k}")


def norm_stmt_expr(e):
    """an expression used as a statement: the increment forms"""
    e = norm_expr(e, False)
    if e[0] in ("pre", "post"):
        return ("assign", "+=" if e[1] == "++" else "-=", e[2], ("num", 1))
    if e[0] == "assign" and e[1] == "=" and e[3][0] == "bin" and e[3][1] in ("+", "-") and pure(e[2]):
        a, b = e[3][2], e[3][3]
        if a == e[2] and b == ("num", 1):
            return ("assign", e[3][1] + "=", e[2], ("num", 1))
        if e[3][1] == "+" and b == e[2] and a == ("num", 1):
            return ("assign", "+=", e[2], ("num", 1))
    return e


def has_own(stmt, what):
    """does `stmt` contain a `break`/`continue` that belongs to the enclosing loop/switch?"""
    k = stmt[0]
    if k == what:
        return True
    if k == "block":
        return any(has_own(s, what) for s in stmt[1])
    if k == "if":
        return has_own(stmt[2], what) or (stmt[3] is not None and has_own(stmt[3], what))
    if k == "switch":
        if what == "break":
            return False
        return any(has_own(s, what) for _, body in stmt[2] for s in body)
    return False


def as_block(s):
    if s is None:
        return ("block", [])
    if s[0] == "block":
        return s
    return ("block", [s])


def ends_jump(items):
    return bool(items) and items[-1][0] in ("break", "return", "goto", "continue")


def const_key(e):
    return ("n", e[1]) if e[0] == "num" else ("s", show(e))


def looks_constant(y):
    """integer literal, or an identifier that names an enumerator / macro (wasmFooBar, FOO_BAR) rather than a variable"""
    if y[0] == "num":
        return True
    return y[0] == "id" and re.fullmatch(r"wasm[A-Z]\w*|[A-Z][A-Z_0-9]+", y[1]) is not None


def chain_arms(st):
    """if / else-if chain on one scrutinee -> (scrutinee, [(labels, block)], default block | None) or None"""
    arms = []
    scrut = [None]
    cur = st
    while cur is not None and cur[0] == "if":
        labs = []
        ok = [True]

        def collect(c):
            if c[0] == "bin" and c[1] == "||":
                collect(c[2])
                collect(c[3])
                return
            cand = None
            if c[0] == "bin" and c[1] == "==":
                for x, y in ((c[2], c[3]), (c[3], c[2])):
                    if looks_constant(y) and not looks_constant(x):
                        cand = (x, y)
                        break
            elif c[0] == "un" and c[1] == "!":            # `s == 0` was normalised to `!s`
                cand = (c[2], ("num", 0))
            if cand is None or not pure(cand[0]):
                ok[0] = False
                return
            if scrut[0] is None:
                scrut[0] = cand[0]
            if cand[0] != scrut[0]:
                ok[0] = False
                return
            labs.append(cand[1])
        if scrut[0] is not None and cur[1] == scrut[0] and cur[3] is not None:
            # an inner `if (s == 0) Y else X` was oriented to `if (s) X else Y`
            arms.append(([("num", 0)], as_block(cur[3])))
            nxt = cur[2]
        else:
            collect(cur[1])
            if not ok[0]:
                return None
            arms.append((labs, as_block(cur[2])))
            nxt = cur[3]
        if nxt is not None and nxt[0] == "block" and len(nxt[1]) == 1 and nxt[1][0][0] in ("if", "switch"):
            nxt = nxt[1][0]
        if nxt is not None and nxt[0] == "if":
            cur = nxt
            continue
        if nxt is not None and nxt[0] == "switch" and nxt[1] == scrut[0]:
            # the rest of the chain is already in switch form (it was canonicalised first): merge its groups
            default = None
            for labs_, body in nxt[2]:
                body = body[:-1] if body and body[-1] == ("break",) else body
                if labs_ == [("default",)]:
                    default = ("block", body)
                else:
                    arms.append((list(labs_), ("block", body)))
        else:
            default = as_block(nxt) if nxt is not None else None
        keys = [const_key(l) for labs_, _ in arms for l in labs_]
        if len(set(keys)) != len(keys):
            return None
        if any(has_own(b, "break") for _, b in arms) or (default is not None and has_own(default, "break")):
            return None                     # a `break` in an if-chain leaves an enclosing loop: not a switch
        return scrut[0], arms, default
    return None


def norm_block(items):
    out = []
    for s in items:
        for n in norm_stmt(s):
            if n[0] == "block" and not any(x[0] == "decl" for x in n[1]):
                out.extend(n[1])
            else:
                out.append(n)
    while len(out) == 1 and out[0][0] == "block":        # `{ { … } }`: the inner scope is the whole outer one
        out = list(out[0][1])
    return subst_temps(out)


def label_order(l):
    return (0, l[1], "") if l[0] == "num" else (1, 0, show(l))


def canonical_switch(scrut, groups, default):
    """groups: [(labels, items-without-trailing-break)] ; default: items | None"""
    n_consts = sum(len(l) for l, _ in groups)
    if n_consts == 1:
        (labs, body), = groups
        lab = labs[0]
        cond = norm_expr(("bin", "==", scrut, lab), True)
        els = ("block", default) if default else None
        return finish_if(cond, ("block", body), els)
    gs = []
    for labs, body in groups:
        labs = sorted(labs, key=label_order)
        gs.append((labs, body if ends_jump(body) else body + [("break",)]))
    gs.sort(key=lambda g: label_order(g[0][0]))
    if default is not None:
        gs.append(([("default",)], default if ends_jump(default) else default + [("break",)]))
    return [("switch", scrut, gs)]


def finish_if(c, a, b):
    """c, a, b already canonical: chain -> switch, orientation, MUST"""
    if b is not None and not b[1]:
        b = None
    ch = chain_arms(("if", c, a, b))
    if ch is not None:
        scrut, arms, default = ch
        if sum(len(l) for l, _ in arms) >= 2:
            return canonical_switch(scrut, [(l, blk[1]) for l, blk in arms], default[1] if default is not None else None)
    if b is not None and not a[1]:
        c, a, b = norm_expr(("un", "!", c), True), b, None
    if b is not None and c[0] == "un" and c[1] == "!":
        c, a, b = c[2], b, a
    if b is None and a[1] == [("return", ("id", "false"))] and c[0] == "un" and c[1] == "!":
        return [("must", c[2])]
    st = ("if", c, a, b)
    ch = chain_arms(st)
    if ch is not None:
        scrut, arms, default = ch
        if sum(len(l) for l, _ in arms) >= 2:
            return canonical_switch(scrut, [(l, blk[1]) for l, blk in arms], default[1] if default is not None else None)
    return [st]


def norm_stmt(s):
    k = s[0]
    if k == "block":
        return [("block", norm_block(s[1]))]
    if k == "expr":
        return [("expr", norm_stmt_expr(s[1]))]
    if k == "must":
        return [("must", norm_expr(s[1], True))]
    if k == "decl":
        return [("decl", s[1], [(p, n, d, (norm_expr(i, False) if i is not None else None)) for p, n, d, i in s[2]])]
    if k == "return":
        return [("return", norm_expr(s[1], False) if s[1] is not None else None)]
    if k in ("break", "continue", "goto", "label"):
        return [s]
    if k == "if":
        c = norm_expr(s[1], True)
        a = ("block", norm_block(as_block(s[2])[1]))
        b = ("block", norm_block(as_block(s[3])[1])) if s[3] is not None else None
        return finish_if(c, a, b)
    if k == "while":
        return [("while", norm_expr(s[1], True), ("block", norm_block(as_block(s[2])[1])))]
    if k == "do":
        return [("do", ("block", norm_block(as_block(s[1])[1])), norm_expr(s[2], True))]
    if k == "cfor":
        init, c, inc, body = s[1], s[2], s[3], as_block(s[4])
        out = []
        if init is not None:
            out.extend(norm_stmt(init))
        cc = norm_expr(c, True) if c is not None else ("num", 1)
        if has_own(body, "continue") and inc is not None:
            # `continue` must still reach the increment: stays a `for` (initialiser hoisted)
            out.append(("for", cc, norm_stmt_expr(inc), ("block", norm_block(body[1]))))
            return out
        items = list(body[1]) + ([("expr", inc)] if inc is not None else [])
        out.append(("while", cc, ("block", norm_block(items))))
        return out
    if k == "switch":
        scrut = norm_expr(s[1], False)
        groups = []
        default = None
        for gi, (labs, body) in enumerate(s[2]):
            items = norm_block(body)
            if len(items) == 1 and items[0][0] == "block":
                items = items[0][1]
            if not ends_jump(items):
                if gi != len(s[2]) - 1:
                    raise ExtractFail("readernorm", "switch group falls through into the next group")
            elif items[-1][0] == "break":
                items = items[:-1]
            if has_own(("block", items), "break"):
                raise ExtractFail("readernorm", "switch group with an inner `break`")
            labs = [norm_expr(l, False) if l != ("default",) else l for l in labs]
            if ("default",) in labs:
                if len(labs) > 1:
                    raise ExtractFail("readernorm", "`default` shares its group with case labels")
                default = items
            else:
                groups.append((labs, items))
        if not pure(scrut):
            raise ExtractFail("readernorm", "switch on an expression with side effects")
        if not groups:
            return [("block", default or [])]
        return canonical_switch(scrut, groups, default)
    raise ExtractFail("readernorm", f"unknown statement {k}")


STMT_KINDS = {"block", "expr", "must", "decl", "return", "break", "continue", "goto", "label", "if", "while", "do", "for", "switch"}


def exprs_of(stmts):
    """all expression nodes occurring in a list of canonical statements"""
    out = []

    def st(s):
        k = s[0]
        if k == "block":
            for x in s[1]:
                st(x)
        elif k in ("expr", "must"):
            out.append(s[1])
        elif k == "decl":
            for _, _, _, init in s[2]:
                if init is not None:
                    out.append(init)
        elif k == "return":
            if s[1] is not None:
                out.append(s[1])
        elif k == "if":
            out.append(s[1])
            st(s[2])
            if s[3] is not None:
                st(s[3])
        elif k == "while":
            out.append(s[1])
            st(s[2])
        elif k == "do":
            st(s[1])
            out.append(s[2])
        elif k == "for":
            out.append(s[1])
            out.append(s[2])
            st(s[3])
        elif k == "switch":
            out.append(s[1])
            for labs, body in s[2]:
                for x in body:
                    st(x)
    for s in stmts:
        st(s)
    return out


def writes_in(stmts, names):
    """does any statement assign / increment / take the address of one of `names` (or of an object reached from it)?"""
    hit = [False]

    def base_of(t):
        while True:
            if t[0] in ("idx", "mem"):
                t = t[1]
            elif t[0] == "un" and t[1] == "*":
                t = t[2]
            elif t[0] == "cast":
                t = t[2]
            else:
                return t

    def ex(e):
        if not isinstance(e, tuple) or hit[0]:
            return
        if e[0] == "assign" or e[0] in ("pre", "post"):
            b = base_of(e[2])
            if b[0] == "id" and b[1] in names:
                hit[0] = True
        if e[0] == "un" and e[1] == "&":
            b = base_of(e[2])
            if b[0] == "id" and b[1] in names:
                hit[0] = True
        for x in e[1:]:
            if isinstance(x, tuple):
                ex(x)
            elif isinstance(x, list):
                for y in x:
                    ex(y)
    for e in exprs_of(stmts):
        ex(e)
    return hit[0]


def uses(stmts, name):
    return any(name in idents(e) for e in exprs_of(stmts))


def replace_id(node, name, repl):
    if isinstance(node, list):
        return [replace_id(x, name, repl) for x in node]
    if not isinstance(node, tuple):
        return node
    if node == ("id", name):
        return repl
    return tuple(replace_id(x, name, repl) for x in node)


def subst_temps(items):
    out = list(items)
    i = 0
    while i < len(out):
        s = out[i]
        if s[0] == "decl" and len(s[2]) == 1 and "static" not in s[1]:
            ptr, name, dims, init = s[2][0]
            rest = out[i + 1:]
            if dims == "" and init is not None and init[0] != "rawinit" and init[0] != "num" and pure(init) \
                    and name not in idents(init) and uses(rest, name):
                last = max(j for j, r in enumerate(rest) if uses([r], name))
                if not writes_in(rest, {name}) and not writes_in(rest[:last + 1], idents(init)):
                    out = out[:i] + [y for r in rest for y in renorm(replace_id(r, name, init))]
                    continue
        i += 1
    return out


def renorm(s):
    """after a substitution operand orders / zero tests may need another pass; statements are already canonical"""
    k = s[0]
    if k == "block":
        return [("block", [y for x in s[1] for y in renorm(x)])]
    if k == "expr":
        return [("expr", norm_stmt_expr(s[1]))]
    if k == "must":
        return [("must", norm_expr(s[1], True))]
    if k == "decl":
        return [("decl", s[1], [(p, n, d, (norm_expr(i, False) if i is not None and i[0] != "rawinit" else i)) for p, n, d, i in s[2]])]
    if k == "return":
        return [("return", norm_expr(s[1], False) if s[1] is not None else None)]
    if k == "if":
        return [("if", norm_expr(s[1], True), renorm(s[2])[0], renorm(s[3])[0] if s[3] is not None else None)]
    if k == "while":
        return [("while", norm_expr(s[1], True), renorm(s[2])[0])]
    if k == "do":
        return [("do", renorm(s[1])[0], norm_expr(s[2], True))]
    if k == "for":
        return [("for", norm_expr(s[1], True), norm_stmt_expr(s[2]), renorm(s[3])[0])]
    if k == "switch":
        return [("switch", norm_expr(s[1], False), [(l, [y for x in b for y in renorm(x)]) for l, b in s[2]])]
    return [s]


# ------------------------------------------------------------------------------------------------------ printer
UN_PREC = 11


def prec(e):
    k = e[0]
    if k == "comma":
        return -3
    if k == "assign":
        return -2
    if k == "cond":
        return -1
    if k == "bin":
        return PREC_OF[e[1]]
    if k in ("un", "cast", "pre", "sizeofe"):
        return UN_PREC
    return 12


def show(e):
    k = e[0]
    if k == "num":
        return str(e[1])
    if k in ("id", "str"):
        return e[1]
    if k == "rawinit":
        return e[1]
    if k == "default":
        return "default"
    if k == "sizeof":
        return f"sizeof({e[1]})"
    if k == "sizeofe":
        return f"sizeof({show(e[1])})"

    def sub(x, p):
        t = show(x)
        return "(" + t + ")" if prec(x) < p else t
    if k == "un":
        inner = sub(e[2], UN_PREC)
        if e[1] in ("-", "+", "&", "*") and inner.startswith(e[1]):
            inner = "(" + inner + ")"
        return e[1] + inner
    if k == "cast":
        return f"({e[1]}) " + sub(e[2], UN_PREC)
    if k == "pre":
        return e[1] + sub(e[2], UN_PREC)
    if k == "post":
        return sub(e[2], 12) + e[1]
    if k == "bin":
        p = PREC_OF[e[1]]
        a, b = e[2], e[3]
        ta = show(a)
        tb = show(b)
        # below the comparison level (|| && | ^ & == !=) every binary operand is parenthesised: no reader has to know
        # the precedence table, and a rewrite that adds or drops such parentheses changes nothing
        if prec(a) < p or (a[0] == "bin" and a[1] != e[1] and (p <= 5 or prec(a) <= 5)):
            ta = "(" + ta + ")"
        if prec(b) <= p or (b[0] == "bin" and (p <= 5 or prec(b) <= 5)):
            tb = "(" + tb + ")"
        return f"{ta} {e[1]} {tb}"
    if k == "cond":
        return f"{sub(e[1], 0)} ? {show(e[2])} : {sub(e[3], -1)}"
    if k == "assign":
        return f"{sub(e[2], UN_PREC)} {e[1]} {sub(e[3], -2)}"
    if k == "comma":
        return f"{show(e[1])}, {show(e[2])}"
    if k == "call":
        return sub(e[1], 12) + "(" + ", ".join(sub(a, -2) for a in e[2]) + ")"
    if k == "idx":
        return sub(e[1], 12) + "[" + show(e[2]) + "]"
    if k == "mem":
        return sub(e[1], 12) + e[3] + e[2]
    raise ExtractFail("readernorm", f"cannot print {k}")


def show_stmt(s):
    k = s[0]
    if k == "block":
        return "{ " + "".join(show_stmt(x) + " " for x in s[1]) + "}"
    if k == "expr":
        return show(s[1]) + ";"
    if k == "must":
        return "MUST (" + show(s[1]) + ")"
    if k == "decl":
        ds = []
        for ptr, name, dims, init in s[2]:
            ds.append(ptr + name + dims + ((" = " + show(init)) if init is not None else ""))
        return s[1] + " " + ", ".join(ds) + ";"
    if k == "return":
        return "return;" if s[1] is None else "return " + show(s[1]) + ";"
    if k in ("break", "continue"):
        return k + ";"
    if k == "goto":
        return "goto " + s[1] + ";"
    if k == "label":
        return s[1] + ":"
    if k == "if":
        t = "if (" + show(s[1]) + ") " + show_stmt(s[2])
        if s[3] is not None:
            t += " else " + show_stmt(s[3])
        return t
    if k == "while":
        return "while (" + show(s[1]) + ") " + show_stmt(s[2])
    if k == "do":
        return "do " + show_stmt(s[1]) + " while (" + show(s[2]) + ");"
    if k == "for":
        return "for (; " + show(s[1]) + "; " + show(s[2]) + ") " + show_stmt(s[3])
    if k == "switch":
        t = "switch (" + show(s[1]) + ") { "
        for labs, body in s[2]:
            for l in labs:
                t += "default: " if l == ("default",) else "case " + show(l) + ": "
            t += "{ " + "".join(show_stmt(x) + " " for x in body) + "} "
        return t + "}"
    raise ExtractFail("readernorm", f"cannot print statement {k}")


# --------------------------------------------------------------------------------------------------------- API
def function_text(src, name, where):
    """(parameter text, body text without the outer braces) of the definition of `name` in comment-free `src`;
    string / character literals are respected when matching braces."""
    for m in re.finditer(r"\b" + re.escape(name) + r"\s*\(", src):
        i = m.end() - 1
        d = 0
        j = i
        while j < len(src):
            if src[j] == "(":
                d += 1
            elif src[j] == ")":
                d -= 1
                if d == 0:
                    break
            j += 1
        k = j + 1
        while k < len(src) and src[k] in " \t\r\n":
            k += 1
        if k >= len(src) or src[k] != "{":
            continue
        d = 0
        e = k
        while e < len(src):
            c = src[e]
            if c in "\"'":
                q = c
                e += 1
                while e < len(src) and src[e] != q:
                    e += 2 if src[e] == "\\" else 1
            elif c == "{":
                d += 1
            elif c == "}":
                d -= 1
                if d == 0:
                    return src[i + 1:j], src[k + 1:e]
            e += 1
    raise ExtractFail(where, f"function {name} not found")


def canon_body(body, where):
    p = P(lex(body, where), where)
    items = p.block_items()
    if p.peek() is not None:
        p.fail("trailing tokens")
    return "{ " + "".join(show_stmt(s) + " " for s in norm_block(items)) + "}"


def canon(src, name, where):
    """`src`: file text (comments are removed here)"""
    _, body = function_text(strip_comments(src), name, where)
    return canon_body(body, where + ":" + name)


def param_names(src, name, where):
    params, _ = function_text(strip_comments(src), name, where)
    out = []
    for p in params.split(","):
        ids = re.findall(r"[A-Za-z_]\w*", re.sub(r"\([^()]*\)", "", p))
        if ids and ids != ["void"]:
            out.append(ids[-1])
    return out


def vpat(template):
    """A regex from `template` in which `{x}` stands for an identifier: the first occurrence binds group `x`, later ones
    must repeat it (local names are free)."""
    seen = set()

    def rep(m):
        n = m.group(1)
        if n in seen:
            return "(?P=%s)" % n
        seen.add(n)
        return "(?P<%s>[A-Za-z_]\\w*)" % n
    return re.sub(r"\{([A-Za-z_]\w*)\}", rep, template)


if __name__ == "__main__":
    import sys
    print(canon(open(sys.argv[1]).read(), sys.argv[2], sys.argv[1]))
