"""gen_macros — regenerate lean/W2c2Verif/Gen/Macros.lean from /repo/w2c2/w2c2_base.h.

For each configuration of the header (little-endian with compiler builtins; the fallback
code used when `__has_builtin` is unavailable; big-endian with builtin and with mask/shift
byte swaps) the numeric macros and inline fallback functions are preprocessed exactly as a
C preprocessor would, parsed, and printed as `CMacro` / `CFunc` terms.
"""
import sys
import os
from cfront import (Cpp, Parser, StmtParser, ExtractFail, find_functions, split_params,
                    parse_expr_tokens, simplify, to_lean, seq_to_lean, lean_str, lex, Tok, toks_text)

BASE_PREDEF = {
    "__BYTE_ORDER__": "1234", "__ORDER_LITTLE_ENDIAN__": "1234", "__ORDER_BIG_ENDIAN__": "4321",
    "__GNUC__": "12", "__GNUC_MINOR__": "2", "__GNUC_PATCHLEVEL__": "0", "__x86_64__": "1",
    "WASM_THREADS_PTHREADS": "1",
    "INFINITY": "(__builtin_inff ())", "NAN": "(__builtin_nanf (\"\"))",
    "NULL": "0", "ETIMEDOUT": "110",
}


class Config:
    def __init__(self, name, predef, has_builtin):
        self.name = name
        self.predef = predef
        self.has_builtin = has_builtin


def configs():
    le = dict(BASE_PREDEF)
    be = dict(BASE_PREDEF)
    be["WASM_ENDIAN"] = "WASM_BIG_ENDIAN"
    be_plain = {k: v for k, v in be.items() if not k.startswith("__GNUC")}
    return {
        "le": Config("le", le, True),
        "fallback": Config("fallback", le, False),
        "be": Config("be", be, True),
        "be_plain": Config("be_plain", be_plain, False),
    }


class HeaderView:
    """The header preprocessed under one configuration."""

    def __init__(self, path, cfg):
        self.path = path
        self.cfg = cfg
        text = open(path).read()
        cpp = Cpp(cfg.predef, has_builtin=cfg.has_builtin, fname=os.path.basename(path))
        if cfg.has_builtin:
            cpp.operators = {"__has_builtin"}
        cpp.run(text)
        self.cpp = cpp
        self._funcs = None

    def has_macro(self, name):
        return name in self.cpp.macros

    def macro(self, name):
        return self.cpp.macros.get(name)

    def expand_call(self, name, args):
        """Tokens of NAME(args…) fully expanded; args are identifier names."""
        src = name + "(" + ", ".join(args) + ")" if args is not None else name
        toks = [t for l in lex(src) for t in l]
        return self.cpp.expand(toks)

    def funcs(self):
        if self._funcs is None:
            lines = []
            for ln in self.cpp.text_out:
                lines.append(self.cpp.expand(ln))
            self._funcs = find_functions(lines, self.path)
        return self._funcs


def macro_to_lean(view, name, params, where_prefix):
    m = view.macro(name)
    if m is None:
        raise ExtractFail(f"{where_prefix}", f"macro {name} not defined in configuration {view.cfg.name}")
    where = f"{where_prefix}:{m.line}"
    if m.params is None or len(m.params) != len(params):
        raise ExtractFail(where, f"macro {name} has parameters {m.params}, model expects {len(params)}")
    toks = view.expand_call(name, params)
    e = simplify(parse_expr_tokens(toks, where), where)
    return "{ params := [" + ", ".join(lean_str(p) for p in params) + "], body := " + to_lean(e, where) + " }", \
        toks_text(toks)


def func_to_lean(view, name, where_prefix):
    fs = view.funcs()
    if name not in fs:
        raise ExtractFail(where_prefix, f"function {name} not defined in configuration {view.cfg.name}")
    f = fs[name]
    where = f"{where_prefix}:{f.line}"
    # return type: last type-like tokens of the head
    head = [t for t in f.ret if t.text not in ("static", "__inline__", "__inline", "inline",
                                                "__attribute__", "extern")]
    hp = Parser(head, where)
    # skip attribute parens
    hp.toks = [t for t in head if t.kind == "id" and (t.text in hp.typedefs or t.text in
               ("unsigned", "signed", "int", "long", "short", "char", "float", "double", "void", "bool"))]
    ty = hp.try_type()
    if ty is None or ty[1]:
        raise ExtractFail(where, f"unsupported return type of {name}")
    params = []
    for p in split_params(f.params):
        pp = Parser(p, where)
        pty = pp.try_type()
        if pty is None or pty[1] or pp.pos != len(p) - 1:
            raise ExtractFail(where, f"unsupported parameter in {name}: {toks_text(p)}")
        params.append((p[-1].text, pty[0]))
    sp = StmtParser(f.body_toks, where)
    items = sp.parse_block_items()
    if sp.pos != len(sp.toks):
        sp.fail("trailing tokens in body")
    body = seq_to_lean(items, where)
    ps = ", ".join(f"({lean_str(n)}, .{t})" for n, t in params)
    return f"{{ params := [{ps}], ret := .{ty[0]}, body := {body} }}", toks_text(f.body_toks)


BIN_INT = ["I32_DIV_S", "I64_DIV_S", "I32_REM_S", "I64_REM_S", "DIV_U", "REM_U",
           "I32_ROTL", "I64_ROTL", "I32_ROTR", "I64_ROTR"]
UN_BITS = ["I32_CLZ", "I64_CLZ", "I32_CTZ", "I64_CTZ", "I32_POPCNT", "I64_POPCNT"]
BIN_FLOAT = ["FMIN", "FMAX"]
UN_TRUNC = [f"{i}_TRUNC_{k}_{f}" for k in ("S", "U", "SAT_S", "SAT_U") for i in ("I32", "I64") for f in ("F32", "F64")]
SWAPS = ["swapU16", "swapU32", "swapU64"]


def generate(repo):
    hdr = os.path.join(repo, "w2c2", "w2c2_base.h")
    cfgs = configs()
    views = {k: HeaderView(hdr, c) for k, c in cfgs.items()}
    le, fb, be, bep = views["le"], views["fallback"], views["be"], views["be_plain"]
    W = "w2c2_base.h"
    out = []
    out.append("-- GENERATED by tools/extract/gen_macros.py from /repo/w2c2/w2c2_base.h — do not edit.")
    out.append("import W2c2Verif.CSem.Expr")
    out.append("set_option maxRecDepth 4096")
    out.append("namespace W2c2Verif.Gen")
    out.append("")
    names_le = []
    for n in BIN_INT + BIN_FLOAT:
        term, src = macro_to_lean(le, n, ["x", "y"], W)
        out.append(f"/-- `{n}(x, y)` expands to `{src}` -/")
        out.append(f"def m_{n} : CMacro := {term}")
        names_le.append(n)
    for n in UN_BITS + UN_TRUNC:
        term, src = macro_to_lean(le, n, ["x"], W)
        out.append(f"/-- `{n}(x)` expands to `{src}` -/")
        out.append(f"def m_{n} : CMacro := {term}")
        names_le.append(n)
    out.append("")
    out.append("def macrosLE : List (String × CMacro) := [")
    out.append(",\n".join(f"  ({lean_str(n)}, m_{n})" for n in names_le))
    out.append("]")
    out.append("")
    # fallback functions (configuration without __has_builtin)
    fb_names = []
    for n in UN_BITS:
        if fb.has_macro(n):
            raise ExtractFail(W, f"{n} is a macro in the fallback configuration; model expects an inline function")
        term, src = func_to_lean(fb, n, W)
        out.append(f"/-- fallback `{n}` body: `{src}` -/")
        out.append(f"def f_{n} : CFunc := {term}")
        fb_names.append(n)
    out.append("")
    out.append("def funcsFallback : List (String × CFunc) := [")
    out.append(",\n".join(f"  ({lean_str(n)}, f_{n})" for n in fb_names))
    out.append("]")
    out.append("")
    # byte swaps on a big-endian host: builtin and mask/shift variants; LE = identity
    for n in SWAPS:
        term, src = macro_to_lean(be, n, ["x"], W)
        out.append(f"/-- big-endian `{n}(x)` with compiler intrinsics: `{src}` -/")
        out.append(f"def m_BE_{n} : CMacro := {term}")
        term, src = macro_to_lean(bep, n, ["x"], W)
        out.append(f"/-- big-endian `{n}(x)` without intrinsics: `{src}` -/")
        out.append(f"def m_BEplain_{n} : CMacro := {term}")
        term, src = macro_to_lean(le, n, ["x"], W)
        out.append(f"/-- little-endian `{n}(x)`: `{src}` -/")
        out.append(f"def m_LE_{n} : CMacro := {term}")
    out.append("")
    # Trap enum order and page size
    import re
    text = open(hdr).read()
    m = re.search(r"typedef\s+enum\s+Trap\s*\{([^}]*)\}", text)
    if not m:
        raise ExtractFail(W, "enum Trap not found")
    enum_names = [x.strip() for x in m.group(1).split(",") if x.strip()]
    out.append("def trapEnum : List String := [" + ", ".join(lean_str(x) for x in enum_names) + "]")
    ps = le.expand_call("WASM_PAGE_SIZE", None)
    out.append(f"def wasmPageSize : Nat := {int(toks_text(ps))}")
    out.append("")
    out.append("end W2c2Verif.Gen")
    return "\n".join(out) + "\n"


if __name__ == "__main__":
    repo = sys.argv[1] if len(sys.argv) > 1 else "/repo"
    try:
        sys.stdout.write(generate(repo))
    except ExtractFail as e:
        print(str(e), file=sys.stderr)
        sys.exit(3)
